"""Partial evaluation of small pure functions over symbolic operands.

Used where a rule needs *what a function computes* for each value of a finite
selector (a match type, a collation name), independently of how the code is
organised: an ``if/elif`` chain, a dispatch table of lambdas, named helper
functions or ``operator.*`` entries all evaluate to the same term.

Nothing of the analysed repository is executed: the evaluator walks the AST.
Symbolic operands stay symbolic (``Sym``); operations on them build ``Term``s.
Anything outside the modelled subset raises ``AnalysisError`` (exit 2), never
a guess.
"""

from __future__ import annotations

import ast
from typing import Dict, List, Optional

from .program import AnalysisError, dotted, src


class Sym:
    def __init__(self, name: str):
        self.name = name

    def __repr__(self):
        return self.name

    def __eq__(self, other):
        return isinstance(other, Sym) and other.name == self.name

    def __hash__(self):
        return hash(("sym", self.name))


class Term:
    def __init__(self, op: str, *args):
        self.op = op
        self.args = tuple(args)

    def __repr__(self):
        return "%s(%s)" % (self.op, ", ".join(map(repr, self.args)))

    def __eq__(self, other):
        return isinstance(other, Term) and (self.op, self.args) == (other.op, other.args)

    def __hash__(self):
        return hash((self.op, self.args))


class Closure:
    def __init__(self, node, env, module):
        self.node = node
        self.env = env
        self.module = module


class Builtin:
    def __init__(self, name):
        self.name = name

    def __repr__(self):
        return "<%s>" % self.name


class RecordCls:
    """A NamedTuple / dataclass of the program (its constructor)."""
    def __init__(self, ci, fields):
        self.ci, self.fields = ci, fields


class Record:
    def __init__(self, cls: "RecordCls", values: dict):
        self.cls, self.values = cls, values

    def __repr__(self):
        return "%s(%r)" % (self.cls.ci.name, self.values)


class LazyDict:
    def __init__(self, node: ast.Dict, env, module):
        self.node, self.env, self.module = node, env, module


class Raised(Exception):
    def __init__(self, name):
        self.name = name


class _Return(Exception):
    def __init__(self, value):
        self.value = value


METHODS_PURE = {"startswith", "endswith", "encode", "decode", "upper", "lower", "casefold", "strip", "lstrip", "rstrip",
                "title", "swapcase", "capitalize", "replace", "normalize"}


class PEval:
    def __init__(self, program, where: str = ""):
        self.P = program
        self.where = where
        self.depth = 0

    def fail(self, node, why):
        raise AnalysisError("%s: cannot evaluate `%s` (%s)" % (self.where, src(node)[:70], why))

    # -- names
    def lookup(self, name: str, env: dict, module):
        if name in env:
            return env[name]
        if name in module.functions and module.functions[name].cls is None:
            return Closure(module.functions[name].node, {}, module)
        if name in module.const_exprs:
            return self.ev(module.const_exprs[name], {}, module)
        kind, obj = self.P.resolve_dotted(module, name)
        if kind == "func":
            return Closure(obj.node, {}, obj.module)
        if kind == "class":
            bases = {(dotted(b) or "").split(".")[-1] for b in obj.node.bases}
            decos = {(dotted(x if not isinstance(x, ast.Call) else x.func) or "").split(".")[-1] for x in obj.node.decorator_list}
            if "NamedTuple" in bases or "dataclass" in decos:
                return RecordCls(obj, [st.target.id for st in obj.node.body if isinstance(st, ast.AnnAssign) and isinstance(st.target, ast.Name)])
        if kind == "module":
            return Builtin("module:" + obj.name)
        if kind == "external":
            return Builtin(str(obj))
        if name in ("len", "str", "bytes", "bool", "isinstance", "any", "all"):
            return Builtin(name)
        self.fail(ast.Name(id=name, ctx=ast.Load()), "unknown name")

    # -- expressions
    def ev(self, e: ast.AST, env: dict, module):
        if isinstance(e, ast.Constant):
            return e.value
        if isinstance(e, ast.Name):
            return self.lookup(e.id, env, module)
        if isinstance(e, ast.Lambda):
            return Closure(e, dict(env), module)
        if isinstance(e, ast.Dict):
            return LazyDict(e, dict(env), module)
        if isinstance(e, ast.Attribute):
            d = dotted(e)
            if d is not None and isinstance(e.value, ast.Name) and e.value.id not in env:
                kind, obj = self.P.resolve_dotted(module, d)
                if kind == "external":
                    return Builtin(str(obj))
                if kind == "func":
                    return Closure(obj.node, {}, obj.module)
                if kind == "const":
                    pass
            base = self.ev(e.value, env, module)
            if isinstance(base, Builtin) and base.name.startswith("module:"):
                mod = self.P.modules.get(base.name[7:]) if hasattr(self.P, "modules") else None
                if mod is not None:
                    return self.lookup(e.attr, {}, mod)
            if isinstance(base, Builtin):
                return Builtin(base.name + "." + e.attr)
            if isinstance(base, Record):
                if e.attr in base.values:
                    return base.values[e.attr]
                self.fail(e, "record has no field %s" % e.attr)
            return Term("attr:" + e.attr, base)
        if isinstance(e, ast.Compare) and len(e.ops) == 1:
            l, r = self.ev(e.left, env, module), self.ev(e.comparators[0], env, module)
            op = e.ops[0]
            const = lambda v: not isinstance(v, (Sym, Term, Closure, Builtin, LazyDict, Record, RecordCls))
            if isinstance(op, (ast.Is, ast.IsNot)):
                if r is None or l is None:
                    res = l is None and r is None
                    return res if isinstance(op, ast.Is) else not res
                self.fail(e, "identity test")
            if const(l) and const(r):
                try:
                    return {ast.Eq: l == r, ast.NotEq: l != r}.get(type(op)) if isinstance(op, (ast.Eq, ast.NotEq)) else \
                        {ast.In: l in r, ast.NotIn: l not in r}[type(op)]
                except (TypeError, KeyError):
                    self.fail(e, "comparison")
            name = {ast.Eq: "eq", ast.NotEq: "ne", ast.In: "in", ast.NotIn: "notin"}.get(type(op))
            if name is None:
                self.fail(e, "comparison operator")
            return Term(name, l, r)
        if isinstance(e, ast.UnaryOp) and isinstance(e.op, ast.Not):
            v = self.ev(e.operand, env, module)
            return (not v) if isinstance(v, bool) else Term("not", v)
        if isinstance(e, ast.BoolOp):
            vals = [self.ev(v, env, module) for v in e.values]
            if all(isinstance(v, bool) or v is None for v in vals):
                return all(vals) if isinstance(e.op, ast.And) else any(vals)
            return Term("and" if isinstance(e.op, ast.And) else "or", *vals)
        if isinstance(e, ast.IfExp):
            t = self.ev(e.test, env, module)
            if isinstance(t, bool) or t is None:
                return self.ev(e.body if t else e.orelse, env, module)
            self.fail(e, "undecidable conditional expression")
        if isinstance(e, ast.Subscript):
            base = self.ev(e.value, env, module)
            key = self.ev(e.slice, env, module)
            if isinstance(base, LazyDict):
                v = self.dict_get(base, key)
                if v is _MISSING:
                    raise Raised("KeyError")
                return v
            if isinstance(base, Record) and isinstance(key, int) and -len(base.cls.fields) <= key < len(base.cls.fields):
                return base.values[base.cls.fields[key]]
            if isinstance(base, tuple) and isinstance(key, int) and -len(base) <= key < len(base):
                return base[key]
            return Term("subscript", base, key)
        if isinstance(e, ast.Call):
            return self.call(e, env, module)
        if isinstance(e, (ast.Tuple, ast.List)):
            return tuple(self.ev(x, env, module) for x in e.elts)
        if isinstance(e, ast.JoinedStr):
            return Term("fstring")
        self.fail(e, type(e).__name__)

    def dict_get(self, d: LazyDict, key):
        for k, v in zip(d.node.keys, d.node.values):
            if k is None:
                continue
            if self.ev(k, d.env, d.module) == key:
                return self.ev(v, d.env, d.module)
        return _MISSING

    def call(self, e: ast.Call, env, module):
        if e.keywords and any(k.arg is None for k in e.keywords):
            self.fail(e, "**kwargs")
        # method calls on symbolic values / dicts
        if isinstance(e.func, ast.Attribute):
            d = dotted(e.func)
            recv_is_local = isinstance(e.func.value, ast.Name) and (e.func.value.id in env or e.func.value.id in module.const_exprs)
            if d is None or recv_is_local or not isinstance(e.func.value, ast.Name):
                recv = self.ev(e.func.value, env, module)
                args = [self.ev(a, env, module) for a in e.args]
                kw = {k.arg: self.ev(k.value, env, module) for k in e.keywords}
                if isinstance(recv, LazyDict) and e.func.attr == "get" and args:
                    v = self.dict_get(recv, args[0])
                    return (args[1] if len(args) > 1 else None) if v is _MISSING else v
                if isinstance(recv, (Sym, Term)) and e.func.attr in METHODS_PURE:
                    extra = tuple(args) + tuple(sorted(kw.items()))
                    return Term(e.func.attr, recv, *extra)
                self.fail(e, "method %s on %r" % (e.func.attr, recv))
        f = self.ev(e.func, env, module)
        args = [self.ev(a, env, module) for a in e.args]
        kw = {k.arg: self.ev(k.value, env, module) for k in e.keywords}
        return self.apply(f, args, kw, e)

    def apply(self, f, args: List, kw: Dict, node):
        if isinstance(f, RecordCls):
            vals = {}
            if len(args) > len(f.fields):
                self.fail(node, "too many fields")
            for fld, v in zip(f.fields, args):
                vals[fld] = v
            for k, v in kw.items():
                if k not in f.fields:
                    self.fail(node, "unknown field %s" % k)
                vals[k] = v
            # defaults of the remaining fields
            for st in f.ci.node.body:
                if isinstance(st, ast.AnnAssign) and isinstance(st.target, ast.Name) and st.target.id not in vals and st.value is not None:
                    vals[st.target.id] = self.ev(st.value, {}, f.ci.module)
            missing = [x for x in f.fields if x not in vals]
            if missing:
                self.fail(node, "missing fields %s" % missing)
            return Record(f, vals)
        if isinstance(f, Builtin):
            n = f.name
            if n in ("operator.eq", "_operator.eq") and len(args) == 2:
                return Term("eq", args[0], args[1])
            if n in ("operator.ne",) and len(args) == 2:
                return Term("ne", args[0], args[1])
            if n in ("operator.contains", "_operator.contains") and len(args) == 2:
                return Term("in", args[1], args[0])      # contains(a, b) is `b in a`
            if n.endswith(".startswith") or n.endswith(".endswith"):
                # str.startswith(a, b)
                if len(args) == 2:
                    return Term(n.rsplit(".", 1)[1], args[0], args[1])
            if n == "bool" and len(args) == 1:
                return args[0] if isinstance(args[0], (bool, Term)) else Term("bool", args[0])
            if n == "unicodedata.normalize" and len(args) == 2:
                return Term("normalize", args[1], args[0])
            self.fail(node, "call of %s" % n)
        if isinstance(f, Closure):
            self.depth += 1
            if self.depth > 12:
                self.fail(node, "recursion depth")
            try:
                fn = f.node
                a = fn.args
                if a.vararg or a.kwarg:
                    self.fail(node, "*args in callee")
                params = [p.arg for p in a.posonlyargs + a.args]
                env = dict(f.env)
                if len(args) > len(params):
                    self.fail(node, "too many arguments")
                for p, v in zip(params, args):
                    env[p] = v
                for p, dflt in zip(params[len(params) - len(a.defaults):], a.defaults):
                    if p not in env or (p in kw):
                        pass
                    if p not in env and p not in kw:
                        env[p] = self.ev(dflt, f.env, f.module)
                for k, v in kw.items():
                    if k not in params and k not in [x.arg for x in a.kwonlyargs]:
                        self.fail(node, "unknown keyword %s" % k)
                    env[k] = v
                for p, dflt in zip(a.kwonlyargs, a.kw_defaults):
                    if p.arg not in env and dflt is not None:
                        env[p.arg] = self.ev(dflt, f.env, f.module)
                missing = [p for p in params if p not in env]
                if missing:
                    self.fail(node, "missing arguments %s" % missing)
                if isinstance(fn, ast.Lambda):
                    return self.ev(fn.body, env, f.module)
                try:
                    self.block(fn.body, env, f.module)
                except _Return as r:
                    return r.value
                return None
            finally:
                self.depth -= 1
        self.fail(node, "call of %r" % (f,))

    # -- statements
    def block(self, stmts, env, module):
        for s in stmts:
            self.stmt(s, env, module)

    def stmt(self, s, env, module):
        if isinstance(s, ast.Expr):
            if isinstance(s.value, ast.Constant):
                return
            self.fail(s, "expression statement")
        if isinstance(s, ast.Return):
            raise _Return(self.ev(s.value, env, module) if s.value is not None else None)
        if isinstance(s, (ast.Assign, ast.AnnAssign)):
            tgts = s.targets if isinstance(s, ast.Assign) else [s.target]
            if len(tgts) != 1 or not isinstance(tgts[0], ast.Name) or s.value is None:
                self.fail(s, "assignment form")
            env[tgts[0].id] = self.ev(s.value, env, module)
            return
        if isinstance(s, ast.If):
            t = self.ev(s.test, env, module)
            if not (isinstance(t, bool) or t is None):
                self.fail(s.test, "undecidable test %r" % (t,))
            self.block(s.body if t else s.orelse, env, module)
            return
        if isinstance(s, ast.Raise):
            raise Raised((dotted(s.exc.func) if isinstance(s.exc, ast.Call) else dotted(s.exc)) or "?")
        if isinstance(s, ast.Try):
            try:
                self.block(s.body, env, module)
            except Raised as r:
                for h in s.handlers:
                    names = [] if h.type is None else ([dotted(x) for x in h.type.elts] if isinstance(h.type, ast.Tuple) else [dotted(h.type)])
                    if h.type is None or r.name in [(n or "").split(".")[-1] for n in names]:
                        self.block(h.body, env, module)
                        break
                else:
                    raise
            else:
                self.block(s.orelse, env, module)
            self.block(s.finalbody, env, module)
            return
        if isinstance(s, ast.Pass):
            return
        if isinstance(s, ast.Assert):
            return
        self.fail(s, type(s).__name__)


_MISSING = object()


def subterms(t):
    yield t
    if isinstance(t, Term):
        for a in t.args:
            yield from subterms(a)
    elif isinstance(t, tuple):
        for a in t:
            yield from subterms(a)


def mentions(t, sym: Sym) -> bool:
    return any(x == sym for x in subterms(t))
