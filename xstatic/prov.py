"""Provenance (taint-style abstract interpretation) over string-valued expressions.

A *value* is a frozenset of atoms of a small domain-specific lattice (join =
union) or a tuple of values (for tuple-valued expressions).  The engine is
interprocedural and context-insensitive: parameter values are the join over
all resolved call sites, field values the join over all ``self.x = ...``
assignments of the related classes, return values the join over all
``return`` / ``yield`` expressions; everything is iterated to a fixed point.
"""

from __future__ import annotations

import ast
from typing import Dict, List, Optional, Set, Tuple

from .cfg import Node
from .dataflow import Def, DefUse
from .program import AnalysisError, FuncInfo, ClassInfo, dotted, src, walk_local

BOT = frozenset()
_NONE = frozenset({"NONE"})


def flat(v) -> frozenset:
    if isinstance(v, tuple):
        out = set()
        for x in v:
            out |= flat(x)
        return frozenset(out)
    return v


def join(a, b):
    if a is None:
        return b
    if b is None:
        return a
    if isinstance(a, tuple) and isinstance(b, tuple) and len(a) == len(b):
        return tuple(join(x, y) for x, y in zip(a, b))
    # None has no components: `x = None` ... `x = (a, b)` keeps the structure of the tuple
    if isinstance(a, tuple) and (not b or b == _NONE):
        return a
    if isinstance(b, tuple) and (not a or a == _NONE):
        return b
    return flat(a) | flat(b)


class Domain:
    """Override in subclasses."""

    name = "domain"
    OBJ = frozenset({"OBJ"})
    OTHER = frozenset({"OTHER"})

    def const(self, value):
        return self.OTHER

    def source(self, an, fi, d: str):
        return None

    def call(self, an, fi, n, call: ast.Call, d: str, args: List, recv):
        return None

    def method(self, an, fi, n, call: ast.Call, attr: str, recv, args: List):
        return None

    def add(self, l, r, le=None, re_=None):
        return self.unknown([l, r])

    def fstring(self, parts: List):
        return self.unknown(parts)

    def unknown(self, vals: List):
        return self.OTHER

    def iter_elem(self, an, fi, n, iter_expr: ast.AST, v):
        return v

    def subscript(self, an, fi, n, e: ast.Subscript, v, key):
        return v

    def refine(self, v, test: ast.AST, pol: bool, name: str):
        return v

    def relevant_test(self, t: ast.AST, name: str) -> bool:
        return False

    def entry_param(self, fi: FuncInfo, name: str):
        return self.OTHER

    def top(self):
        return self.OTHER

    def attr(self, an, fi, n, e: ast.Attribute, base):
        return None


class Analysis:
    def __init__(self, ctx, domain: Domain, modules: Optional[Tuple[str, ...]] = None, max_rounds: int = 12):
        self.ctx = ctx
        self.P = ctx.program
        self.dom = domain
        self.modules = modules
        self.param: Dict[Tuple[str, str], object] = {}
        self.field: Dict[Tuple[str, str], object] = {}
        self.ret: Dict[str, object] = {}
        self._du: Dict[str, DefUse] = {}
        self._has_callers: Set[str] = set()
        self._cond_cache: Dict[tuple, list] = {}
        self._stack: Set[tuple] = set()
        self._memo: Dict[tuple, object] = {}
        self._env: List[Dict[str, object]] = []
        self._inl: Dict[str, bool] = {}
        self._partial_targets: Set[str] = set()
        self.funcs = [f for f in self.P.all_funcs()
                      if modules is None or f.module.name in modules or any(f.module.name.startswith(m + ".") for m in modules)
                      or getattr(f, "home_module", None) in modules]    # moved out of one of them, still its member
        self.rounds = 0
        self._changed = False
        self._solve(max_rounds)

    # ------------------------------------------------------------------ infrastructure
    def du(self, fi: FuncInfo) -> DefUse:
        d = self._du.get(fi.qualname)
        if d is None:
            d = DefUse(self.ctx.cfgs.get(fi))
            self._du[fi.qualname] = d
        return d

    _redirect = None

    def _upd(self, table, key, v):
        if v is None:
            return
        if self._redirect is not None:
            table = self._redirect.get(id(table), table)
        old = table.get(key)
        new = join(old, v) if old is not None else v
        if new != old:
            table[key] = new
            self._changed = True

    def _solve(self, max_rounds):
        S = self.ctx.summaries
        # who has callers at all (needed before the first evaluation, otherwise early rounds
        # would treat every parameter as an entry-point parameter and pollute the join)
        for fi in self.funcs:
            for (n, c, targets, ext) in S.calls_of(fi):
                if isinstance(c, ast.Call):
                    for t in targets:
                        self._has_callers.add(t.qualname)
                    if (dotted(c.func) or "") == "functools.partial":
                        for t in targets:
                            self._partial_targets.add(t.qualname)
        for r in range(max_rounds):
            self._changed = False
            self._memo.clear()
            self.rounds = r + 1
            self._round(S)
            if not self._changed:
                break
        # narrowing: a transient flat value of an early round (a field read before its writer was evaluated) destroys
        # tuple structure for good, because the join only grows.  Re-evaluating every equation once more from the
        # post-fixed point X gives F(X), which still contains the least fixed point (F is monotone) and may be
        # smaller / better structured.  A few descending rounds, each starting from the previous result.
        for _k in range(3):
            old = (self.param, self.field, self.ret)
            new = ({}, {}, {})
            self._memo.clear()
            self._redirect = {id(old[0]): new[0], id(old[1]): new[1], id(old[2]): new[2]}
            try:
                self._round(S)
            finally:
                self._redirect = None
            if new[0] == old[0] and new[1] == old[1] and new[2] == old[2]:
                break
            self.param, self.field, self.ret = new
        self._memo.clear()

    def _round(self, S):
        if True:
            for fi in self.funcs:
                cfg = self.ctx.cfgs.get(fi)
                for (n, c, targets, ext) in S.calls_of(fi):
                    if not isinstance(c, ast.Call) or not targets:
                        continue
                    self._bind_call(fi, n, c, targets)
                for n in cfg.stmt_nodes():
                    a = n.ast
                    if n.kind == "stmt" and isinstance(a, (ast.Assign, ast.AnnAssign)):
                        tgts = a.targets if isinstance(a, ast.Assign) else [a.target]
                        for t in tgts:
                            if isinstance(t, ast.Attribute) and isinstance(t.value, ast.Name) and t.value.id == "self" and fi.cls is not None \
                                    and a.value is not None:
                                self._upd(self.field, (fi.cls.qualname, t.attr), self.ev(fi, n, a.value))
                    if n.kind == "return" and a.value is not None:
                        self._upd(self.ret, fi.qualname, self.ev(fi, n, a.value))
                    for e in n.exprs():
                        for x in ast.walk(e):
                            if isinstance(x, ast.Yield) and x.value is not None:
                                self._upd(self.ret, fi.qualname, self.ev(fi, n, x.value))
                            if isinstance(x, ast.YieldFrom):
                                self._upd(self.ret, fi.qualname, self.dom.iter_elem(self, fi, n, x.value, self.ev(fi, n, x.value)))

    @staticmethod
    def bind_args(c: ast.Call, t: FuncInfo):
        """[(param name, arg expr, starred?)] for call *c* resolved to *t*."""
        d = dotted(c.func) or ""
        inner = c
        if d in ("to_thread", "asyncio.to_thread", "functools.partial") and c.args:
            inner = ast.Call(func=c.args[0], args=c.args[1:], keywords=c.keywords)
        out = []
        params = t.params
        a = t.node.args
        offset = 0
        if t.cls is not None and "staticmethod" not in t.decorators and params and params[0] in ("self", "cls"):
            offset = 1
        pos = [p.arg for p in a.posonlyargs + a.args]
        for i, arg in enumerate(inner.args):
            if isinstance(arg, ast.Starred):
                for p in pos[i + offset:]:
                    out.append((p, arg.value, True))
                break
            j = i + offset
            if j < len(pos):
                out.append((pos[j], arg, False))
            elif a.vararg is not None:
                out.append((a.vararg.arg, arg, False))
        for k in inner.keywords:
            if k.arg is None:
                continue
            if k.arg in params:
                out.append((k.arg, k.value, False))
            elif a.kwarg is not None:
                out.append((a.kwarg.arg, k.value, False))
        return out

    def _bind_call(self, fi, n, c: ast.Call, targets: List[FuncInfo]):
        d = dotted(c.func) or ""
        if d == "functools.partial":
            for t in targets:
                self._partial_targets.add(t.qualname)
        for t in targets:
            self._has_callers.add(t.qualname)
            for pname, arg, starred in self.bind_args(c, t):
                v = self.ev(fi, n, arg)
                self._upd(self.param, (t.qualname, pname), flat(v) if starred else v)

    # ------------------------------------------------------------------ evaluation
    def ev(self, fi: FuncInfo, n: Node, e: ast.AST, depth: int = 0):
        if e is None or depth > 25:
            return self.dom.OTHER
        dom = self.dom
        if isinstance(e, ast.Constant):
            if e.value is None:
                return frozenset({"NONE"})
            return dom.const(e.value)
        if isinstance(e, ast.Await):
            return self.ev(fi, n, e.value, depth + 1)
        if isinstance(e, (ast.Tuple, ast.List, ast.Set)):
            if any(isinstance(x, ast.Starred) for x in e.elts):
                out = BOT
                for x in e.elts:
                    out = join(out, flat(self.ev(fi, n, x.value if isinstance(x, ast.Starred) else x, depth + 1)))
                return out
            if isinstance(e, (ast.List, ast.Set)):
                out = BOT
                for x in e.elts:
                    out = join(out, self.ev(fi, n, x, depth + 1))
                return out
            return tuple(self.ev(fi, n, x, depth + 1) for x in e.elts)
        if isinstance(e, ast.Name):
            return self._name(fi, n, e.id, depth)
        if isinstance(e, ast.IfExp):
            return join(self.ev(fi, n, e.body, depth + 1), self.ev(fi, n, e.orelse, depth + 1))
        if isinstance(e, ast.BoolOp):
            out = BOT
            for v in e.values:
                out = join(out, self.ev(fi, n, v, depth + 1))
            return out
        if isinstance(e, ast.NamedExpr):
            return self.ev(fi, n, e.value, depth + 1)
        if isinstance(e, ast.Attribute):
            d = dotted(e)
            if d is not None:
                s = dom.source(self, fi, d)
                if s is not None:
                    return s
                if d.startswith("self.") and d.count(".") == 1:
                    v = self._field(fi, e.attr)
                    if v is not None:
                        return v
                # module constant / alias
                c = self.P.try_fold(fi.module, e)
                if c is not None:
                    return dom.const(c) if not isinstance(c, (tuple, frozenset)) else self._const_seq(c)
            if isinstance(e.value, ast.Name):
                from .dataflow import origins as _orig, _record_arg
                du_ = self.du(fi)
                bo = _orig(du_, n, e.value)
                if bo and all(_record_arg(du_, o, e.attr) is not None for o in bo):
                    out = None
                    for o in bo:
                        v_ = self.ev(fi, o.node, _record_arg(du_, o, e.attr), depth + 1)
                        out = join(out, v_) if out is not None else v_
                    return out
            base = self.ev(fi, n, e.value, depth + 1)
            if isinstance(base, tuple):
                # a record (NamedTuple / dataclass) that came in through a call, a parameter or a field: its value is
                # kept component-wise, the attribute selects the component
                idx = self._record_index(e.attr, len(base))
                if idx is not None:
                    return base[idx]
            a = dom.attr(self, fi, n, e, base)
            if a is not None:
                return a
            # attribute of an object of known class(es)
            typed = [x[4:] for x in flat(base) if x.startswith("OBJ:")]
            if typed:
                out = None
                for cq in typed:
                    ci = self.P.classes.get(cq)
                    if ci is None:
                        continue
                    for c in self._related_classes(ci):
                        v = self.field.get((c.qualname, e.attr))
                        if v is not None:
                            out = join(out, v)
                if out is not None:
                    return out
                return BOT
            if not flat(base):
                return BOT      # no value has arrived yet (strict: a guess here would stick for good)
            # attribute of an object of unknown class: look the field up by name in all classes
            if "OBJ" in flat(base):
                v = self._field_by_name(e.attr)
                if v is not None:
                    return v
            return dom.unknown([base])
        if isinstance(e, ast.Subscript):
            v = self.ev(fi, n, e.value, depth + 1)
            key = self.P.try_fold(fi.module, e.slice) if not isinstance(e.slice, ast.Slice) else None
            if isinstance(v, tuple) and isinstance(key, int) and -len(v) <= key < len(v):
                return v[key]
            if not isinstance(e.slice, ast.Slice) and not isinstance(key, int):
                cv = self._mapping_values(fi, n, e.value, depth + 1)
                if cv is not None:
                    return cv
            d = dotted(e.value)
            if d is not None:
                s = dom.source(self, fi, d + "[%r]" % (key,))
                if s is not None:
                    return s
            return dom.subscript(self, fi, n, e, v, key)
        if isinstance(e, ast.BinOp):
            l = self.ev(fi, n, e.left, depth + 1)
            r = self.ev(fi, n, e.right, depth + 1)
            if isinstance(e.op, ast.Add):
                return dom.add(l, r, e.left, e.right)
            return dom.unknown([l, r])
        if isinstance(e, ast.JoinedStr):
            parts = []
            exprs = []
            for v in e.values:
                if isinstance(v, ast.Constant):
                    parts.append(dom.const(v.value))
                    exprs.append(v)
                elif isinstance(v, ast.FormattedValue):
                    parts.append(self.ev(fi, n, v.value, depth + 1))
                    exprs.append(v.value)
            if getattr(dom, "fstring_is_concat", False) and parts:
                # f"{a}{b}..." is a + b + ... for a domain about string shape
                out, oe = parts[0], exprs[0]
                for p_, e_ in zip(parts[1:], exprs[1:]):
                    out = dom.add(out, p_, oe, e_)
                    oe = None
                return out
            return dom.fstring(parts)
        if isinstance(e, ast.Call):
            return self._call(fi, n, e, depth)
        if isinstance(e, (ast.ListComp, ast.GeneratorExp, ast.SetComp, ast.DictComp)):
            # an iterable is represented by the value of its elements (tuple structure kept)
            return self.comp_elem(fi, n, e, depth)
        if isinstance(e, ast.Dict):
            out = BOT
            for k, v in zip(e.keys, e.values):
                if k is not None:
                    out = join(out, flat(self.ev(fi, n, k, depth + 1)))
                if getattr(dom, "dict_values", False):
                    out = join(out, flat(self.ev(fi, n, v, depth + 1)))
            return out
        if isinstance(e, ast.Starred):
            return self.ev(fi, n, e.value, depth + 1)
        if isinstance(e, (ast.Compare, ast.UnaryOp)):
            return dom.OTHER
        if isinstance(e, ast.Lambda):
            return dom.OBJ
        return dom.OTHER

    def ev_at(self, fi, n, target: ast.AST):
        """Value of sub-expression *target* of node *n*, with the variables of the comprehensions that enclose it
        bound to their element values."""
        chain = []

        def find(x, comps):
            if x is target:
                chain.extend(comps)
                return True
            for c in ast.iter_child_nodes(x):
                nxt = comps + [x] if isinstance(x, (ast.ListComp, ast.GeneratorExp, ast.SetComp, ast.DictComp)) else comps
                if find(c, nxt):
                    return True
            return False

        found = any(find(e, []) for e in n.exprs())
        if not found or not chain:
            return self.ev(fi, n, target)
        pushed = 0
        try:
            for comp in chain:
                env: Dict[str, object] = {}
                self._env.append(env)
                pushed += 1
                for g in comp.generators:
                    el = self.dom.iter_elem(self, fi, n, g.iter, self.ev(fi, n, g.iter))
                    self._bind_target(env, g.target, el)
            return self.ev(fi, n, target)
        finally:
            for _ in range(pushed):
                self._env.pop()

    def comp_elem(self, fi, n, e, depth: int = 0, dict_value: bool = False):
        """Value of one element of a comprehension (tuple structure kept); for a dict comprehension the key, or -
        with *dict_value* - the value."""
        dom = self.dom
        env: Dict[str, object] = {}
        self._env.append(env)
        try:
            for g in e.generators:
                el = dom.iter_elem(self, fi, n, g.iter, self.ev(fi, n, g.iter, depth + 1))
                self._bind_target(env, g.target, el)
            if isinstance(e, ast.DictComp):
                return self.ev(fi, n, e.value if dict_value else e.key, depth + 1)
            return self.ev(fi, n, e.elt, depth + 1)
        finally:
            self._env.pop()

    def _const_seq(self, c):
        out = BOT
        for x in c:
            out = join(out, self.dom.const(x))
        return out

    def _related_classes(self, ci: ClassInfo) -> List[ClassInfo]:
        out = list(ci.mro)
        for sc in ci.all_subclasses():
            for c in sc.mro:
                if c not in out:
                    out.append(c)
        return out

    def _owner(self, fi: FuncInfo) -> Optional[ClassInfo]:
        f = fi
        while f is not None:
            if f.cls is not None:
                return f.cls
            f = f.parent
        return None

    def _field(self, fi: FuncInfo, attr: str):
        owner = self._owner(fi)
        if owner is None:
            return None
        out = None
        for c in self._related_classes(owner):
            v = self.field.get((c.qualname, attr))
            if v is not None:
                out = join(out, v)
            # class-level constant
            if attr in c.attrs:
                cv = self.P.try_fold(c.module, c.attrs[attr])
                if cv is not None and not isinstance(cv, (tuple, frozenset)):
                    out = join(out, self.dom.const(cv))
        return out

    def _field_by_name(self, attr: str):
        out = None
        for (cq, a), v in self.field.items():
            if a == attr:
                out = join(out, v)
        return out

    def _bind_target(self, env, t, v):
        if isinstance(t, ast.Name):
            env[t.id] = v
        elif isinstance(t, (ast.Tuple, ast.List)):
            for i, x in enumerate(t.elts):
                self._bind_target(env, x, self._index(v, (i,)))

    def _name(self, fi: FuncInfo, n: Node, name: str, depth: int):
        for env in reversed(self._env):
            if name in env:
                return env[name]
        key = (fi.qualname, n.id, name)
        if key in self._memo:
            return self._memo[key]
        if key in self._stack:
            return BOT
        self._stack.add(key)
        try:
            v = self._name_uncached(fi, n, name, depth)
            if not self._stack - {key} and not self._env:
                self._memo[key] = v
            return v
        finally:
            self._stack.discard(key)

    def _name_uncached(self, fi: FuncInfo, n: Node, name: str, depth: int):
        if True:
            du = self.du(fi)
            defs = du.reaching(n, name)
            if not defs:
                return self._free_name(fi, name, depth)
            out = None
            for d in defs:
                v = self._def_value(fi, d, depth)
                v = self._refine_by_guards(fi, d, n, name, v)
                out = join(out, v)
            # container additions (flow-insensitive): x.append(E) / x.add(E) / x[K] = V / x.extend(E)
            extra = self._container_adds(fi, name, depth)
            if extra is not None:
                out = join(out if out is not None else BOT, extra)
            return out if out is not None else BOT

    def _record_index(self, attr: str, arity: int) -> Optional[int]:
        """Position of field *attr* in the record classes of the program that have *arity* fields (None unless all of
        them agree)."""
        tab = self.__dict__.get("_rec_tab")
        if tab is None:
            tab = self._rec_tab = {}
            for ci in self.P.classes.values():
                bases = {(dotted(b) or "").split(".")[-1] for b in ci.node.bases}
                decos = {(dotted(x if not isinstance(x, ast.Call) else x.func) or "").split(".")[-1] for x in ci.node.decorator_list}
                if "NamedTuple" not in bases and "dataclass" not in decos:
                    continue
                fields = [st.target.id for st in ci.node.body if isinstance(st, ast.AnnAssign) and isinstance(st.target, ast.Name)]
                for i, f_ in enumerate(fields):
                    tab.setdefault((f_, len(fields)), set()).add(i)
        s_ = tab.get((attr, arity))
        if s_ and len(s_) == 1:
            return next(iter(s_))
        return None

    def _mapping_values(self, fi: FuncInfo, n: Node, recv: ast.AST, depth: int):
        """Join of the values stored by ``m[k] = v`` into the mapping *recv* denotes, when *recv* is a local name, an
        attribute ``self.F`` or a local alias of one, and such stores exist; None otherwise (not a modelled mapping)."""
        if depth > 20:
            return None
        field = None
        local = None
        d = dotted(recv)
        if isinstance(recv, ast.Name):
            local = recv.id
            defs = self.du(fi).reaching(n, recv.id)
            srcs = {dotted(x.value) for x in defs if x.kind == "assign" and x.value is not None}
            if defs and len(srcs) == 1 and all(x.kind == "assign" for x in defs):
                d0 = next(iter(srcs))
                if d0 and d0.startswith("self.") and d0.count(".") == 1:
                    field = d0.split(".")[1]
        elif d and d.startswith("self.") and d.count(".") == 1:
            field = d.split(".")[1]
        else:
            return None
        key = ("mapvals", fi.qualname, local, field)
        if key in self._stack:
            return BOT
        self._stack.add(key)
        try:
            out = None
            if local is not None:
                # the local is a dict display / dict comprehension: its values
                for x in self.du(fi).reaching(n, local):
                    if x.kind == "assign" and isinstance(x.value, ast.DictComp) and not x.index:
                        out = join(out, self.comp_elem(fi, x.node, x.value, depth + 1, dict_value=True))
                    elif x.kind == "assign" and isinstance(x.value, ast.Dict) and not x.index:
                        for v_ in x.value.values:
                            out = join(out, self.ev(fi, x.node, v_, depth + 1))
            funcs = [fi]
            if field is not None and fi.cls is not None:
                related = list(fi.cls.mro) + fi.cls.all_subclasses()
                funcs = [m for c_ in related for m in c_.methods.values()]
                if fi not in funcs:
                    funcs.append(fi)
            for g in funcs:
                try:
                    cfg = self.ctx.cfgs.get(g)
                except AnalysisError:
                    continue
                gdu = None
                for m in cfg.stmt_nodes():
                    a = m.ast
                    if not (m.kind == "stmt" and isinstance(a, ast.Assign)):
                        continue
                    for t in a.targets:
                        if not isinstance(t, ast.Subscript):
                            continue
                        bd = dotted(t.value)
                        hit = False
                        if field is not None and bd == "self." + field:
                            hit = True
                        elif isinstance(t.value, ast.Name):
                            if g is fi and local is not None and t.value.id == local:
                                hit = True
                            elif field is not None:
                                gdu = gdu or self.du(g)
                                ds = gdu.reaching(m, t.value.id)
                                hit = bool(ds) and all(x.kind == "assign" and x.value is not None and dotted(x.value) == "self." + field for x in ds)
                        if hit:
                            out = join(out, self.ev(g, m, a.value, depth + 1))
            return out
        finally:
            self._stack.discard(key)

    def _container_adds(self, fi: FuncInfo, name: str, depth: int):
        out = None
        cfg = self.ctx.cfgs.get(fi)
        for m in cfg.stmt_nodes():
            a = m.ast
            if m.kind == "stmt" and isinstance(a, ast.Assign):
                for t in a.targets:
                    if isinstance(t, ast.Subscript) and isinstance(t.value, ast.Name) and t.value.id == name:
                        out = join(out, flat(self.ev(fi, m, t.slice, depth + 1)))
            for c in m.calls():
                if isinstance(c.func, ast.Attribute) and isinstance(c.func.value, ast.Name) and c.func.value.id == name \
                        and c.func.attr in ("append", "add", "extend", "update", "insert", "appendleft") and c.args:
                    out = join(out, self.ev(fi, m, c.args[-1], depth + 1))
        return out

    def _free_name(self, fi: FuncInfo, name: str, depth: int):
        # closure variable of an enclosing function
        f = fi.parent
        while f is not None:
            du = self.du(f)
            cfg = self.ctx.cfgs.get(f)
            ds = [d for d in du.all_defs if d.name == name]
            if ds:
                out = None
                for d in ds:
                    out = join(out, self._def_value(f, d, depth + 1))
                return out
            f = f.parent
        # module-level
        c = self.P.try_fold(fi.module, ast.Name(id=name, ctx=ast.Load()))
        if c is not None:
            return self._const_seq(c) if isinstance(c, (tuple, frozenset)) else self.dom.const(c)
        kind, obj = self.P.resolve_dotted(fi.module, name, fi)
        if kind in ("func", "class", "module"):
            return self.dom.OBJ
        if kind == "const":
            # module-level non-constant expression: evaluate in the module pseudo-function
            mf = self.P.functions.get(fi.module.name + ".<module>")
            if mf is not None and mf is not fi:
                cfg = self.ctx.cfgs.get(mf)
                return self._name(mf, cfg.exit, name, depth + 1)
        s = self.dom.source(self, fi, name)
        if s is not None:
            return s
        return self.dom.OTHER

    def _def_value(self, fi: FuncInfo, d: Def, depth: int):
        dom = self.dom
        if d.kind == "param":
            s = dom.source(self, fi, d.name)
            if s is not None:
                return s
            if fi.qualname in self._has_callers or (fi.qualname, d.name) in self.param:
                v = self.param.get((fi.qualname, d.name))
                dv = self._default_value(fi, d.name, depth)
                if v is None and dv is None and fi.qualname in self._partial_targets and d.name not in ("self", "cls"):
                    # parameter left open by functools.partial: supplied by an unresolved caller
                    return dom.top()
                return join(v, dv) if v is not None else (dv if dv is not None else BOT)
            if d.name in ("self", "cls"):
                return dom.OBJ
            return dom.entry_param(fi, d.name)
        if d.kind in ("assign",):
            v = self.ev(fi, d.node, d.value, depth + 1)
            return self._index(v, d.index)
        if d.kind == "aug":
            a = d.value
            l = self.ev(fi, d.node, a.target, depth + 1) if isinstance(a.target, ast.Name) else dom.OTHER
            r = self.ev(fi, d.node, a.value, depth + 1)
            return dom.add(l, r, a.target, a.value) if isinstance(a.op, ast.Add) else dom.unknown([l, r])
        if d.kind == "for":
            v = self.ev(fi, d.node, d.value, depth + 1)
            it = d.value
            if isinstance(it, ast.Name):
                # `it = <expr>; for x in it` (also the parameter binding of an inlined helper)
                from .dataflow import iter_exprs, origins
                srcs = [o for o in origins(self.du(fi), d.node, it)]
                if srcs and all(o.kind == "expr" and not o.path and o.leaf is not None and not isinstance(o.leaf, ast.Name) for o in srcs):
                    el = None
                    for o in srcs:
                        if isinstance(o.leaf, (ast.ListComp, ast.GeneratorExp, ast.SetComp)):
                            ei = self.comp_elem(fi, o.node, o.leaf, depth + 1)
                        else:
                            ei = dom.iter_elem(self, fi, o.node, o.leaf, self.ev(fi, o.node, o.leaf, depth + 1))
                        el = join(el, ei) if el is not None else ei
                    return self._index(el, d.index)
            el = dom.iter_elem(self, fi, d.node, it, v)
            return self._index(el, d.index)
        if d.kind == "with":
            v = self.ev(fi, d.node, d.value, depth + 1)
            return dom.OBJ if v is None else dom.OBJ
        if d.kind in ("def", "import"):
            return dom.OBJ
        return dom.OTHER

    def _default_value(self, fi: FuncInfo, name: str, depth: int):
        a = fi.node.args
        pos = a.posonlyargs + a.args
        for p, dflt in zip(pos[len(pos) - len(a.defaults):], a.defaults):
            if p.arg == name:
                return self.ev(fi, self.ctx.cfgs.get(fi).entry, dflt, depth + 1)
        for p, dflt in zip(a.kwonlyargs, a.kw_defaults):
            if p.arg == name and dflt is not None:
                return self.ev(fi, self.ctx.cfgs.get(fi).entry, dflt, depth + 1)
        return None

    @staticmethod
    def _index(v, index: Tuple[int, ...]):
        for i in index:
            if isinstance(v, tuple) and i < len(v):
                v = v[i]
            else:
                return flat(v)
        return v

    def _refine_by_guards(self, fi: FuncInfo, d: Def, n: Node, name: str, v):
        if v is None:
            return v
        conds = self.path_conditions(fi, d, n, name)
        for t, pol in conds:
            v = self.dom.refine(v, t, pol, name)
        return v

    def path_conditions(self, fi: FuncInfo, d: Def, n: Node, name: str) -> List[Tuple[ast.AST, bool]]:
        key = (fi.qualname, d.node.id if d.node is not None else -1, n.id, name)
        c = self._cond_cache.get(key)
        if c is not None:
            return c
        cfg = self.ctx.cfgs.get(fi)
        du = self.du(fi)
        tests = [t for t in cfg.nodes if t.kind == "test" and self.dom.relevant_test(t.ast, name)]
        out: List[Tuple[ast.AST, bool]] = []
        if tests:
            others = [x.node for x in du.all_defs if x.name == name and x.node is not None and x is not d and x.node is not n]
            starts = [cfg.entry] if d.node is None else [m for m, l in d.node.succ if l != "exc"]
            for t in tests:
                if t is n:
                    continue
                for pol, lab in ((True, "t"), (False, "f")):
                    blocked = [(t, m, l) for m, l in t.succ if l == lab]
                    r = cfg.reachable(starts, block_nodes=others, block_edges=blocked)
                    if n.id not in r and (n.id in cfg.reachable(starts, block_nodes=others)):
                        out.append((t.ast, pol))
        self._cond_cache[key] = out
        return out

    def _call(self, fi: FuncInfo, n: Node, c: ast.Call, depth: int):
        dom = self.dom
        d = dotted(c.func) or ""
        args = [self.ev(fi, n, a.value if isinstance(a, ast.Starred) else a, depth + 1) for a in c.args]
        recv = None
        if isinstance(c.func, ast.Attribute):
            rd = dotted(c.func.value)
            if rd is None or rd.split(".")[0] not in fi.module.aliases:
                recv = self.ev(fi, n, c.func.value, depth + 1)
        # resolve import aliases so that models are keyed by the real dotted name
        real = d
        if d:
            kind, obj = self.P.resolve_dotted(fi.module, d, fi)
            if kind == "external":
                real = str(obj)
            elif kind == "func":
                real = obj.qualname
            elif kind == "class":
                real = obj.qualname
        if isinstance(c.func, ast.Attribute) and c.func.attr in ("values", "items") and not c.args:
            cv = self._mapping_values(fi, n, c.func.value, depth + 1)
            if cv is not None:
                if c.func.attr == "values":
                    return cv
                return (flat(self.ev(fi, n, c.func.value, depth + 1)), cv)
        if isinstance(c.func, ast.Attribute) and c.func.attr in ("get", "pop", "setdefault") and c.args:
            # mapping populated by `m[k] = v` in this class: what is read out is one of the stored values
            cv = self._mapping_values(fi, n, c.func.value, depth + 1)
            if cv is not None:
                for extra in args[1:]:
                    cv = join(cv, extra)
                return cv
        m = dom.call(self, fi, n, c, real, args, recv)
        if m is not None:
            return m
        if real in ("collections.deque", "list", "tuple", "set", "frozenset", "iter", "sorted", "reversed") and len(args) == 1:
            return args[0]
        if isinstance(c.func, ast.Attribute) and c.func.attr in ("popleft", "pop", "copy") and recv is not None and not c.args:
            return recv
        if isinstance(c.func, ast.Attribute):
            m = dom.method(self, fi, n, c, c.func.attr, recv, args)
            if m is not None:
                return m
        fields = self.ctx._record_fields(fi, n, c) if d else None
        if fields and not c.keywords and len(c.args) == len(fields) and not any(isinstance(a, ast.Starred) for a in c.args):
            return tuple(args)           # NamedTuple / dataclass: kept component-wise
        if fields and not any(isinstance(a, ast.Starred) for a in c.args):
            byname = {k.arg: self.ev(fi, n, k.value, depth + 1) for k in c.keywords if k.arg}
            comp = []
            for i, f_ in enumerate(fields):
                comp.append(args[i] if i < len(args) else byname.get(f_, BOT))
            return tuple(comp)
        r = self.P.resolve_call(fi, c)
        if r.how.startswith("ctor:") and r.how != "ctor:cls":
            return frozenset({"OBJ:" + r.how.split(":", 1)[1]})
        if r.how.startswith("ctor") or r.how == "dict-dispatch":
            return dom.OBJ
        if len(r.targets) == 1 and self._inlinable(r.targets[0]) and len(self._env) < 3:
            t = r.targets[0]
            env: Dict[str, object] = {}
            bound = {p: a for p, a, st in self.bind_args(c, t) if not st}
            for p in t.params:
                if p in bound:
                    env[p] = self.ev(fi, n, bound[p], depth + 1)
                else:
                    dv = self._default_value(t, p, depth + 1)
                    if dv is not None:
                        env[p] = dv
            if all(p in env for p in t.params if p not in ("self", "cls")):
                self._env.append(env)
                try:
                    out = None
                    tcfg = self.ctx.cfgs.get(t)
                    for rn in tcfg.nodes:
                        if rn.kind == "return" and rn.ast.value is not None:
                            out = join(out, self.ev(t, rn, rn.ast.value, depth + 1))
                    if out is not None:
                        return out
                finally:
                    self._env.pop()
        if not r.targets and isinstance(c.func, ast.Attribute) and recv is not None:
            # method of an object whose class(es) the analysis knows (`c.members()` with c an instance of ...)
            typed = [x[4:] for x in flat(recv) if x.startswith("OBJ:")]
            tg = []
            for cq in typed:
                ci = self.P.classes.get(cq)
                if ci is None:
                    continue
                for m in self.P.dispatch_targets(ci, c.func.attr):
                    if m not in tg:
                        tg.append(m)
            if tg:
                r = type(r)(tg, how="typed")
        if r.targets:
            out = None
            for t in r.targets:
                v = self.ret.get(t.qualname)
                if v is not None:
                    out = join(out, v)
                elif t.is_generator() or self._returns_something(t):
                    pass
            if out is not None:
                return out
            return BOT if any(self._returns_something(t) or t.is_generator() for t in r.targets) else dom.OBJ
        vals = list(args) + ([recv] if recv is not None else []) + [self.ev(fi, n, k.value, depth + 1) for k in c.keywords]
        return dom.unknown(vals)

    def _inlinable(self, t: FuncInfo) -> bool:
        """Small, loop-free, non-generator helper: evaluated per call site (one level of context)."""
        k = self._inl.get(t.qualname)
        if k is None:
            body = [x for x in t.node.body if not (isinstance(x, ast.Expr) and isinstance(x.value, ast.Constant))]
            k = (len(body) <= 8 and not t.is_async and t.cls is None
                 and not any(isinstance(x, (ast.For, ast.While, ast.AsyncFor, ast.Yield, ast.YieldFrom, ast.Try, ast.With)) for x in ast.walk(t.node)))
            self._inl[t.qualname] = k
        return k

    def _returns_something(self, t: FuncInfo) -> bool:
        for x in walk_local(t.node):
            if isinstance(x, ast.Return) and x.value is not None:
                return True
            if isinstance(x, (ast.Yield, ast.YieldFrom)):
                return True
        return False

    # ------------------------------------------------------------------ explanation
    def explain(self, fi: FuncInfo, n: Node, e: ast.AST, bad_atoms: Set[str], depth: int = 0, seen=None) -> List[str]:
        """A human-readable flow path: where do the offending atoms come from?"""
        seen = seen if seen is not None else set()
        out: List[str] = []
        if depth > 8:
            return out
        for x in ast.walk(e):
            if isinstance(x, ast.Name) and isinstance(x.ctx, ast.Load):
                v = self._name(fi, n, x.id, 0)
                if not (flat(v) & bad_atoms):
                    continue
                for d in self.du(fi).reaching(n, x.id):
                    key = (fi.qualname, id(d))
                    if key in seen:
                        continue
                    seen.add(key)
                    dv = self._def_value(fi, d, 0)
                    if not (flat(dv) & bad_atoms):
                        continue
                    if d.kind == "param":
                        out.append("%s: parameter `%s` of %s  %s" % (fi.module.rel, d.name, fi.short, sorted(flat(dv) & bad_atoms)))
                        # callers
                        S = self.ctx.summaries
                        for g in self.funcs:
                            for (m, c, targets, ext) in S.calls_of(g):
                                if isinstance(c, ast.Call) and fi in targets:
                                    for pname, a, _st in self.bind_args(c, fi):
                                        if pname != d.name:
                                            continue
                                        av = self.ev(g, m, a)
                                        if flat(av) & bad_atoms:
                                            out.append("%s:%d %s: `%s`" % (g.module.rel, m.lineno, g.short, src(c)[:80]))
                                            out.extend(self.explain(g, m, a, bad_atoms, depth + 1, seen))
                    else:
                        out.append("%s:%d %s: `%s`  %s" % (fi.module.rel, d.node.lineno, fi.short, d.node.text()[:80], sorted(flat(dv) & bad_atoms)))
                        if d.value is not None and isinstance(d.value, ast.AST) and not isinstance(d.value, ast.AugAssign):
                            out.extend(self.explain(fi, d.node, d.value, bad_atoms, depth + 1, seen))
            if isinstance(x, ast.Call):
                r = self.P.resolve_call(fi, x)
                for t in r.targets:
                    rv = self.ret.get(t.qualname)
                    if rv is not None and flat(rv) & bad_atoms and (t.qualname, "ret") not in seen:
                        seen.add((t.qualname, "ret"))
                        out.append("%s: return value of %s  %s" % (t.module.rel, t.short, sorted(flat(rv) & bad_atoms)))
        return out[:14]
