"""xstatic: repository-specific static analysis for the xandikos properties.

Everything here works on the *source text* of /repo (stdlib ``ast``).  Nothing
from /repo is imported or executed by a check.
"""
