"""Intra-procedural reaching definitions / def-use over the CFG."""

from __future__ import annotations

import ast
from typing import Dict, List, Optional, Set, Tuple

from .cfg import CFG, Node
from .program import dotted, src


class Def:
    """One definition of a local name."""

    __slots__ = ("node", "name", "value", "index", "kind")

    def __init__(self, node: Optional[Node], name: str, value: Optional[ast.AST], index: Tuple[int, ...], kind: str):
        self.node = node      # CFG node (None for parameters)
        self.name = name
        self.value = value    # expression assigned (for kind 'assign'), iterable (for 'for'), ctx expr ('with')
        self.index = index    # position inside a tuple-unpacking target
        self.kind = kind      # param | assign | aug | for | with | except | import | def | del

    def __repr__(self):
        return "<Def %s %s %s%s>" % (self.name, self.kind, src(self.value)[:40] if self.value is not None else "",
                                     list(self.index) if self.index else "")


def _targets(t: ast.AST, index=()) -> List[Tuple[str, Tuple[int, ...]]]:
    """(name, index-path) for every Name bound by assignment target *t*.  Attribute /
    subscript targets are reported with their dotted text ("self.x") or "<sub>"."""
    if isinstance(t, ast.Name):
        return [(t.id, index)]
    if isinstance(t, (ast.Tuple, ast.List)):
        out = []
        for i, e in enumerate(t.elts):
            out.extend(_targets(e, index + (i,)))
        return out
    if isinstance(t, ast.Starred):
        return _targets(t.value, index)
    if isinstance(t, ast.Attribute):
        d = dotted(t)
        return [(d, index)] if d else []
    return []


class DefUse:
    def __init__(self, cfg: CFG):
        self.cfg = cfg
        self.defs_at: Dict[int, List[Def]] = {}
        self.param_defs: List[Def] = []
        a = cfg.fi.node.args
        for p in a.posonlyargs + a.args + a.kwonlyargs:
            self.param_defs.append(Def(None, p.arg, None, (), "param"))
        if a.vararg:
            self.param_defs.append(Def(None, a.vararg.arg, None, (), "param"))
        if a.kwarg:
            self.param_defs.append(Def(None, a.kwarg.arg, None, (), "param"))
        for n in cfg.nodes:
            ds = self._defs_of_node(n)
            if ds:
                self.defs_at[n.id] = ds
        self._solve()

    def _defs_of_node(self, n: Node) -> List[Def]:
        out: List[Def] = []
        a = n.ast
        if n.kind == "stmt" and a is not None:
            if isinstance(a, ast.Assign):
                for t in a.targets:
                    for nm, idx in _targets(t):
                        out.append(Def(n, nm, a.value, idx, "assign"))
            elif isinstance(a, ast.AnnAssign) and a.value is not None:
                for nm, idx in _targets(a.target):
                    out.append(Def(n, nm, a.value, idx, "assign"))
            elif isinstance(a, ast.AugAssign):
                for nm, idx in _targets(a.target):
                    out.append(Def(n, nm, a, idx, "aug"))
            elif isinstance(a, (ast.FunctionDef, ast.AsyncFunctionDef, ast.ClassDef)):
                out.append(Def(n, a.name, a, (), "def"))
            elif isinstance(a, (ast.Import, ast.ImportFrom)):
                for al in a.names:
                    out.append(Def(n, (al.asname or al.name).split(".")[0], a, (), "import"))
            elif isinstance(a, ast.Delete):
                for t in a.targets:
                    if isinstance(t, ast.Name):
                        out.append(Def(n, t.id, None, (), "del"))
            # walrus
            for x in ast.walk(a):
                if isinstance(x, ast.NamedExpr) and isinstance(x.target, ast.Name):
                    out.append(Def(n, x.target.id, x.value, (), "assign"))
        elif n.kind == "for":
            for nm, idx in _targets(a.target):
                out.append(Def(n, nm, a.iter, idx, "for"))
        elif n.kind == "with_enter":
            for it in a.items:
                if it.optional_vars is not None:
                    for nm, idx in _targets(it.optional_vars):
                        out.append(Def(n, nm, it.context_expr, idx, "with"))
        elif n.kind == "handler":
            if a.name:
                out.append(Def(n, a.name, a.type, (), "except"))
        return out

    def _solve(self):
        nodes = self.cfg.nodes
        IN: Dict[int, Set[int]] = {n.id: set() for n in nodes}
        OUT: Dict[int, Set[int]] = {n.id: set() for n in nodes}
        self.all_defs: List[Def] = list(self.param_defs)
        for n in nodes:
            for d in self.defs_at.get(n.id, []):
                self.all_defs.append(d)
        idx_of = {id(d): i for i, d in enumerate(self.all_defs)}
        by_name: Dict[str, Set[int]] = {}
        for i, d in enumerate(self.all_defs):
            by_name.setdefault(d.name, set()).add(i)
        gen: Dict[int, Set[int]] = {}
        kill: Dict[int, Set[int]] = {}
        for n in nodes:
            g = set()
            k = set()
            for d in self.defs_at.get(n.id, []):
                g.add(idx_of[id(d)])
                k |= by_name[d.name]
            gen[n.id] = g
            kill[n.id] = k - g
        entry_out = {idx_of[id(d)] for d in self.param_defs}
        OUT[self.cfg.entry.id] = set(entry_out)
        work = list(nodes)
        while work:
            n = work.pop()
            if n is self.cfg.entry:
                new_in = set()
                new_out = set(entry_out)
            else:
                new_in = set()
                for p, l in n.pred:
                    # a definition at p does not take effect on p's exceptional edge
                    if l == "exc":
                        new_in |= IN[p.id]
                    else:
                        new_in |= OUT[p.id]
                new_out = gen[n.id] | (new_in - kill[n.id])
            if new_in != IN[n.id] or new_out != OUT[n.id]:
                IN[n.id] = new_in
                OUT[n.id] = new_out
                for m, l in n.succ:
                    work.append(m)
        self.IN = IN
        self.OUT = OUT

    def reaching(self, n: Node, name: str) -> List[Def]:
        return [self.all_defs[i] for i in sorted(self.IN[n.id]) if self.all_defs[i].name == name]

    def uses_in(self, n: Node) -> Set[str]:
        out: Set[str] = set()
        for e in n.exprs():
            for x in ast.walk(e):
                if isinstance(x, ast.Name) and isinstance(x.ctx, ast.Load):
                    out.add(x.id)
        return out

    def single_source(self, n: Node, name: str) -> Optional[Def]:
        r = self.reaching(n, name)
        if len(r) == 1:
            return r[0]
        return None


def names_in(e: ast.AST) -> Set[str]:
    return {x.id for x in ast.walk(e) if isinstance(x, ast.Name)}


def depends_on(du: DefUse, n: Node, expr: ast.AST, _seen=None, depth: int = 0, path=()) -> Set[str]:
    """Transitive closure of the names (parameters and attribute roots) *expr* at *n* is
    data-dependent on.  Returns the set of parameter names plus "self.<attr>" reads plus
    "<call:NAME>" markers for calls whose result flows in.

    *path* selects a component of the value (tuple index / record field): a tuple display, a NamedTuple or
    dataclass constructor call contributes only the selected element."""
    out: Set[str] = set()
    _seen = _seen if _seen is not None else set()
    path = tuple(path)
    if depth > 12:
        return out
    # component selection
    if path:
        if isinstance(expr, (ast.Tuple, ast.List)) and isinstance(path[0], int) and 0 <= path[0] < len(expr.elts) \
                and not any(isinstance(x, ast.Starred) for x in expr.elts):
            return depends_on(du, n, expr.elts[path[0]], _seen, depth + 1, path[1:])
        if isinstance(expr, ast.Call) and RECORD_FIELDS is not None:
            arg = _record_arg(du, Origin("expr", expr, (), n), path[0])
            if arg is not None:
                return depends_on(du, n, arg, _seen, depth + 1, path[1:])
        if isinstance(expr, ast.Name):
            pass     # carried through the definitions below
        else:
            path = ()
    if isinstance(expr, ast.Attribute) and isinstance(expr.value, ast.Name) and RECORD_FIELDS is not None and not path:
        base = origins(du, n, expr.value)
        if base and all(_record_arg(du, o, expr.attr) is not None for o in base):
            for o in base:
                out |= depends_on(du, o.node, _record_arg(du, o, expr.attr), _seen, depth + 1)
            return out
    for x in ([expr] if isinstance(expr, ast.Name) and path else ast.walk(expr)):
        if isinstance(x, ast.Attribute):
            d = dotted(x)
            if d and d.startswith("self."):
                out.add(d)
            if isinstance(x.value, ast.Name) and RECORD_FIELDS is not None and x is not expr:
                base = origins(du, n, x.value)
                if base and all(_record_arg(du, o, x.attr) is not None for o in base):
                    # handled as a component of the record, not as a use of the whole record
                    for o in base:
                        out |= depends_on(du, o.node, _record_arg(du, o, x.attr), _seen, depth + 1)
                    continue
        if isinstance(x, ast.Call):
            d = dotted(x.func)
            if d:
                out.add("<call:%s>" % d)
        if isinstance(x, ast.Name) and isinstance(x.ctx, ast.Load):
            if RECORD_FIELDS is not None and not path and x is not expr and _is_record_base_of_attr(expr, x, du, n):
                continue
            for d in du.reaching(n, x.id):
                key = (id(d), x.id, path)
                if key in _seen:
                    continue
                _seen.add(key)
                # values added to a container variable (flow-insensitive): x.update(E) / x.append(E) / x[K] = V
                for m in du.cfg.stmt_nodes():
                    for c in m.calls():
                        if isinstance(c.func, ast.Attribute) and isinstance(c.func.value, ast.Name) and c.func.value.id == x.id \
                                and c.func.attr in ("append", "add", "extend", "update", "insert") and c.args:
                            k2 = (id(c), x.id)
                            if k2 not in _seen:
                                _seen.add(k2)
                                out |= depends_on(du, m, c.args[-1], _seen, depth + 1)
                if d.kind == "param":
                    out.add(d.name)
                elif d.value is not None and d.node is not None and not isinstance(d.value, (ast.FunctionDef, ast.AsyncFunctionDef, ast.ClassDef, ast.Import, ast.ImportFrom)):
                    v = d.value.value if isinstance(d.value, ast.AugAssign) else d.value
                    sub = (tuple(d.index) + path) if d.kind == "assign" else ()
                    out |= depends_on(du, d.node, v, _seen, depth + 1, sub)
                    if isinstance(d.value, ast.AugAssign):
                        out |= depends_on(du, d.node, d.value.target, _seen, depth + 1)
    return out


def _is_record_base_of_attr(expr: ast.AST, name_node: ast.Name, du, n) -> bool:
    """*name_node* occurs in *expr* only as the base of a record-field access that was resolved component-wise."""
    for x in ast.walk(expr):
        if isinstance(x, ast.Attribute) and x.value is name_node:
            base = origins(du, n, name_node)
            return bool(base) and all(_record_arg(du, o, x.attr) is not None for o in base)
    return False


RECORD_FIELDS = None
RECORD_RESULT_INDEX = None   # set by core: (function, cfg node, call ast, field name) -> position of the field in the record the call returns / yields, or None
RECORD_FIELD_NAMES: set = set()   # names of the fields of all record classes of the program (set by core)   # set by core: (function, cfg node, call ast) -> ordered field names of the NamedTuple/dataclass constructed, or None


def _record_arg(du, o, field):
    """The argument expression that fills *field* (name or position) in the record constructor call origin *o*."""
    if o.kind != "expr" or o.path or not isinstance(o.leaf, ast.Call):
        return None
    try:
        fields = RECORD_FIELDS(du.cfg.fi, o.node, o.leaf)
    except Exception:
        fields = None
    if not fields:
        return None
    c = o.leaf
    if any(isinstance(a, ast.Starred) for a in c.args) or any(k.arg is None for k in c.keywords):
        return None
    if isinstance(field, int):
        if not (0 <= field < len(fields)):
            return None
        field = fields[field]
    if field not in fields:
        return None
    i = fields.index(field)
    if i < len(c.args):
        return c.args[i]
    for k in c.keywords:
        if k.arg == field:
            return k.value
    return None


class Origin:
    """Where a value comes from: ``leaf`` evaluated at ``node``, then subscripted by ``path``.

    kind: 'param' (leaf is None, name = parameter), 'elem' (an element of the iterable ``leaf``),
    'with' (the object bound by ``with leaf as``), 'expr' (any other expression)."""

    __slots__ = ("kind", "leaf", "path", "node", "name", "conds")

    def __init__(self, kind, leaf, path, node, name=None):
        self.kind, self.leaf, self.path, self.node, self.name = kind, leaf, tuple(path), node, name
        self.conds = []   # [(test expr, polarity, node)] of the conditional expressions passed on the way

    def is_none(self) -> bool:
        return self.kind == "expr" and isinstance(self.leaf, ast.Constant) and self.leaf.value is None and not self.path

    def __repr__(self):
        return "<Origin %s %s%s>" % (self.kind, self.name or (src(self.leaf)[:50] if self.leaf is not None else ""), list(self.path) or "")


def origins(du: DefUse, n: Node, e: ast.AST, path=(), _seen=None, depth: int = 0) -> List[Origin]:
    """Follow local names, constant subscripts, tuple literals and conditional expressions back to the
    expressions that produce the value of *e* at *n* (names of helpers do not matter: inlined helpers
    are ordinary assignments in the CFG)."""
    _seen = _seen if _seen is not None else set()
    path = tuple(path)
    if depth > 16:
        return [Origin("expr", e, path, n)]
    if isinstance(e, ast.Name):
        out: List[Origin] = []
        defs = du.reaching(n, e.id)
        if not defs:
            # a comprehension variable ranging over a display of locals: `f(v) for v in (old_etag, new_etag)`
            for top in n.exprs():
                for c in ast.walk(top):
                    if isinstance(c, (ast.GeneratorExp, ast.ListComp, ast.SetComp, ast.DictComp)):
                        for g in c.generators:
                            if isinstance(g.target, ast.Name) and g.target.id == e.id and isinstance(g.iter, (ast.Tuple, ast.List)) \
                                    and not any(isinstance(x, ast.Starred) for x in g.iter.elts) and any(y is e for y in ast.walk(c)):
                                key = (id(g), path)
                                if key in _seen:
                                    return []
                                _seen.add(key)
                                out2: List[Origin] = []
                                for elt in g.iter.elts:
                                    out2.extend(origins(du, n, elt, path, _seen, depth + 1))
                                return out2
            return [Origin("expr", e, path, n)]
        for d in defs:
            key = (id(d), path)
            if key in _seen:
                continue
            _seen.add(key)
            if d.kind == "param":
                out.append(Origin("param", None, path, None, d.name))
            elif d.kind == "assign" and d.value is not None:
                out.extend(origins(du, d.node, d.value, tuple(d.index) + path, _seen, depth + 1))
            elif d.kind == "for":
                for it in iter_exprs(du, d.node, _seen, depth + 1):
                    out.append(Origin("elem", it, tuple(d.index) + path, d.node))
            elif d.kind == "with":
                out.append(Origin("with", d.value, tuple(d.index) + path, d.node))
            else:
                out.append(Origin("expr", d.value if d.value is not None else e, path, d.node, d.name))
        return out
    if isinstance(e, ast.Subscript) and isinstance(e.slice, ast.Constant) and isinstance(e.slice.value, int):
        return origins(du, n, e.value, (e.slice.value,) + path, _seen, depth + 1)
    if isinstance(e, ast.Attribute) and isinstance(e.value, ast.Name):
        # a field of a local object that was assigned in this function (`obj.f = v` ... `obj.f`), also through an
        # alias of the object (`r = obj` ... `r.f`)
        # (not for self/cls: what an attribute of self holds may stem from an earlier call)
        cands = [dotted(e)] if e.value.id not in ("self", "cls") else []
        for o in (origins(du, n, e.value, (), set(), depth + 1) if e.value.id not in ("self", "cls") else []):
            if o.kind == "expr" and isinstance(o.leaf, ast.Call) and isinstance(o.leaf.func, ast.Name) and o.leaf.func.id == "__new__" \
                    and len(o.leaf.args) == 2 and isinstance(o.leaf.args[1], ast.Constant):
                cands.append("%s.%s" % (o.leaf.args[1].value, e.attr))
        for key in cands:
            fdefs = [d for d in du.reaching(n, key) if d.kind == "assign" and d.value is not None] if key else []
            if fdefs:
                out = []
                for d in fdefs:
                    k2 = (id(d), path)
                    if k2 in _seen:
                        continue
                    _seen.add(k2)
                    out.extend(origins(du, d.node, d.value, tuple(d.index) + path, _seen, depth + 1))
                if out:
                    return out
    if isinstance(e, ast.Attribute) and isinstance(e.value, ast.Name) and RECORD_FIELDS is not None:
        # field of a NamedTuple / dataclass built in this function: `p = Rec(a, b)` ... `p.b`
        base = origins(du, n, e.value, (), _seen, depth + 1)
        out = []
        for o in base:
            arg = _record_arg(du, o, e.attr)
            if arg is None:
                out = None
                break
            out.extend(origins(du, o.node, arg, path, _seen, depth + 1))
        if out:
            return out
    if isinstance(e, ast.Attribute) and isinstance(e.value, ast.Name) and RECORD_FIELD_NAMES and e.attr in RECORD_FIELD_NAMES:
        # field of a record that was produced elsewhere (element of `for change in store.iter_changes(...)`, result of
        # a call): the same origin, one component deeper
        base = origins(du, n, e.value, (), set(), depth + 1)
        if base and all(o.kind == "elem" or (o.kind == "expr" and isinstance(o.leaf, ast.Call)) for o in base):
            out = []
            for o in base:
                comp = e.attr
                if RECORD_RESULT_INDEX is not None and not o.path:
                    # which record the call hands out is known from the callee: the field is a position of the tuple
                    idx = RECORD_RESULT_INDEX(du.cfg.fi, o.node, o.leaf, e.attr)
                    if idx is not None:
                        comp = idx
                out.append(Origin(o.kind, o.leaf, tuple(o.path) + (comp,) + path, o.node, o.name))
            return out
    if isinstance(e, ast.Call) and path and isinstance(path[0], int) and RECORD_FIELDS is not None:
        # tuple-unpacking / indexing of a NamedTuple constructor call
        o = Origin("expr", e, (), n)
        arg = _record_arg(du, o, path[0])
        if arg is not None:
            return origins(du, n, arg, path[1:], _seen, depth + 1)
    if isinstance(e, (ast.Tuple, ast.List)) and path and isinstance(path[0], int) and 0 <= path[0] < len(e.elts) \
            and not any(isinstance(x, ast.Starred) for x in e.elts):
        return origins(du, n, e.elts[path[0]], path[1:], _seen, depth + 1)
    if isinstance(e, ast.IfExp):
        a = origins(du, n, e.body, path, _seen, depth + 1)
        b = origins(du, n, e.orelse, path, _seen, depth + 1)
        for o in a:
            o.conds.append((e.test, True, n))
        for o in b:
            o.conds.append((e.test, False, n))
        return a + b
    if isinstance(e, ast.NamedExpr):
        return origins(du, n, e.value, path, _seen, depth + 1)
    if isinstance(e, ast.Await):
        return origins(du, n, e.value, path, _seen, depth + 1)
    return [Origin("expr", e, path, n)]


def iter_exprs(du: DefUse, for_node: Node, _seen=None, depth: int = 0) -> List[ast.AST]:
    """The expression(s) a ``for`` node iterates over, looking through ``it = <expr>; for x in it``."""
    it = for_node.ast.iter
    if isinstance(it, ast.Name):
        out = []
        for o in origins(du, for_node, it, (), _seen, depth + 1):
            if o.kind == "expr" and not o.path and o.leaf is not None and not isinstance(o.leaf, ast.Name):
                out.append(o.leaf)
            else:
                return [it]
        return out or [it]
    return [it]


def value_roots(du: DefUse, n: Node, e: ast.AST, conv=("decode",), _depth: int = 0) -> List[Origin]:
    """Origins of *e* with pure conversions peeled off: ``X.decode(...)`` (or another method named in *conv*) is
    followed to the origins of ``X``."""
    out: List[Origin] = []
    for o in origins(du, n, e):
        v = o.leaf
        if _depth < 6 and o.kind == "expr" and not o.path and isinstance(v, ast.Call) and isinstance(v.func, ast.Attribute) and v.func.attr in conv:
            out.extend(value_roots(du, o.node, v.func.value, conv, _depth + 1))
        else:
            out.append(o)
    return out
