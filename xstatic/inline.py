"""Inlining of helper functions the rules do not know.

The rules were confirmed, instance by instance, on the reference tree (the
pinned commit plus the ``fix:`` commits): they name its functions as anchors.
A later change that *extracts* part of an anchored function into a new helper
moves code the rules reason about out of their sight.  Instead of teaching
every rule about every possible helper, the CFG builder puts the body of such
a helper back where it is called: a function whose qualified name is not in
the frozen list ``reference_functions.json`` (i.e. one that did not exist when
the rules were confirmed) and that is called from the same module is inlined
at its call sites, bounded in depth, never recursively.

Inlining is semantics preserving for the analyses built on the CFG:

* parameters are bound by assignment nodes (``p = <argument>``) unless the
  argument is the very same name; locals of the helper that collide with
  names of the caller are renamed;
* ``return X`` becomes ``<ret> = X`` followed by a jump to the end of the
  inlined block (running the helper's own ``with``-exits / ``finally``);
* exceptional edges of inlined nodes are routed through the helper's own and
  then the caller's handlers;
* a generator helper is inlined where it is delegated to (``yield from h()``),
  iterated (``for x in h(): BODY`` - BODY is placed at every ``yield``) or,
  if decorated with ``contextlib.contextmanager``, entered
  (``with h() as f: BODY`` - BODY is placed at the ``yield``);
* calls in conditionally evaluated positions (operands of ``and``/``or``
  expressions that are not tests, conditional expressions, comprehensions,
  lambdas) are left alone.

Helpers that cannot be inlined stay ordinary calls (followed by the
interprocedural summaries as before).
"""

from __future__ import annotations

import ast
import copy
import json
import os
from typing import Dict, List, Optional, Set, Tuple

from .program import FuncInfo, dotted, walk_local

MAX_DEPTH = 4
MAX_STMTS = 80

_REF_PATH = os.path.join(os.path.dirname(os.path.abspath(__file__)), "reference_functions.json")


def load_reference() -> Optional[Set[str]]:
    try:
        with open(_REF_PATH) as f:
            d = json.load(f)
            # class names too: a reference class re-implemented as a function of the same name is still an anchor
            return set(d["functions"]) | set(d.get("classes", []))
    except (OSError, ValueError, KeyError):
        return None


class InlineBlock(ast.stmt):
    """Synthetic statement: the (renamed) body of an inlined helper."""
    _fields = ("body",)

    def __init__(self, body, ret, callee, kind, lineno):
        super().__init__()
        self.body = body
        self.ret = ret            # name receiving the return value, or None
        self.callee = callee      # qualified name
        self.kind = kind          # call | for | with
        self.lineno = lineno
        self.col_offset = 0


class SplicedBody(ast.stmt):
    """Synthetic statement inside an InlineBlock: the caller's loop / with body placed at a ``yield``."""
    _fields = ("body",)

    def __init__(self, body, kind, lineno):
        super().__init__()
        self.body = body
        self.kind = kind          # for | with
        self.lineno = lineno
        self.col_offset = 0


def _count_stmts(body) -> int:
    n = 0
    for s in body:
        for x in ast.walk(s):
            if isinstance(x, ast.stmt):
                n += 1
    return n


def _assigned_names(fnode) -> Set[str]:
    out: Set[str] = set()
    for n in walk_local(fnode):
        if isinstance(n, ast.Name) and isinstance(n.ctx, (ast.Store, ast.Del)):
            out.add(n.id)
        elif isinstance(n, ast.ExceptHandler) and n.name:
            out.add(n.name)
        elif isinstance(n, (ast.Import, ast.ImportFrom)):
            for a in n.names:
                out.add((a.asname or a.name).split(".")[0])
        elif isinstance(n, (ast.FunctionDef, ast.AsyncFunctionDef, ast.ClassDef)):
            out.add(n.name)
    return out


def _all_names(node) -> Set[str]:
    out = set()
    for n in ast.walk(node):
        if isinstance(n, ast.Name):
            out.add(n.id)
        elif isinstance(n, ast.arg):
            out.add(n.arg)
        elif isinstance(n, ast.ExceptHandler) and n.name:
            out.add(n.name)
    return out


class _Renamer(ast.NodeTransformer):
    def __init__(self, mapping: Dict[str, str]):
        self.m = mapping

    def visit_Name(self, n):
        if n.id in self.m:
            return ast.copy_location(ast.Name(id=self.m[n.id], ctx=n.ctx), n)
        return n

    def visit_ExceptHandler(self, n):
        self.generic_visit(n)
        if n.name and n.name in self.m:
            n.name = self.m[n.name]
        return n

    def visit_arg(self, n):
        # parameters of nested lambdas / defs that shadow a renamed local: rename consistently
        if n.arg in self.m:
            n.arg = self.m[n.arg]
        return n


def unconditional_calls(e: ast.AST) -> List[ast.AST]:
    """Call sites (Call, or Await/YieldFrom wrapping a Call) evaluated whenever *e* is evaluated, innermost first."""
    out: List[ast.AST] = []

    def visit(n, wrapper=None):
        if isinstance(n, (ast.Lambda, ast.FunctionDef, ast.AsyncFunctionDef, ast.ClassDef,
                          ast.ListComp, ast.SetComp, ast.DictComp, ast.GeneratorExp)):
            return
        if isinstance(n, ast.BoolOp):
            visit(n.values[0])
            return
        if isinstance(n, ast.IfExp):
            visit(n.test)
            return
        if isinstance(n, (ast.Await, ast.YieldFrom)) and isinstance(n.value, ast.Call):
            for c in ast.iter_child_nodes(n.value):
                visit(c)
            out.append(n)
            return
        for c in ast.iter_child_nodes(n):
            visit(c)
        if isinstance(n, ast.Call):
            out.append(n)

    visit(e)
    return out


class _Replace(ast.NodeTransformer):
    def __init__(self, old, new):
        self.old, self.new = old, new

    def visit(self, node):
        if node is self.old:
            return self.new
        return super().visit(node)


def replace_node(root: ast.AST, old: ast.AST, new: ast.AST) -> ast.AST:
    """A copy of *root* (shallow along the path to *old*) in which *old* is *new*."""
    if root is old:
        return new
    # find the path
    path: List[Tuple[ast.AST, str, Optional[int]]] = []

    def find(n) -> bool:
        for field, value in ast.iter_fields(n):
            if isinstance(value, list):
                for i, v in enumerate(value):
                    if v is old:
                        path.append((n, field, i))
                        return True
                    if isinstance(v, ast.AST) and find(v):
                        path.append((n, field, i))
                        return True
            elif isinstance(value, ast.AST):
                if value is old:
                    path.append((n, field, None))
                    return True
                if find(value):
                    path.append((n, field, None))
                    return True
        return False

    if not find(root):
        return root
    cur = new
    for parent, field, idx in path:
        p2 = copy.copy(parent)
        if idx is None:
            setattr(p2, field, cur)
        else:
            lst = list(getattr(parent, field))
            lst[idx] = cur
            setattr(p2, field, lst)
        cur = p2
    return cur


class _Pseudo:
    """Stand-in for a FuncInfo: the loop a call of any()/all() over a generator expression stands for."""

    def __init__(self, name, node, module):
        self.name = name
        self.qualname = "<builtin %s>" % name
        self.node = node
        self.module = module
        self.cls = None
        self.decorators: List[str] = []
        self.is_async = False
        self.pseudo = True


def _fix_locs(root: ast.AST, ln: int):
    for x in ast.walk(root):
        if not hasattr(x, "lineno"):
            x.lineno = ln
            x.col_offset = 0
        if not hasattr(x, "end_lineno"):
            x.end_lineno = getattr(x, "lineno", ln)
            x.end_col_offset = 0


def _loop_over(gen: ast.comprehension, inner: ast.stmt) -> ast.For:
    for c in reversed(gen.ifs):
        inner = ast.If(test=c, body=[inner], orelse=[])
    return ast.For(target=gen.target, iter=gen.iter, body=[inner], orelse=[])


def desugar_any_all(call: ast.Call) -> Optional[ast.FunctionDef]:
    """The loop a built-in over a generator expression stands for (single ``for`` clause only):

    ``any(E for T in I if C)``   -> ``for T in I: if C: if E: return True`` / ``return False`` (all(): dually)
    ``next((E for T in I if C), D)`` -> ``for T in I: if C: return E`` / ``return D`` (``raise StopIteration`` without D)

    Evaluation order and short-circuiting are those of the built-in."""
    if not (isinstance(call.func, ast.Name) and call.func.id in ("any", "all", "next") and not call.keywords and call.args):
        return None
    g = call.args[0]
    if not isinstance(g, (ast.GeneratorExp, ast.ListComp)) or len(g.generators) != 1 or g.generators[0].is_async:
        return None
    gen = g.generators[0]
    ln = getattr(call, "lineno", 0)
    kind = call.func.id
    if kind == "next":
        if len(call.args) > 2 or isinstance(g, ast.ListComp):
            return None
        loop = _loop_over(gen, ast.Return(value=g.elt))
        tail: ast.stmt = ast.Return(value=call.args[1]) if len(call.args) == 2 else \
            ast.Raise(exc=ast.Call(func=ast.Name(id="StopIteration", ctx=ast.Load()), args=[], keywords=[]), cause=None)
    else:
        if len(call.args) != 1:
            return None
        is_any = kind == "any"
        test = g.elt if is_any else ast.UnaryOp(op=ast.Not(), operand=g.elt)
        loop = _loop_over(gen, ast.If(test=test, body=[ast.Return(value=ast.Constant(value=is_any))], orelse=[]))
        tail = ast.Return(value=ast.Constant(value=not is_any))
    fn = ast.FunctionDef(name="__%s__" % kind,
                         args=ast.arguments(posonlyargs=[], args=[], vararg=None, kwonlyargs=[], kw_defaults=[], kwarg=None, defaults=[]),
                         body=[loop, tail], decorator_list=[], returns=None)
    _fix_locs(fn, ln)
    return fn


def desugar_yield_from(s: ast.stmt) -> Optional[List[ast.stmt]]:
    """``yield from (E for T in I if C)`` -> ``for T in I: if C: yield E``."""
    if not (isinstance(s, ast.Expr) and isinstance(s.value, ast.YieldFrom)):
        return None
    g = s.value.value
    if not isinstance(g, (ast.GeneratorExp, ast.ListComp)) or len(g.generators) != 1 or g.generators[0].is_async:
        return None
    loop = _loop_over(g.generators[0], ast.Expr(value=ast.Yield(value=g.elt)))
    _fix_locs(loop, s.lineno)
    return [loop]


def genexp_to_generator(fn: ast.FunctionDef) -> Optional[ast.FunctionDef]:
    """``def f(..): <stmts>; return (E for V in I if C)`` -> the equivalent generator function
    ``<stmts>; for V in I: if C: yield E`` (single ``for`` clause, the only ``return`` of the function)."""
    rets = [n for n in walk_local(fn) if isinstance(n, ast.Return)]
    if len(rets) != 1 or not fn.body or fn.body[-1] is not rets[0]:
        return None
    g = rets[0].value
    if not isinstance(g, (ast.GeneratorExp, ast.ListComp)) or len(g.generators) != 1 or g.generators[0].is_async:
        return None
    gen = g.generators[0]
    ln = rets[0].lineno
    inner: ast.stmt = ast.Expr(value=ast.Yield(value=g.elt))
    for c in reversed(gen.ifs):
        inner = ast.If(test=c, body=[inner], orelse=[])
    loop = ast.For(target=gen.target, iter=gen.iter, body=[inner], orelse=[])
    new = copy.copy(fn)
    new.body = list(fn.body[:-1]) + [loop]
    for x in ast.walk(loop):
        if not hasattr(x, "lineno"):
            x.lineno = ln
            x.col_offset = 0
        if not hasattr(x, "end_lineno"):
            x.end_lineno = ln
            x.end_col_offset = 0
    return new


MEMO_DECORATORS = {"functools.lru_cache", "functools.cache", "lru_cache", "cache"}
_IMMUTABLE_TYPES = {"str", "bytes", "int", "float", "bool", "complex", "None", "frozenset", "date", "datetime", "time", "timedelta",
                    "tzinfo", "ZoneInfo", "timezone", "Decimal", "Fraction", "UUID", "PurePath", "PurePosixPath", "Path"}
_IMMUTABLE_CALLS = {"tuple", "frozenset", "str", "bytes", "int", "float", "bool", "len", "repr", "hash", "ord", "chr", "hex", "abs", "min", "max", "sum"}
_IMMUTABLE_METHODS = {"decode", "encode", "hexdigest", "digest", "strip", "lstrip", "rstrip", "lower", "upper", "casefold", "title", "join", "format",
                      "replace", "removeprefix", "removesuffix", "isoformat"}


def _immutable_annotation(a: Optional[ast.AST]) -> bool:
    if a is None:
        return False
    if isinstance(a, ast.Constant):
        if a.value is None:
            return True
        if isinstance(a.value, str):
            try:
                return _immutable_annotation(ast.parse(a.value, mode="eval").body)
            except SyntaxError:
                return False
        return False
    if isinstance(a, (ast.Name, ast.Attribute)):
        return (dotted(a) or "").split(".")[-1] in _IMMUTABLE_TYPES
    if isinstance(a, ast.BinOp) and isinstance(a.op, ast.BitOr):
        return _immutable_annotation(a.left) and _immutable_annotation(a.right)
    if isinstance(a, ast.Subscript):
        head = (dotted(a.value) or "").split(".")[-1]
        args = a.slice.elts if isinstance(a.slice, ast.Tuple) else [a.slice]
        args = [x for x in args if not (isinstance(x, ast.Constant) and x.value is Ellipsis)]
        if head in ("Optional", "Union", "tuple", "Tuple", "frozenset", "FrozenSet"):
            return all(_immutable_annotation(x) for x in args)
    return False


def returns_immutable(fn: ast.AST) -> bool:
    """Every value the function returns is visibly immutable: by its return annotation, or because every returned
    expression is a literal / a tuple of such / the result of a conversion that yields an immutable object."""
    if _immutable_annotation(getattr(fn, "returns", None)):
        return True
    assigned: Dict[str, List[Optional[ast.AST]]] = {}
    for n in walk_local(fn):
        if isinstance(n, (ast.Assign, ast.AnnAssign, ast.AugAssign)):
            tgts = n.targets if isinstance(n, ast.Assign) else [n.target]
            for t in tgts:
                if isinstance(t, ast.Name):
                    assigned.setdefault(t.id, []).append(n.value)
                else:
                    for x in ast.walk(t):
                        if isinstance(x, ast.Name):
                            assigned.setdefault(x.id, []).append(None)
        elif isinstance(n, (ast.For, ast.AsyncFor, ast.With, ast.AsyncWith, ast.NamedExpr)):
            for x in ast.walk(n.target if hasattr(n, "target") else ast.Tuple(elts=[i.optional_vars for i in n.items if i.optional_vars is not None])):
                if isinstance(x, ast.Name):
                    assigned.setdefault(x.id, []).append(None)

    def imm(e, depth=0) -> bool:
        if e is None or depth > 6:
            return False
        if isinstance(e, (ast.Constant, ast.JoinedStr)):
            return True
        if isinstance(e, ast.Tuple):
            return all(imm(x, depth + 1) for x in e.elts)
        if isinstance(e, (ast.Compare,)):
            return True
        if isinstance(e, ast.BinOp):
            return imm(e.left, depth + 1) and imm(e.right, depth + 1)
        if isinstance(e, ast.BoolOp):
            return all(imm(x, depth + 1) for x in e.values)
        if isinstance(e, ast.UnaryOp):
            return isinstance(e.op, ast.Not) or imm(e.operand, depth + 1)
        if isinstance(e, ast.IfExp):
            return imm(e.body, depth + 1) and imm(e.orelse, depth + 1)
        if isinstance(e, ast.Call):
            d = dotted(e.func) or ""
            if d in _IMMUTABLE_CALLS:
                return True
            if isinstance(e.func, ast.Attribute) and e.func.attr in _IMMUTABLE_METHODS:
                return True
            return False
        if isinstance(e, ast.Name):
            vals = assigned.get(e.id)
            return bool(vals) and all(v is not None and imm(v, depth + 1) for v in vals)
        return False

    rets = [n for n in walk_local(fn) if isinstance(n, ast.Return)]
    return bool(rets) and all(imm(r.value) for r in rets if r.value is not None)


def flat_field(field: str, x: str, aliases: Dict[str, str]) -> str:
    """Name under which field *x* of the helper object kept in ``self.<field>`` appears after inlining."""
    return aliases.get(x) or "%s__%s" % (field, x)


class _FieldObjRewriter(ast.NodeTransformer):
    """After the body of a method of the helper object in ``self.<field>`` was spliced in with the helper's ``self``
    renamed to the marker *mark*: ``mark.m(...)`` -> ``self.<field>.m(...)`` (a call that can be inlined in turn),
    ``mark.x`` -> ``self.<alias or field__x>`` (the helper's data becomes data of the owner), ``mark`` -> ``self.<field>``."""

    def __init__(self, mark: str, field: str, cls, program, aliases: Dict[str, str]):
        self.mark, self.field, self.cls, self.P, self.aliases = mark, field, cls, program, aliases

    def _owner_attr(self, attr: str, like: ast.AST, ctx) -> ast.AST:
        return ast.copy_location(ast.Attribute(value=ast.copy_location(ast.Name(id="self", ctx=ast.Load()), like), attr=attr, ctx=ctx), like)

    def visit_Attribute(self, n: ast.Attribute):
        if isinstance(n.value, ast.Name) and n.value.id == self.mark:
            is_method = self.cls is not None and self.P.lookup_method(self.cls, n.attr) is not None
            if is_method:
                base = self._owner_attr(self.field, n, ast.Load())
                return ast.copy_location(ast.Attribute(value=base, attr=n.attr, ctx=n.ctx), n)
            return self._owner_attr(flat_field(self.field, n.attr, self.aliases), n, n.ctx)
        self.generic_visit(n)
        return n

    def visit_Name(self, n: ast.Name):
        if n.id == self.mark:
            return self._owner_attr(self.field, n, n.ctx)
        return n


class _Forwarder(ast.NodeTransformer):
    """Replace loads of ``<obj>.<field>`` by the expression the field forwards."""

    def __init__(self, obj: str, fields: Dict[str, ast.AST], skip_stores: bool = True):
        self.obj, self.fields = obj, fields

    def visit_Attribute(self, n: ast.Attribute):
        self.generic_visit(n)
        if isinstance(n.ctx, ast.Load) and isinstance(n.value, ast.Name) and n.value.id == self.obj and n.attr in self.fields:
            return ast.copy_location(copy.deepcopy(self.fields[n.attr]), n)
        return n


class Inliner:
    def __init__(self, program, reference: Optional[Set[str]]):
        self.P = program
        self.reference = reference
        self.count = 0
        self.inlined: Dict[str, Set[str]] = {}     # helper qualname -> roots it was inlined into
        self.declined: Dict[str, str] = {}         # helper qualname -> reason (last call site that was not inlined)
        self.declined_sites: Dict[str, int] = {}   # helper qualname -> number of call sites left as calls
        self.fn_alias: Dict[str, FuncInfo] = {}    # (renamed) parameter name -> function it was bound to at an inlined call
        self._local_cls_cache: Dict[tuple, object] = {}
        self.obj_class: Dict[str, object] = {}     # synthetic object name -> ClassInfo (inlined constructor calls)
        self.obj_forward: Dict[str, Dict[str, ast.AST]] = {}   # synthetic object name -> {field: expression it forwards}
        self.lambda_alias: Dict[str, ast.Lambda] = {}          # (renamed) parameter name -> lambda literal it was bound to

    def is_new(self, fi: FuncInfo) -> bool:
        if self.reference is None or fi.qualname in self.reference:
            return False
        if getattr(fi, "cls", None) is None and getattr(fi, "parent", None) is None:
            # a module-level function that was moved to another module and is still importable under its old name
            # (`from .vcard import apply_text_match` in the old module): an anchor of the rules, not a helper
            idx = self.__dict__.get("_ref_by_name")
            if idx is None:
                idx = self._ref_by_name = {}
                for q in self.reference:
                    idx.setdefault(q.rsplit(".", 1)[-1], []).append(q)
            for old_q in idx.get(fi.name, ()):
                try:
                    kind, obj = self.P._resolve_abs(old_q)
                except Exception:
                    continue
                if kind == "func" and obj is fi:
                    return False
        if getattr(fi, "cls", None) is not None:
            # a method the reference tree defines elsewhere in the same class hierarchy (pulled up / pushed down):
            # still an anchor of the rules, not a helper
            related = list(fi.cls.mro) + fi.cls.all_subclasses()
            if any((c.qualname + "." + fi.name) in self.reference for c in related):
                return False
        return True

    # -- which call may be inlined
    def target(self, root: FuncInfo, site: ast.AST, stack: List[str], usage: str) -> Optional[FuncInfo]:
        """*usage*: value | yieldfrom | for | with."""
        call = site.value if isinstance(site, (ast.Await, ast.YieldFrom)) else site
        if not isinstance(call, ast.Call):
            return None
        if site is call and usage == "value" and len(stack) < MAX_DEPTH + 2:
            fn_ = desugar_any_all(call)
            if fn_ is not None:
                return _Pseudo(call.func.id, fn_, root.module)
        if self.reference is None:
            return None
        if any(isinstance(a, ast.Starred) for a in call.args) or any(k.arg is None for k in call.keywords):
            return None
        fn = call.func
        t = None
        if isinstance(fn, ast.Lambda) and usage == "value" and len(stack) < MAX_DEPTH + 2:
            a_ = fn.args
            if not (a_.vararg or a_.kwarg or a_.kwonlyargs):
                body_ = ast.Return(value=fn.body)
                ast.copy_location(body_, fn)
                fdef = ast.FunctionDef(name="__lambda__", args=a_, body=[body_], decorator_list=[], returns=None)
                _fix_locs(fdef, getattr(fn, "lineno", 0))
                return _Pseudo("lambda", fdef, root.module)
            return None
        if isinstance(fn, ast.Name) and fn.id in self.lambda_alias and usage == "value" and len(stack) < MAX_DEPTH + 2:
            lam = self.lambda_alias[fn.id]      # a parameter of an inlined helper that was bound to a lambda literal
            a_ = lam.args
            if not (a_.vararg or a_.kwarg or a_.kwonlyargs):
                body_ = ast.Return(value=copy.deepcopy(lam.body))
                ast.copy_location(body_, lam)
                fdef = ast.FunctionDef(name="__lambda__", args=copy.deepcopy(a_), body=[body_], decorator_list=[], returns=None)
                _fix_locs(fdef, getattr(lam, "lineno", 0))
                return _Pseudo("lambda", fdef, root.module)
            return None
        if isinstance(fn, ast.Name) and fn.id in self.fn_alias:
            t = self.fn_alias[fn.id]            # a parameter of an inlined helper that was bound to a function
        elif isinstance(fn, ast.Name):
            pass
        elif isinstance(fn, ast.Attribute) and dotted(fn.value) in ("self", "cls"):
            pass
        elif isinstance(fn, ast.Attribute) and isinstance(fn.value, ast.Name) and self._local_instance_method(root, fn) is not None:
            t = self._local_instance_method(root, fn)   # method of a helper class instantiated in this function
        elif isinstance(fn, ast.Attribute) and self._field_object_method(root, fn) is not None:
            t = self._field_object_method(root, fn)     # method of a helper object the class keeps in a field
        elif isinstance(fn, ast.Attribute) and dotted(fn.value) is not None and "." not in dotted(fn.value):
            pass  # Class.helper(...) / module.helper(...)
        else:
            return None
        if t is None:
            try:
                res = self.P.resolve_call(root, call)
            except Exception:
                return None
            if len(res.targets) == 1 and res.how.startswith("ctor:") and usage == "value" and site is call:
                # construction of a helper class unknown to the reference tree: its __init__ is inlined on a
                # synthetic object name (see CFG._hoist)
                cq = res.how.split(":", 1)[1]
                ci = self.P.classes.get(cq)
                init = res.targets[0]
                if ci is not None and self.reference is not None and cq not in self.reference and init.cls is ci \
                        and not self._why_not(root, init, site, call, stack, usage):
                    t2 = copy.copy(init)
                    t2.ctor_of = ci
                    return t2
                return None
            if len(res.targets) != 1 or res.how.startswith("ctor") or res.how in ("cha",):
                return None
            t = res.targets[0]
        if not self.is_new(t):
            return None
        if usage == "for" and isinstance(t.node, ast.FunctionDef) and not any(isinstance(n, (ast.Yield, ast.YieldFrom)) for n in walk_local(t.node)):
            g_ = genexp_to_generator(t.node)
            if g_ is not None:
                t2 = copy.copy(t)
                t2.node = g_
                t = t2
        why = self._why_not(root, t, site, call, stack, usage)
        if why:
            if not (usage == "for" and why == "not a generator"):   # retried as a plain value by the caller
                self.declined[t.qualname] = why
                self.declined_sites[t.qualname] = self.declined_sites.get(t.qualname, 0) + 1
            return None
        return t

    # -- helper objects kept in a field: `self.F = Helper(...)` in __init__, `self.F.m(...)` elsewhere
    def field_object(self, root: FuncInfo, field: str):
        """ClassInfo of the helper class (unknown to the reference tree) whose instance ``self.<field>`` holds for the
        whole life of the object: assigned exactly once in the class family, in ``__init__``, to a constructor call."""
        base = getattr(root, "inherited_from", None) or root
        owner = base.cls
        f_ = base
        while owner is None and getattr(f_, "parent", None) is not None:
            f_ = f_.parent
            owner = f_.cls
        if owner is None or self.reference is None:
            return None
        key = (owner.qualname, field)
        cache = self.__dict__.setdefault("_fo_cache", {})
        if key in cache:
            return cache[key]
        stores = []
        related = list(owner.mro) + owner.all_subclasses()
        for c in related:
            for m in c.methods.values():
                for n in walk_local(m.node):
                    if isinstance(n, (ast.Assign, ast.AnnAssign)) and n.value is not None:
                        tg = n.targets if isinstance(n, ast.Assign) else [n.target]
                        if any(dotted(t_) == "self." + field for t_ in tg):
                            stores.append((m, n.value))
        ci = None
        if len(stores) == 1 and stores[0][0].name == "__init__" and isinstance(stores[0][1], ast.Call) and dotted(stores[0][1].func):
            m, v = stores[0]
            try:
                kind, obj = self.P.resolve_dotted(m.module, dotted(v.func), m)
            except Exception:
                kind, obj = None, None
            if kind == "class" and obj.qualname not in self.reference:
                ci = obj
        cache[key] = ci
        return ci

    def _field_object_method(self, root: FuncInfo, fn: ast.Attribute) -> Optional[FuncInfo]:
        d = dotted(fn.value)
        if not d or not d.startswith("self.") or d.count(".") != 1:
            return None
        ci = self.field_object(root, d.split(".")[1])
        if ci is None:
            return None
        m = self.P.lookup_method(ci, fn.attr)
        if m is None or "property" in m.decorators or "staticmethod" in m.decorators or "classmethod" in m.decorators:
            return None
        return m

    def field_aliases(self, root: FuncInfo, field: str) -> Dict[str, str]:
        """{x: A} for the names under which the class re-exports parts of its helper object: ``self.A = self.<field>.x``
        in ``__init__`` or a property ``A`` whose body is ``return self.<field>.x``."""
        base = getattr(root, "inherited_from", None) or root
        owner = base.cls
        out: Dict[str, str] = {}
        if owner is None:
            return out
        for c in list(owner.mro) + owner.all_subclasses():
            for m in c.methods.values():
                if m.name == "__init__":
                    for n in walk_local(m.node):
                        if isinstance(n, (ast.Assign, ast.AnnAssign)) and n.value is not None and (dotted(n.value) or "").startswith("self.%s." % field) \
                                and (dotted(n.value) or "").count(".") == 2:
                            for t_ in (n.targets if isinstance(n, ast.Assign) else [n.target]):
                                dt = dotted(t_)
                                if dt and dt.startswith("self.") and dt.count(".") == 1:
                                    out.setdefault(dotted(n.value).split(".")[2], dt.split(".")[1])
                elif "property" in m.decorators:
                    body = [x for x in m.node.body if not (isinstance(x, ast.Expr) and isinstance(x.value, ast.Constant))]
                    if len(body) == 1 and isinstance(body[0], ast.Return) and (dotted(body[0].value) or "").startswith("self.%s." % field) \
                            and dotted(body[0].value).count(".") == 2:
                        out.setdefault(dotted(body[0].value).split(".")[2], m.name)
        return out

    def _local_instance_method(self, root: FuncInfo, fn: ast.Attribute) -> Optional[FuncInfo]:
        """``obj.method`` where ``obj`` is a local bound exactly once, to an instance of a class unknown to the
        reference tree (``obj = Helper(...)`` / ``obj = Helper.classmethod(...)``): that class's method."""
        name = fn.value.id
        if name in self.obj_class:
            m = self.P.lookup_method(self.obj_class[name], fn.attr)
            if m is None or "property" in m.decorators or "staticmethod" in m.decorators or "classmethod" in m.decorators:
                return None
            return m
        key = (root.qualname, name)
        if key not in self._local_cls_cache:
            ci = None
            assigns = []
            base = getattr(root, "inherited_from", None) or root
            for n in walk_local(base.node):
                if isinstance(n, ast.Name) and isinstance(n.ctx, ast.Store) and n.id == name:
                    assigns.append(n)
            values = [n.value for n in walk_local(base.node) if isinstance(n, (ast.Assign, ast.AnnAssign)) and n.value is not None
                      and any(isinstance(t_, ast.Name) and t_.id == name for t_ in (n.targets if isinstance(n, ast.Assign) else [n.target]))]
            if len(values) == 1 and isinstance(values[0], ast.Await):
                values = [values[0].value]
            if len(assigns) == 1 and len(values) == 1 and isinstance(values[0], ast.Call) and name not in base.params:
                d = dotted(values[0].func)
                if d:
                    kind, obj = self.P.resolve_dotted(base.module, d, base)
                    if kind == "class":
                        ci = obj
                    elif kind == "func" and obj.cls is not None and "classmethod" in obj.decorators:
                        ci = obj.cls
                    elif "." in d:
                        k2, o2 = self.P.resolve_dotted(base.module, d.rsplit(".", 1)[0], base)
                        if k2 == "class":
                            m = self.P.lookup_method(o2, d.rsplit(".", 1)[1])
                            if m is not None and "classmethod" in m.decorators:
                                ci = o2
            if ci is not None and (self.reference is None or ci.qualname in self.reference):
                ci = None          # only classes the rules do not know
            self._local_cls_cache[key] = ci
        ci = self._local_cls_cache[key]
        if ci is None:
            return None
        m = self.P.lookup_method(ci, fn.attr)
        if m is None or "property" in m.decorators or "staticmethod" in m.decorators or "classmethod" in m.decorators:
            return None
        return m

    def _why_not(self, root, t: FuncInfo, site, call, stack, usage) -> Optional[str]:
        if t.qualname in stack or t is root:
            return "recursive"
        if len(stack) >= MAX_DEPTH:
            return "inlining depth"
        a = t.node.args
        if a.vararg or a.kwarg:
            return "*args/**kwargs"
        decos = set(t.decorators)
        allowed = {"staticmethod", "classmethod", "contextmanager", "contextlib.contextmanager"}
        if decos & MEMO_DECORATORS and returns_immutable(t.node):
            # a memoised function whose results cannot be modified computes what its body computes; one that hands
            # out a mutable object shares it between callers and stays a call the rules can see
            allowed = allowed | MEMO_DECORATORS
        if decos - allowed:
            return "decorated with %s" % sorted(decos - allowed)
        is_cm = bool(decos & {"contextmanager", "contextlib.contextmanager"})
        if _count_stmts(t.node.body) > MAX_STMTS:
            return "too large"
        for n in walk_local(t.node):
            if isinstance(n, (ast.Global, ast.Nonlocal)):
                return "global/nonlocal"
        yields = [n for n in walk_local(t.node) if isinstance(n, (ast.Yield, ast.YieldFrom))]
        is_gen = bool(yields)
        is_async_call = isinstance(site, ast.Await)
        if t.is_async != is_async_call and not is_gen:
            return "async/await mismatch"
        if usage == "with":
            if not is_cm:
                return "not a contextmanager"
            ys = [n for n in yields if isinstance(n, ast.Yield)]
            if len(ys) != 1 or len(yields) != 1 or not self._yields_are_statements(t):
                return "contextmanager shape"
            return None
        if is_cm:
            return "contextmanager used outside with"
        if usage == "for":
            if not is_gen:
                return "not a generator"   # plain value: handled as 'value' by the caller
            if not self._yields_are_statements(t):
                return "generator shape"
            return None
        if usage == "yieldfrom":
            return None if is_gen else "yield from a non-generator"
        if is_gen:
            return "generator used as a value"
        return None

    @staticmethod
    def _yields_are_statements(t: FuncInfo) -> bool:
        ok = set()
        for n in walk_local(t.node):
            if isinstance(n, ast.Expr) and isinstance(n.value, (ast.Yield, ast.YieldFrom)):
                ok.add(id(n.value))
        for n in walk_local(t.node):
            if isinstance(n, (ast.Yield, ast.YieldFrom)) and id(n) not in ok:
                return False
        return True

    # -- instantiate a helper body for one call site
    def instantiate(self, root: FuncInfo, t: FuncInfo, site: ast.AST, used: Set[str], want_ret: bool
                    ) -> Tuple[List[ast.stmt], List[ast.stmt], Optional[str]]:
        call = site.value if isinstance(site, (ast.Await, ast.YieldFrom)) else site
        self.count += 1
        k = self.count
        if not getattr(t, "pseudo", False):
            self.inlined.setdefault(t.qualname, set()).add(root.qualname)
        a = t.node.args
        params = [x.arg for x in a.posonlyargs + a.args]
        kwonly = [x.arg for x in a.kwonlyargs]
        defaults: Dict[str, ast.AST] = {}
        pos = a.posonlyargs + a.args
        for p, d in zip(pos[len(pos) - len(a.defaults):], a.defaults):
            defaults[p.arg] = d
        for p, d in zip(a.kwonlyargs, a.kw_defaults):
            if d is not None:
                defaults[p.arg] = d
        bound_self = None
        is_method = t.cls is not None and "staticmethod" not in t.decorators
        if is_method and params:
            bound_self = params[0]
            params = params[1:]
        actual: Dict[str, ast.AST] = {}
        for p, arg in zip(params, call.args):
            actual[p] = arg
        for kw in call.keywords:
            actual[kw.arg] = kw.value
        assigned = _assigned_names(t.node)
        locals_ = set(params) | set(kwonly) | assigned
        mapping: Dict[str, str] = {}
        pre: List[ast.stmt] = []
        ln = getattr(call, "lineno", t.node.lineno)

        def fresh(v: str) -> str:
            if v not in used:
                return v
            return "%s__i%d" % (v, k)

        ctor_obj = None
        if getattr(t, "ctor_of", None) is not None and bound_self is not None:
            ctor_obj = "__obj_%s_%d" % (t.ctor_of.name.strip("_"), k)
            used.add(ctor_obj)
            self.obj_class[ctor_obj] = t.ctor_of
            mapping[bound_self] = ctor_obj
            mk = ast.Assign(targets=[ast.Name(id=ctor_obj, ctx=ast.Store())],
                            value=ast.Call(func=ast.Name(id="__new__", ctx=ast.Load()), args=[ast.Constant(value=t.ctor_of.qualname), ast.Constant(value=ctor_obj)], keywords=[]),
                            lineno=ln, col_offset=0)
            mk.inline_bind = t.qualname
            pre.append(mk)
            bound_self = None
        if bound_self is not None:
            recv = dotted(call.func.value) if isinstance(call.func, ast.Attribute) else None
            target_self = "self" if "classmethod" not in t.decorators else "cls"
            if recv == bound_self or (recv in ("self", "cls") and bound_self in ("self", "cls")):
                mapping[bound_self] = recv
            elif "classmethod" in t.decorators:
                mapping[bound_self] = bound_self  # the class object: left symbolic
            elif recv is not None and "." not in recv and recv not in ("self", "cls"):
                mapping[bound_self] = recv        # method of a local helper object: `self.x` reads become `obj.x`
            elif recv is not None and recv.startswith("self.") and recv.count(".") == 1 and self.field_object(root, recv.split(".")[1]) is t.cls \
                    or (recv is not None and recv.startswith("self.") and recv.count(".") == 1 and self.field_object(root, recv.split(".")[1]) is not None
                        and t.cls in self.field_object(root, recv.split(".")[1]).mro):
                # method of a helper object kept in a field: the helper's `self` is `self.<field>`; its own fields are
                # flattened into fields of the owner (see _FieldObjRewriter)
                fo_field = recv.split(".")[1]
                mapping[bound_self] = "__fo_" + fo_field
            else:
                mapping[bound_self] = recv or target_self
        subst_iter: Dict[str, ast.AST] = {}
        for p in params + kwonly:
            arg = actual.get(p, defaults.get(p))
            if arg is None:
                arg = ast.Constant(value=None)
            if isinstance(arg, ast.Name) and arg.id == p and p not in assigned:
                mapping[p] = p
                continue
            np_ = fresh(p)
            mapping[p] = np_
            if isinstance(arg, (ast.GeneratorExp, ast.ListComp)) and p not in assigned and self._only_iterated_once(t.node, p):
                # `helper((f(x) for x in xs))` with `for y in <param>` in the helper: iterate over the expression itself
                subst_iter[np_] = arg
                continue
            if isinstance(arg, ast.Lambda) and p not in assigned:
                self.lambda_alias[np_] = arg
            # a function handed in as an argument (callback): calls through the parameter can be inlined too
            if isinstance(arg, (ast.Name, ast.Attribute)) and p not in assigned:
                d_ = dotted(arg)
                tf = None
                if isinstance(arg, ast.Name) and arg.id in self.fn_alias:
                    tf = self.fn_alias[arg.id]
                elif d_:
                    try:
                        kind_, obj_ = self.P.resolve_dotted(root.module, d_, getattr(root, "inherited_from", None) or root)
                    except Exception:
                        kind_, obj_ = None, None
                    if kind_ == "func":
                        tf = obj_
                    elif d_.startswith("self.") and d_.count(".") == 1:
                        base_ = getattr(root, "inherited_from", None) or root
                        if base_.cls is not None:
                            tf = self.P.lookup_method(base_.cls, d_.split(".")[1])
                            if tf is not None and ("staticmethod" in tf.decorators or "classmethod" in tf.decorators or "property" in tf.decorators):
                                tf = None
                if tf is not None:
                    self.fn_alias[np_] = tf
            asg = ast.Assign(targets=[ast.Name(id=np_, ctx=ast.Store())], value=arg, lineno=ln, col_offset=0)
            asg.inline_bind = t.qualname
            pre.append(asg)
        for v in sorted(assigned - set(mapping)):
            mapping[v] = fresh(v)
        used |= set(mapping.values())
        ret = None
        if want_ret and ctor_obj is not None:
            ret = ctor_obj
        elif want_ret:
            ret = "__ret_%s_%d" % (t.name.strip("_"), k)
            if ctor_obj is None:
                used.add(ret)
                init = ast.Assign(targets=[ast.Name(id=ret, ctx=ast.Store())], value=ast.Constant(value=None), lineno=ln, col_offset=0)
                init.inline_bind = t.qualname
                pre.append(init)
        body = [copy.deepcopy(s) for s in t.node.body
                if not (isinstance(s, ast.Expr) and isinstance(s.value, ast.Constant) and isinstance(s.value.value, str))]
        if ctor_obj is not None:
            self.obj_forward[ctor_obj] = self._forwarded_fields(root, t, actual)
        ren = _Renamer({a_: b_ for a_, b_ in mapping.items() if a_ != b_})
        body = [ren.visit(s) for s in body]
        if subst_iter:
            class _It(ast.NodeTransformer):
                def visit_For(self_, n):
                    self_.generic_visit(n)
                    if isinstance(n.iter, ast.Name) and n.iter.id in subst_iter:
                        n.iter = copy.deepcopy(subst_iter[n.iter.id])
                    return n
                visit_AsyncFor = visit_For
            body = [_It().visit(s_) for s_ in body]
        # a helper object that merely carries the caller's `self` (or an argument nobody rebinds) in a field it never
        # reassigns: reads of that field are reads of the original
        fo_ = mapping.get(t.node.args.args[0].arg) if is_method and t.node.args.args else None
        if fo_ and fo_.startswith("__fo_"):
            fld = fo_[5:]
            hc = self.field_object(root, fld)
            body = [_FieldObjRewriter(fo_, fld, hc, self.P, self.field_aliases(root, fld)).visit(s_) for s_ in body]
        fw_obj = ctor_obj or (mapping.get(t.node.args.args[0].arg) if is_method and t.node.args.args else None)
        fw = self.obj_forward.get(fw_obj) if fw_obj else None
        if fw:
            body = [_Forwarder(fw_obj, fw, skip_stores=True).visit(s) for s in body]
        for s in body:
            ast.fix_missing_locations(s)
        return pre, body, ret

    @staticmethod
    def _only_iterated_once(fn: ast.AST, p: str) -> bool:
        """Parameter *p* is used exactly once in the function, as the iterable of a ``for`` statement."""
        uses = [n for n in walk_local(fn) if isinstance(n, ast.Name) and n.id == p and isinstance(n.ctx, ast.Load)]
        fors = [n for n in walk_local(fn) if isinstance(n, (ast.For, ast.AsyncFor)) and isinstance(n.iter, ast.Name) and n.iter.id == p]
        return len(uses) == 1 and len(fors) == 1

    def _forwarded_fields(self, root: FuncInfo, init: FuncInfo, actual: Dict[str, ast.AST]) -> Dict[str, ast.AST]:
        """{field: argument expression} for `self.F = <parameter>` statements of a helper class's __init__ whose field is
        assigned nowhere else in the class and whose argument is the caller's `self` or a name the caller never rebinds."""
        out: Dict[str, ast.AST] = {}
        ci = getattr(init, "ctor_of", None)
        if ci is None or not init.node.args.args:
            return out
        me = init.node.args.args[0].arg
        base = getattr(root, "inherited_from", None) or root
        rebound = _assigned_names(base.node)
        stores: Dict[str, int] = {}
        for c in ci.mro:
            for m in c.methods.values():
                for n in walk_local(m.node):
                    if isinstance(n, ast.Attribute) and isinstance(n.ctx, (ast.Store, ast.Del)) and isinstance(n.value, ast.Name) \
                            and m.node.args.args and n.value.id == m.node.args.args[0].arg:
                        stores[n.attr] = stores.get(n.attr, 0) + 1
        for st in init.node.body:
            if isinstance(st, ast.AnnAssign) and st.value is not None:
                tg, val = st.target, st.value
            elif isinstance(st, ast.Assign) and len(st.targets) == 1:
                tg, val = st.targets[0], st.value
            else:
                continue
            if not (isinstance(tg, ast.Attribute) and isinstance(tg.value, ast.Name) and tg.value.id == me and isinstance(val, ast.Name)):
                continue
            if stores.get(tg.attr, 0) != 1:
                continue
            arg = actual.get(val.id)
            if isinstance(arg, ast.Name) and (arg.id in ("self", "cls") or (arg.id in base.params and arg.id not in rebound)):
                out[tg.attr] = arg
        return out

    def splice_yields(self, body: List[ast.stmt], target: Optional[ast.AST], caller_body: List[ast.stmt], kind: str) -> List[ast.stmt]:
        """Replace every ``yield V`` statement by ``target = V`` + the caller's body."""

        class T(ast.NodeTransformer):
            def visit_Expr(self_, n):
                if isinstance(n.value, ast.Yield):
                    stmts: List[ast.stmt] = []
                    v = n.value.value if n.value.value is not None else ast.Constant(value=None)
                    if target is not None:
                        asg = ast.Assign(targets=[copy.deepcopy(target)], value=v, lineno=n.lineno, col_offset=0)
                        stmts.append(asg)
                    else:
                        stmts.append(ast.Expr(value=v, lineno=n.lineno, col_offset=0))
                    stmts.extend(caller_body)
                    return SplicedBody(stmts, kind, n.lineno)
                if isinstance(n.value, ast.YieldFrom) and kind == "for":
                    # `yield from X` hands on every item of X: the caller's body runs once per item
                    tgt = copy.deepcopy(target) if target is not None else ast.Name(id="__yf_item", ctx=ast.Store())
                    loop = ast.For(target=tgt, iter=n.value.value, body=[copy.deepcopy(x) for x in caller_body], orelse=[],
                                   lineno=n.lineno, col_offset=0)
                    ast.fix_missing_locations(loop)
                    return loop
                return n

            def visit_FunctionDef(self_, n):
                return n

            visit_AsyncFunctionDef = visit_FunctionDef
            visit_Lambda = visit_FunctionDef

        tr = T()
        return [tr.visit(s) for s in body]


def has_jump(stmts: List[ast.stmt]) -> bool:
    """return / break / continue that would leave a spliced with-body."""
    def scan(ss, in_loop):
        for s in ss:
            if isinstance(s, ast.Return):
                return True
            if isinstance(s, (ast.Break, ast.Continue)) and not in_loop:
                return True
            if isinstance(s, (ast.FunctionDef, ast.AsyncFunctionDef, ast.ClassDef)):
                continue
            for field in ("body", "orelse", "finalbody"):
                sub = getattr(s, field, None)
                if isinstance(sub, list) and sub and isinstance(sub[0], ast.stmt):
                    if scan(sub, in_loop or isinstance(s, (ast.For, ast.AsyncFor, ast.While))):
                        return True
            for h in getattr(s, "handlers", []) or []:
                if scan(h.body, in_loop):
                    return True
        return False
    return scan(stmts, False)


def yield_is_tail(fn: ast.AST) -> bool:
    """The (single) ``yield`` statement of a context-manager generator is in tail position: nothing runs after it on
    the normal path except leaving the ``with`` / ``try`` statements that enclose it (no ``else`` / ``finally``)."""
    def tail(stmts) -> Optional[bool]:
        """True: contains the yield, in tail position; False: contains it, not tail; None: no yield here."""
        for i, st in enumerate(stmts):
            here = None
            if isinstance(st, ast.Expr) and isinstance(st.value, ast.Yield):
                here = True
            elif isinstance(st, (ast.With, ast.AsyncWith)):
                here = tail(st.body)
            elif isinstance(st, ast.Try):
                here = tail(st.body)
                if here is not None and (st.orelse or st.finalbody):
                    here = False
                for h in st.handlers:
                    if tail(h.body) is not None:
                        here = False
                if tail(st.orelse) is not None or tail(st.finalbody) is not None:
                    here = False
            elif isinstance(st, (ast.If, ast.For, ast.AsyncFor, ast.While)):
                inner = [tail(st.body), tail(st.orelse)]
                if any(x is not None for x in inner):
                    here = False
            if here is not None:
                return here and i == len(stmts) - 1
        return None
    return tail(fn.body) is True
