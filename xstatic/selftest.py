"""Sensitivity self-test of the checker (thorough tier) - see DESIGN.md section 8.

Filled in by xstatic.mutants: AST-computed mutants of /repo's current tree are written to a scratch
copy outside /repo and /verif, the property's rules must fire naming the mutated construct, benign
variants must stay silent.  The result is evidence about the checker; it can turn a run into exit 2
but never into a VIOLATION of the property.
"""

from __future__ import annotations


def run_selftest(prop: str, repo: str, jobs: int = 4, seed: int = 0) -> dict:
    try:
        from . import mutants
    except ImportError:
        return {"mutants": 0, "caught": 0, "skipped": 0, "benign": 0, "benign_silent": 0, "broken": [],
                "note": "no mutant corpus available"}
    return mutants.run(prop, repo, jobs=jobs, seed=seed)
