"""C15 — collection properties read back as written, persist, and stay separate."""

from __future__ import annotations

import ast
from typing import List, Optional, Set, Tuple

from ..core import rule
from ..program import AnalysisError, dotted, src
from ..dataflow import DefUse, origins
from ..core import walk_local  # inline-aware
from .common import where
from .storelib import facts

FILE_MD = "xandikos.store.config.FileBasedCollectionMetadata"
REPO_MD = "xandikos.store.git.RepoCollectionMetadata"
VDIR = "xandikos.store.vdir.VdirStore"
FIELDS = ("color", "comment", "displayname", "description", "order", "source_url", "type")


def _const_at(ctx, fi, du, node, e):
    """Constant value of *e* at *node*: folded directly, or through local names / parameters bound by an inlined call."""
    v = ctx.P.try_fold(fi.module, e)
    if v is not None:
        return v
    if isinstance(e, ast.Name):
        vals = set()
        for o in origins(du, node, e):
            if o.kind != "expr" or o.leaf is None or o.path:
                return None
            c = ctx.P.try_fold(fi.module, o.leaf)
            if c is None:
                return None
            vals.add(c)
        if len(vals) == 1:
            return vals.pop()
    return None


def storage_keys(ctx, fi) -> Set[tuple]:
    """The storage locations a metadata accessor touches, as constant tuples (helpers unknown to the reference
    tree are followed: the accessor's CFG contains their bodies)."""
    out: Set[tuple] = set()
    cfg = ctx.cfg(fi)
    du = DefUse(cfg)
    for node in cfg.stmt_nodes():
        for e in node.exprs():
            for n in ast.walk(e):
                # cp["SECTION"]["option"]   (also: sect = cp["SECTION"]; sect["option"])
                if isinstance(n, ast.Subscript):
                    bases = [n.value]
                    if isinstance(n.value, ast.Name):
                        bases = [o.leaf for o in origins(du, node, n.value) if o.kind == "expr" and o.leaf is not None and not o.path]
                    for b in bases:
                        if isinstance(b, ast.Subscript) and (dotted(b.value) or "").endswith("_configparser"):
                            sec = _const_at(ctx, fi, du, node, b.slice)
                            opt = _const_at(ctx, fi, du, node, n.slice)
                            if isinstance(sec, str) and isinstance(opt, str):
                                out.add(("cp", sec, opt))
                if isinstance(n, ast.Call) and isinstance(n.func, ast.Attribute):
                    recv = dotted(n.func.value) or ""
                    m = n.func.attr
                    if recv.split(".")[-1] in ("config", "cp", "_configparser") and m in ("get", "set", "has_option", "remove_option") and len(n.args) >= 2:
                        a = _const_at(ctx, fi, du, node, n.args[0])
                        b = _const_at(ctx, fi, du, node, n.args[1])
                        if a is not None and b is not None:
                            out.add(("gitconfig", a if not isinstance(a, tuple) else a, b))
                    if m in ("_read_metadata", "_write_metadata") and n.args:
                        a = _const_at(ctx, fi, du, node, n.args[0])
                        if isinstance(a, str):
                            out.add(("file", a))
                    if recv.endswith("_repo") and m in ("get_description", "set_description"):
                        out.add(("repo-description",))
                    if recv.endswith(".config") and m.startswith(("get_", "set_")):
                        out.add(("delegate", m[4:]))
    return out


@rule("C15", "M1", floor=14, kind="S",
      desc="reader/writer key agreement: for each metadata back end and field, get_X reads exactly the storage "
           "location set_X writes (and deletes)")
def m1(ctx):
    obs = []
    for cq in (FILE_MD, REPO_MD, VDIR):
        ci = ctx.P.cls(cq)
        n = 0
        for fld in FIELDS:
            g = ci.methods.get("get_" + fld)
            s = ci.methods.get("set_" + fld)
            if g is None or s is None:
                continue
            ctx.functions_analysed.update([g.qualname, s.qualname])
            gk, sk = storage_keys(ctx, g), storage_keys(ctx, s)
            if not gk and not sk:
                continue  # NotImplemented stubs
            n += 1
            ok = gk == sk and bool(gk)
            obs.append(ctx.ob(ok, cq + "." + fld, where(s, s.node), "get_%s/set_%s use the same storage key" % (fld, fld),
                              "both use %s" % sorted(gk),
                              "%s.get_%s reads %s but set_%s writes %s: a value that was set is not the one read back"
                              % (ci.name, fld, sorted(gk) or "nothing", fld, sorted(sk) or "nothing")))
        if n == 0:
            raise AnalysisError("%s: no get_/set_ pairs found" % cq)
    return obs


def _save_nodes(ctx, fi):
    F = facts(ctx)
    cfg = ctx.cfg(fi)
    out = []
    for n in cfg.stmt_nodes():
        if F.node_mutations(fi, n):
            out.append(n)
            continue
        for c in n.calls():
            if dotted(c.func) in ("self._save", "self._save_cb"):
                out.append(n)
    return out


@rule("C15", "M2", floor=14, kind="S",
      desc="every setter persists: each normal exit of every set_* of a persistent back end passes through its save "
           "routine, and the save callbacks handed to FileBasedCollectionMetadata write to storage")
def m2(ctx):
    F = facts(ctx)
    obs = []
    for cq in (FILE_MD, REPO_MD):
        ci = ctx.P.cls(cq)
        setters = [f for nm, f in ci.methods.items() if nm.startswith("set_")]
        if len(setters) < 6:
            raise AnalysisError("%s: only %d setters" % (cq, len(setters)))
        for f in setters:
            cfg = ctx.cfg(f)
            ctx.functions_analysed.add(f.qualname)
            saves = _save_nodes(ctx, f)
            ok = bool(saves) and cfg.normal_completion_dominates(saves, cfg.exit)
            obs.append(ctx.ob(ok, f.qualname, f.where, "%s persists" % f.name,
                              "every normal exit passes `%s`" % (" / ".join(sorted({s.text()[:40] for s in saves}))),
                              "%s can return without saving: the change is acknowledged and lost (GitStore.config rebuilds the "
                              "metadata object from the repository on every access)" % f.short))
    # _save forwards to the callback
    sv = ctx.own_method(FILE_MD, "_save")
    fw = bool(_callback_calls(ctx, sv, need_parser=True))
    obs.append(ctx.ob(fw, sv.qualname, sv.where, "_save forwards the parser to the callback", "self._save_cb(self._configparser, message)",
                      "FileBasedCollectionMetadata._save no longer calls the save callback with the parser"))
    # construction sites pass a saving callback
    sites = 0
    from .common import metadata_savers
    for fi, n, obj in metadata_savers(ctx):
        sites += 1
        ok = False
        why = "no (resolvable) save= argument"
        if obj is not None:
            cfgc = ctx.cfg(obj)
            ok = any(F.node_mutations(obj, m) for m in cfgc.stmt_nodes())
            why = "callback %s %s" % (obj.short, "writes to storage" if ok else "does not write anything")
        obs.append(ctx.ob(ok, fi.qualname, "%s:%d" % (fi.module.rel, n.lineno), "metadata object gets a saving callback", why,
                          "FileBasedCollectionMetadata is constructed in %s with %s: setters cannot persist" % (fi.short, why)))
    if sites < 2:
        raise AnalysisError("expected 2 construction sites of FileBasedCollectionMetadata in the stores, found %d" % sites)
    return obs


@rule("C15", "M3", floor=4, kind="S",
      desc="the file format is value-transparent: every ConfigParser backing collection metadata is built with "
           "interpolation=None")
def m3(ctx):
    obs = []
    for fi in ctx.P.all_funcs():
        if ctx.absorbed(fi):
            continue
        if not fi.module.name.startswith("xandikos.store"):
            continue
        for n in walk_local(fi.node):
            if isinstance(n, ast.Call) and (dotted(n.func) or "").split(".")[-1] in ("ConfigParser", "RawConfigParser", "SafeConfigParser"):
                kw = {k.arg: k.value for k in n.keywords}
                last = (dotted(n.func) or "").split(".")[-1]
                ok = last == "RawConfigParser" or ("interpolation" in kw and isinstance(kw["interpolation"], ast.Constant) and kw["interpolation"].value is None)
                # options that change how a stored value is read back (the writer, ConfigParser.write, knows none of them)
                lossy = sorted(k for k in kw if k in ("inline_comment_prefixes", "comment_prefixes", "delimiters", "empty_lines_in_values", "converters", "allow_no_value")
                               and not (isinstance(kw[k], ast.Constant) and kw[k].value in (None, False)))
                obs.append(ctx.ob(not lossy, fi.qualname, "%s:%d" % (fi.module.rel, n.lineno), "ConfigParser reads values as written",
                                  "no reader-side option that the writer does not mirror",
                                  "`%s` sets %s: the parser strips or splits parts of a value that ConfigParser.write() stored verbatim, so a value containing "
                                  "such characters reads back truncated" % (src(n)[:80], ", ".join(lossy))))
                obs.append(ctx.ob(ok, fi.qualname, "%s:%d" % (fi.module.rel, n.lineno), "ConfigParser without interpolation",
                                  "interpolation=None", "`%s` uses BasicInterpolation: a stored '%%%%' reads back as '%%' and a lone '%%' is refused"
                                  % src(n)))
    return obs


SETTABLE = [
    ("xandikos.webdav.DisplayNameProperty", None),
    ("xandikos.webdav.CommentProperty", None),
    ("xandikos.caldav.CalendarColorProperty", None),
    ("xandikos.caldav.CalendarOrderProperty", None),
    ("xandikos.carddav.AddressbookDescriptionProperty", None),
    ("xandikos.infit.AddressbookColorProperty", None),
]


def _class_str_attr(ci, attr: str) -> Optional[str]:
    for c in ci.mro:
        v = c.attrs.get(attr)
        if isinstance(v, ast.Constant) and isinstance(v.value, str):
            return v.value
        if v is not None:
            return None
    return None


def _resource_calls(fi, prefix: str, ci=None):
    """[(method name, call)] for `resource.<prefix>X(...)` in *fi*, including the reflective spelling
    `getattr(resource, self.<attr>)(...)` with <attr> a class-level string constant of *ci*."""
    rparam = fi.params[2] if len(fi.params) > 2 else "resource"
    out = []
    for n in walk_local(fi):
        if not isinstance(n, ast.Call):
            continue
        if isinstance(n.func, ast.Attribute) and dotted(n.func.value) == rparam and n.func.attr.startswith(prefix):
            out.append((n.func.attr, n))
        f = n.func
        if isinstance(f, ast.Call) and dotted(f.func) == "getattr" and len(f.args) == 2 and dotted(f.args[0]) == rparam:
            nm = None
            if isinstance(f.args[1], ast.Constant) and isinstance(f.args[1].value, str):
                nm = f.args[1].value
            elif isinstance(f.args[1], ast.Attribute) and dotted(f.args[1].value) == "self" and ci is not None:
                nm = _class_str_attr(ci, f.args[1].attr)
            if nm and nm.startswith(prefix):
                out.append((nm, n))
    return out


def _single_resource_call(fi, prefix: str, ci=None) -> Optional[str]:
    names = [nm for nm, _c in _resource_calls(fi, prefix, ci)]
    return names[0] if len(names) == 1 else None


def _delegate(fi) -> Optional[Tuple[str, str]]:
    """(receiver, method) of the accessor call a resource/store method delegates to."""
    found = []
    for n in walk_local(fi.node):
        if isinstance(n, ast.Call) and isinstance(n.func, ast.Attribute):
            recv = dotted(n.func.value) or ""
            if recv in ("self.store", "self.config", "self.store.config") and n.func.attr.startswith(("get_", "set_")):
                found.append((recv, n.func.attr))
    return found[0] if len(found) == 1 else None


@rule("C15", "M4", floor=10, kind="S",
      desc="wiring: for each settable property, set_value and get_value go through accessor pairs that end at the "
           "same metadata field in every concrete collection class")
def m4(ctx):
    obs = []
    sbc = ctx.P.cls("xandikos.web.StoreBasedCollection")
    concrete = [sbc] + sbc.all_subclasses()
    for pq, _ in SETTABLE:
        pc = ctx.P.cls(pq)
        if ctx.P.lookup_method(pc, "get_value") is None or ctx.P.lookup_method(pc, "set_value") is None:
            raise AnalysisError("%s lacks get_value/set_value" % pq)
        gv, sv = ctx.home_method(pq, "get_value"), ctx.home_method(pq, "set_value")
        g = _single_resource_call(gv, "get_", pc)
        s = _single_resource_call(sv, "set_", pc)
        ok = g is not None and s is not None and g[4:] == s[4:]
        obs.append(ctx.ob(ok, pq, "%s:%d" % (pc.module.rel, pc.node.lineno), "property get/set use the same resource accessor",
                          "resource.%s / resource.%s" % (g, s),
                          "%s reads resource.%s but writes resource.%s" % (pc.name, g, s)))
        if not ok:
            continue
        # follow into every concrete class that defines the setter
        for ci in concrete:
            sm = ctx.P.lookup_method(ci, s)
            gm = ctx.P.lookup_method(ci, g)
            if sm is None or gm is None or sm.cls is None or not sm.module.name == "xandikos.web":
                continue
            if sm.cls is not ci and gm.cls is not ci:
                continue  # inherited: checked at the defining class
            sd, gd = _delegate(sm), _delegate(gm)
            if sd is None and gd is None:
                continue
            ok2 = sd is not None and gd is not None and sd[0] == gd[0] and sd[1][4:] == gd[1][4:]
            obs.append(ctx.ob(ok2, ci.qualname + "." + s, sm.where, "%s/%s delegate to the same store field" % (g, s),
                              "%s.%s / %s.%s" % ((gd or ("?", "?"))[0], (gd or ("?", "?"))[1], (sd or ("?", "?"))[0], (sd or ("?", "?"))[1]),
                              "%s.%s stores through %s but %s reads through %s: the property is wired to two different fields"
                              % (ci.name, s, sd, g, gd)))
    # store level: GitStore.get_X / set_X -> config.get_X / set_X
    gs = ctx.P.cls("xandikos.store.git.GitStore")
    n = 0
    for fld in FIELDS:
        sm, gm = gs.methods.get("set_" + fld), gs.methods.get("get_" + fld)
        if sm is None or gm is None:
            continue
        sd, gd = _delegate(sm), _delegate(gm)
        if sd is None and gd is None:
            continue
        n += 1
        ok = sd is not None and gd is not None and sd[1] == "set_" + fld and gd[1] == "get_" + fld and sd[0] == gd[0] == "self.config"
        obs.append(ctx.ob(ok, gs.qualname + "." + fld, sm.where, "GitStore.%s accessors delegate to config.%s" % (fld, fld),
                          "config.%s / config.%s" % ((gd or ("", "?"))[1], (sd or ("", "?"))[1]),
                          "GitStore.get_%s uses %s but set_%s uses %s" % (fld, gd, fld, sd)))
    if n < 4:
        raise AnalysisError("GitStore: only %d delegating accessor pairs found" % n)
    return obs


@rule("C15", "M5", floor=2, kind="S",
      desc="stay separate: the parser object handed to FileBasedCollectionMetadata is constructed afresh in that very "
           "access (never obtained from a function that may hand out a shared or cached object)")
def m5(ctx):
    from ..dataflow import DefUse
    obs = []
    for fi in ctx.P.all_funcs():
        if ctx.absorbed(fi):
            continue
        if not fi.module.name.startswith("xandikos.store") or (fi.cls is not None and fi.cls.qualname == FILE_MD):
            continue
        cfg = None
        for n0 in walk_local(fi.node):
            if isinstance(n0, ast.Call) and (dotted(n0.func) or "").split(".")[-1] == "FileBasedCollectionMetadata" and n0.args:
                cfg = cfg or ctx.cfg(fi)
                du = DefUse(cfg)
                node = [n for n in cfg.stmt_nodes() if n0 in n.calls()]
                if not node or not isinstance(n0.args[0], ast.Name):
                    continue
                defs = du.reaching(node[0], n0.args[0].id)
                bad = [src(d.value) for d in defs if not (isinstance(d.value, ast.Call) and (dotted(d.value.func) or "").split(".")[-1] in ("ConfigParser", "RawConfigParser"))]
                obs.append(ctx.ob(not bad and bool(defs), fi.qualname, "%s:%d" % (fi.module.rel, n0.lineno), "metadata parser is constructed in place",
                                  "cp = configparser.ConfigParser(...) in the same function",
                                  "the parser given to FileBasedCollectionMetadata comes from `%s`: setters mutate it in place, so if that call can return the "
                                  "same object twice (cache, module-level object) a property set on one collection shows up on another / an old value reappears"
                                  % (bad[0] if bad else "?")))
    return obs


@rule("C15", "M6", floor=1, kind="S",
      desc="success is reported only if the setter ran: in apply_modify_prop a '200 OK' status is assigned only after "
           "set_value completed normally")
def m6(ctx):
    fi = ctx.func("xandikos.webdav.apply_modify_prop")
    cfg = ctx.cfg(fi)
    sets = [n for n in cfg.stmt_nodes() for c in n.calls() if isinstance(c.func, ast.Attribute) and c.func.attr == "set_value"]
    if not sets:
        raise AnalysisError("apply_modify_prop no longer calls set_value")
    oks = [n for n in cfg.stmt_nodes() if n.kind == "stmt" and isinstance(n.ast, ast.Assign) and isinstance(ctx.P.try_fold(fi.module, n.ast.value), str)
           and ctx.P.try_fold(fi.module, n.ast.value).startswith("200")]
    lits = [n for n in cfg.stmt_nodes() for c in n.calls() if (dotted(c.func) or "").split(".")[-1] == "PropStatus" and c.args
            and isinstance(ctx.P.try_fold(fi.module, c.args[0]), str) and ctx.P.try_fold(fi.module, c.args[0]).startswith("200")]
    if not oks and not lits:
        raise AnalysisError("apply_modify_prop: no '200 OK' status found")
    obs = []
    for n in oks + lits:
        ok = cfg.normal_completion_dominates(sets, n)
        obs.append(ctx.ob(ok, fi.qualname, where(fi, n), "'200 OK' only after set_value completed", "status assigned on the success path of set_value",
                          "`%s` can be reached without handler.set_value() having completed: a property that is not supported on the resource (or was "
                          "skipped) is reported as successfully set although nothing was stored" % n.text()[:50]))
    return obs


@rule("C15", "M7", floor=8, kind="S",
      desc="read back as written: the web-layer and store-layer setters hand the value down unchanged (the argument "
           "of the delegated set_* call is the setter's own parameter)")
def m7(ctx):
    from ..dataflow import DefUse
    obs = []
    sbc = ctx.P.cls("xandikos.web.StoreBasedCollection")
    classes = [sbc] + sbc.all_subclasses() + [ctx.P.cls("xandikos.store.git.GitStore")]
    for ci in classes:
        for nm, f in ci.methods.items():
            if not nm.startswith("set_") or len(f.params) != 2:
                continue
            cfg = ctx.cfg(f)
            du = DefUse(cfg)
            for n in cfg.stmt_nodes():
                for c in n.calls():
                    if not (isinstance(c.func, ast.Attribute) and c.func.attr.startswith("set_") and (dotted(c.func.value) or "") in ("self.store", "self.config", "self.store.config")):
                        continue
                    if c.func.attr in ("set_type",):
                        continue
                    a = c.args[0] if c.args else None
                    ok = isinstance(a, ast.Name) and a.id == f.params[1] and all(d.kind == "param" for d in du.reaching(n, a.id))
                    obs.append(ctx.ob(ok, f.qualname, where(f, n), "%s passes its value on unchanged" % nm, "argument is the parameter `%s`" % f.params[1],
                                      "%s hands `%s` to %s, not the value it was given: what PROPFIND returns afterwards is not what was set" % (f.short, src(a) if a is not None else "?", c.func.attr)))
    return obs


@rule("C15", "M8", floor=3, kind="S",
      desc="read back as written (reader side): a web-layer getter reports a stored value as 'not set' (KeyError) only "
           "when it is absent/empty - never because of a predicate on its content")
def m8(ctx):
    obs = []
    sbc = ctx.P.cls("xandikos.web.StoreBasedCollection")
    n_getters = 0
    for ci in [sbc] + sbc.all_subclasses():
        for nm, fi in ci.methods.items():
            if not nm.startswith("get_") or ctx.absorbed(fi):
                continue
            cfg = ctx.cfg(fi)
            du = DefUse(cfg)
            # values fetched from the store's metadata
            fetched = set()
            for n in cfg.stmt_nodes():
                a = n.ast
                if n.kind == "stmt" and isinstance(a, ast.Assign) and len(a.targets) == 1 and isinstance(a.targets[0], ast.Name) and isinstance(a.value, ast.Call) \
                        and (dotted(a.value.func) or "").startswith("self.store.") and (dotted(a.value.func) or "").split(".")[-1].startswith("get_"):
                    fetched.add(a.targets[0].id)
            raises = [n for n in cfg.nodes if n.kind == "raise" and n.extra.get("exc") == "KeyError"]
            if not fetched or not raises:
                continue
            n_getters += 1
            bad = []
            for t in [x for x in cfg.nodes if x.kind == "test"]:
                names = {x.id for x in ast.walk(t.ast) if isinstance(x, ast.Name)}
                if not (names & fetched):
                    continue
                e = t.ast
                presence = isinstance(e, ast.Name) or (isinstance(e, ast.Compare) and len(e.ops) == 1 and isinstance(e.left, ast.Name)
                                                        and isinstance(e.comparators[0], ast.Constant) and e.comparators[0].value in (None, "", b""))
                if presence:
                    continue
                reach = {l: cfg.reachable([m for m, l2 in t.succ if l2 == l]) for l in ("t", "f")}
                for r in raises:
                    if (r.id in reach["t"]) != (r.id in reach["f"]):
                        bad.append(t)
            obs.append(ctx.ob(not bad, fi.qualname, fi.where, "%s: 'not set' only when absent" % nm,
                              "KeyError is conditioned on presence tests only",
                              "%s raises KeyError depending on `%s`, a predicate on the content of the stored value: a value that was accepted and stored "
                              "(PROPPATCH answered 200) is reported as not set" % (fi.short, src(bad[0].ast) if bad else "")))
    if n_getters < 3:
        raise AnalysisError("only %d store-backed getters that can raise KeyError found" % n_getters)
    return obs


@rule("C15", "M10", floor=5, kind="N",
      desc="what PROPFIND reads is what the last successful PROPPATCH stored: the tree store reads .xandikos through "
           "the index and the object store, never from the working-tree file (same obligations as C04/B2) - the file is "
           "written before the commit, so a failed PROPPATCH would become visible")
def m10(ctx):
    from .c04 import b2
    return b2(ctx)


@rule("C15", "M9", floor=5, kind="S",
      desc="properties stay separate (writer side): a store-level setter of one property forwards to the metadata back "
           "end's setter of that property and writes nothing else (the git-config back end keeps the description in "
           ".git/description: a display-name setter that also writes it overwrites another property)")
def m9(ctx):
    obs = []
    gs = ctx.P.cls("xandikos.store.git.GitStore")
    n = 0
    for nm, _f in sorted(gs.methods.items()):
        if not nm.startswith("set_"):
            continue
        f = ctx.own_method(gs.qualname, nm)
        cfg = ctx.cfg(f)
        setters = [(x, c) for x in cfg.stmt_nodes() for c in x.calls() if isinstance(c.func, ast.Attribute)
                   and (c.func.attr.startswith("set_") or c.func.attr in ("write", "write_to_path", "do_commit"))]
        # the forwarding call is `<metadata back end>.<same setter>(...)`, however the back end object is obtained
        # (the `config` property, a method returning it, a local)
        foreign = [src(c)[:60] for _x, c in setters if c.func.attr != nm]
        n += 1
        obs.append(ctx.ob(bool(setters) and not foreign, f.qualname, f.where, "%s writes its own property only" % nm,
                          "self.config.%s(...) and nothing else" % nm,
                          "GitStore.%s also calls `%s`: setting one property changes the stored value of another" % (nm, foreign[0] if foreign else "nothing")))
    if n < 5:
        raise AnalysisError("only %d GitStore setters found" % n)
    return obs


def write_error_obligations(ctx):
    """A write that failed is reported as failed: in the store's write functions a handler for OSError (or wider) never
    completes normally - every path through it raises."""
    from .common import handler_body_nodes
    obs = []
    n = 0
    WIDE = {"OSError", "IOError", "EnvironmentError", "Exception", "BaseException"}
    for cq, m in (("xandikos.store.git.TreeGitStore", "_import_one"), ("xandikos.store.git.BareGitStore", "_import_one"),
                  ("xandikos.store.git.GitStore", "import_one"), ("xandikos.store.vdir.VdirStore", "import_one"),
                  ("xandikos.store.git.TreeGitStore", "delete_one"), ("xandikos.store.git.BareGitStore", "delete_one"),
                  ("xandikos.store.vdir.VdirStore", "delete_one"), ("xandikos.store.vdir.VdirStore", "_write_metadata")):
        f = ctx.own_method(cq, m)
        cfg = ctx.cfg(f)
        n += 1
        for h in cfg.handlers:
            if h.types is not None and not (set(h.types) & WIDE):
                continue
            body = {b.id for b in handler_body_nodes(cfg, h)}
            r = cfg.reachable([x for x, l in h.entry.succ if l != "exc"], follow_exc=False)
            leaks = [x for x in cfg.nodes if x.id in r and x.id not in body and x.kind not in ("raise_exit",)]
            obs.append(ctx.ob(not leaks, f.qualname, where(f, h.entry), "`except %s` re-raises" % "/".join(h.types or ["<bare>"]),
                              "no normal completion of the handler",
                              "the `except %s` handler of %s can complete normally: an I/O error during the write is swallowed, the caller "
                              "reports success for a value that was never stored" % ("/".join(h.types or ["<bare>"]), f.short)))
    if n < 8:
        raise AnalysisError("write functions not found")
    if not obs:
        raise AnalysisError("no wide exception handler found in the store write functions (confirmed: 1)")
    return obs


@rule("C15", "M11", floor=1, kind="S",
      desc="a PROPPATCH that reports success stored the value: I/O errors during the write of .xandikos are not swallowed "
           "(the `except OSError` of the write functions always raises), and every metadata setter reaches its "
           "assignment and its save on every path on which a value was given")
def m11(ctx):
    obs = list(write_error_obligations(ctx))
    ci = ctx.P.cls("xandikos.store.config.FileBasedCollectionMetadata")
    for nm in sorted(ci.methods):
        if not nm.startswith("set_"):
            continue
        f = ctx.own_method(ci.qualname, nm)
        cfg = ctx.cfg(f)
        du = DefUse(cfg)
        pv = [p for p in f.params if p not in ("self",)]
        if not pv:
            continue
        p = pv[0]
        from ..dataflow import depends_on
        stores = [x for x in cfg.stmt_nodes() if x.kind == "stmt" and isinstance(x.ast, ast.Assign) and any(isinstance(t, ast.Subscript) for t in x.ast.targets)
                  and p in depends_on(du, x, x.ast.value)]
        if not stores:
            continue
        # block the paths on which no value was given (`p is None` / falsy) and the stores: the normal exit must then be
        # unreachable - also through exception handlers
        from .common import test_polarity_absent
        blocked = [(x, m_, l) for x in stores for m_, l in x.succ if l != "exc"]
        for t in cfg.nodes:
            if t.kind == "test":
                lab = test_polarity_absent(t.ast, p)
                if not lab:
                    # the same test on a local that holds the parameter (a helper's parameter after splicing)
                    x = t.ast.left if isinstance(t.ast, ast.Compare) else t.ast
                    if isinstance(x, ast.Name) and x.id != p:
                        os_ = origins(du, t, x)
                        if os_ and all(o.kind == "param" and o.name == p and not o.path for o in os_):
                            import copy as _copy
                            t2 = _copy.deepcopy(t.ast)
                            (t2.left if isinstance(t2, ast.Compare) else t2).id = p
                            lab = test_polarity_absent(t2, p)
                if lab:
                    blocked += [(t, m_, l) for m_, l in t.succ if l == lab]
        r = cfg.reachable([cfg.entry], block_edges=blocked)
        obs.append(ctx.ob(cfg.exit.id not in r, f.qualname, f.where, "%s stores the given value on every path" % nm,
                          "no path to the normal exit bypasses the assignment",
                          "FileBasedCollectionMetadata.%s can return normally without having stored the value it was given (e.g. through an "
                          "exception handler that covers the assignment): PROPPATCH answers 200 OK and PROPFIND still shows the old value" % nm))
    return obs


@rule("C15", "M12", floor=2, kind="N",
      desc="a property write answered with success is the value later reads return: the metadata file is stored through "
           "_import_one, which returns normally only after the commit or when the new content equals the published "
           "(index / tree) entry (same obligations as C01/W2) - readers serve .xandikos from the index, so 'the working "
           "copy already has it' acknowledges the retry of a failed PROPPATCH without storing anything")
def m12(ctx):
    from .c01 import w2
    return w2(ctx)


@rule("C15", "M13", floor=1, kind="S",
      desc="the reader of .xandikos cuts lines where the writer ended them: ConfigParser.write() terminates lines with "
           "'\\n' only, so the stored text reaches the parser whole (read_string / a StringIO) or split on '\\n' - "
           "str.splitlines() also breaks at U+2028, U+2029, U+0085, VT, FF ..., which a display name or comment may "
           "contain: the value reads back cut or the file no longer parses")
def m13(ctx):
    from .common import string_leaves
    fi = ctx.own_method("xandikos.store.git.GitStore", "config")
    cfg = ctx.cfg(fi)
    du = DefUse(cfg)
    obs = []
    for n in cfg.stmt_nodes():
        for c in n.calls():
            if isinstance(c.func, ast.Attribute) and c.func.attr in ("read_string", "read_file", "read_dict") and c.args:
                # every expression the argument is computed from
                seen_exprs = []
                todo = [(n, c.args[0], 0)]
                while todo:
                    at, e, dp = todo.pop()
                    if dp > 6:
                        continue
                    seen_exprs.append(e)
                    for x in ast.walk(e):
                        if isinstance(x, ast.Name) and isinstance(x.ctx, ast.Load):
                            for o in origins(du, at, x):
                                if o.kind == "expr" and o.leaf is not None and o.leaf is not x and o.node is not None:
                                    todo.append((o.node, o.leaf, dp + 1))
                bad = [x for e in seen_exprs for x in ast.walk(e) if isinstance(x, ast.Call) and isinstance(x.func, ast.Attribute) and x.func.attr == "splitlines"
                       and not (x.args or x.keywords) or (isinstance(x, ast.Call) and isinstance(x.func, ast.Attribute) and x.func.attr == "split" and not x.args)]
                obs.append(ctx.ob(not bad, fi.qualname, "%s:%d" % (fi.module.rel, n.lineno), "stored text reaches the parser with the writer's line ends",
                                  "%s(<decoded file>)" % c.func.attr,
                                  "the text of .xandikos is cut with `%s` before it is parsed: that also breaks lines at U+2028 / U+2029 / U+0085 / "
                                  "form feed, which ConfigParser.write() stored inside a value - a display name or comment containing one is "
                                  "acknowledged and then reads back changed, or every later read fails with ParsingError" % (src(bad[0])[:50] if bad else "")))
    if not obs:
        raise AnalysisError("GitStore.config: no ConfigParser.read_string/read_file call found")
    return obs


def _callback_calls(ctx, sv, need_parser=False):
    """CFG nodes of _save that call the save callback: `self._save_cb(...)`, or a local bound to it."""
    cfg = ctx.cfg(sv)
    du = DefUse(cfg)
    out = []
    for n in cfg.stmt_nodes():
        for c in n.calls():
            is_cb = dotted(c.func) == "self._save_cb"
            if not is_cb and isinstance(c.func, ast.Name):
                os_ = origins(du, n, c.func)
                is_cb = bool(os_) and all(o.kind == "expr" and not o.path and dotted(o.leaf) == "self._save_cb" for o in os_)
            if is_cb and (not need_parser or (c.args and dotted(c.args[0]) == "self._configparser")):
                out.append(n)
    return out


def _is_callback_expr(du, node, e) -> bool:
    if isinstance(e, ast.Attribute) and e.attr == "_save_cb":
        return True
    if isinstance(e, ast.Name):
        os_ = origins(du, node, e)
        return bool(os_) and all(o.kind == "expr" and not o.path and dotted(o.leaf) == "self._save_cb" for o in os_)
    return False


@rule("C15", "M14", floor=1, kind="S",
      desc="every acknowledged change of the metadata file is saved: FileBasedCollectionMetadata._save hands the parser to the "
           "save callback on every path - a shortcut for an 'empty' configuration acknowledges the removal of the last "
           "property without storing it, and the old value keeps being served")
def m14(ctx):
    fi = ctx.own_method("xandikos.store.config.FileBasedCollectionMetadata", "_save")
    cfg = ctx.cfg(fi)
    calls = _callback_calls(ctx, fi)
    du = DefUse(cfg)
    if not calls:
        raise AnalysisError("FileBasedCollectionMetadata._save: call of the save callback not found")
    blocked = [(c, m, l) for c in calls for m, l in c.succ if l != "exc"]
    # 'no callback configured' (an in-memory metadata object) is the one excuse: the side of a test of the callback itself
    # on which it is absent
    for t in cfg.nodes:
        if t.kind != "test":
            continue
        e, neg = t.ast, False
        if isinstance(e, ast.UnaryOp) and isinstance(e.op, ast.Not):
            e, neg = e.operand, True
        absent_label = None
        if isinstance(e, ast.Compare) and len(e.ops) == 1 and _is_callback_expr(du, t, e.left) \
                and isinstance(e.comparators[0], ast.Constant) and e.comparators[0].value is None:
            absent_label = "t" if isinstance(e.ops[0], ast.Is) else "f"
        elif _is_callback_expr(du, t, e):
            absent_label = "f"
        if absent_label is not None:
            if neg:
                absent_label = "f" if absent_label == "t" else "t"
            blocked.extend((t, m, l) for m, l in t.succ if l == absent_label)
    r = cfg.reachable([cfg.entry], block_edges=blocked, follow_exc=False)
    ok = cfg.exit.id not in r
    return [ctx.ob(ok, fi.qualname, fi.where, "_save always reaches the save callback", "every normal path calls the callback",
                   "FileBasedCollectionMetadata._save can return without calling the save callback: the setter that called it answers "
                   "success (PROPPATCH 200) although nothing was written, and PROPFIND keeps returning the old value, also after a restart")]


@rule("C15", "M15", floor=5, kind="S",
      desc="a value that was sent is stored: in the set_value of every settable property the resource setter receives None "
           "(= remove) only where the request element is None - never because the value is falsy ('0' parsed to 0, an empty "
           "string), which would turn a set into a removal that is answered with success")
def m15(ctx):
    obs = []
    for pq, _ in SETTABLE:
        fi = ctx.home_method(pq, "set_value")
        cfg = ctx.cfg(fi)
        du = DefUse(cfg)
        el = fi.params[3] if len(fi.params) > 3 else "el"
        reflective = {id(c) for _nm, c in _resource_calls(fi, "set_", ctx.P.cls(pq))}     # also getattr(resource, self.<attr>)(...)
        for n in cfg.stmt_nodes():
            for c in n.calls():
                if not ((isinstance(c.func, ast.Attribute) and c.func.attr.startswith("set_") or id(c) in reflective) and c.args):
                    continue
                bad = None
                for o in origins(du, n, c.args[0]):
                    if o.is_none():
                        for cond in getattr(o, "conds", []):
                            t = cond[0]
                            t = t.operand if isinstance(t, ast.UnaryOp) and isinstance(t.op, ast.Not) else t
                            if isinstance(t, (ast.Name, ast.Attribute)) and dotted(t) != el:
                                bad = t
                obs.append(ctx.ob(bad is None, fi.qualname, "%s:%d" % (fi.module.rel, n.lineno), "None is forwarded only for a missing element",
                                  "%s" % src(c)[:60],
                                  "%s passes None to `%s` whenever `%s` is falsy: a value such as 0 (or an empty text) that the client set is turned "
                                  "into a removal - PROPPATCH answers 200 and PROPFIND then says the property does not exist"
                                  % (fi.short, src(c.func), src(bad) if bad is not None else "")))
    if len(obs) < 5:
        raise AnalysisError("only %d setter calls found in the set_value methods of the settable properties" % len(obs))
    return obs
