"""C02 — ETags are strong validators and agree across every view of a resource."""

from __future__ import annotations

import ast

from ..core import rule
from ..dataflow import DefUse, origins
from ..program import AnalysisError, dotted, src
from ..core import walk_local  # inline-aware
from .common import unwrap_await, where

WEB = "xandikos.web"
OBJ = WEB + ".ObjectResource"
SBC = WEB + ".StoreBasedCollection"


def _origin(du, n, e, depth=0):
    """Where expression e (at node n) gets its value: [(kind, leaf expression | parameter name, index path)]
    (generic value-origin walk: local names, constant subscripts, inlined helpers)."""
    out = []
    for o in origins(du, n, unwrap_await(e)):
        if o.kind == "param":
            out.append(("param", o.name, o.path))
        elif o.kind in ("expr", "elem") and o.leaf is not None:
            out.append(("expr", unwrap_await(o.leaf), o.path))
        else:
            out.append((o.kind, None, o.path))
    return out


def _is_call_to(v, names):
    v = unwrap_await(v)
    if isinstance(v, ast.Call):
        d = dotted(v.func) or ""
        if d.split(".")[-1] in names:
            return True
        if d in ("to_thread", "asyncio.to_thread") and v.args and (dotted(v.args[0]) or "").split(".")[-1] in names:
            return True
    return False


@rule("C02", "E1", floor=5, kind="S",
      desc="single producer: quoted ETags are built only by create_strong_etag, from ObjectResource.etag, from the "
           "etag component store.import_one returned, or from store.get_ctag()")
def e1(ctx):
    obs = []
    # who builds '"' + x + '"'
    builders = []
    for fi in ctx.P.all_funcs():
        if ctx.absorbed(fi):
            continue
        for n in walk_local(fi.node):
            if isinstance(n, ast.BinOp) and isinstance(n.op, ast.Add):
                if any(isinstance(s, ast.Constant) and s.value == '"' for s in (n.left, n.right)):
                    builders.append(fi)
            if isinstance(n, ast.JoinedStr) and any(isinstance(v, ast.Constant) and isinstance(v.value, str) and v.value.startswith('"') for v in n.values) \
                    and any(isinstance(v, ast.FormattedValue) and "etag" in src(v.value).lower() for v in n.values):
                builders.append(fi)
    bset = sorted({b.qualname for b in builders})
    obs.append(ctx.ob(bset == [WEB + ".create_strong_etag"], WEB + ".create_strong_etag", ctx.func(WEB + ".create_strong_etag").where,
                      "only create_strong_etag quotes an etag", "quoting happens in %s" % bset,
                      "quoted strings are also built in %s: an ETag can be produced outside create_strong_etag" % [b for b in bset if not b.endswith("create_strong_etag")]))
    sites = []
    for fi in ctx.P.all_funcs():
        if ctx.absorbed(fi):
            continue
        cfg = None
        for n in walk_local(fi.node):
            if isinstance(n, ast.Call) and (dotted(n.func) or "").split(".")[-1] == "create_strong_etag":
                sites.append(fi)
    sites = sorted({s.qualname: s for s in sites}.values(), key=lambda f: f.qualname)
    if len(sites) < 4:
        raise AnalysisError("only %d callers of create_strong_etag (confirmed: 4)" % len(sites))
    for fi in sites:
        cfg = ctx.cfg(fi)
        du = DefUse(cfg)
        for n in cfg.stmt_nodes():
            for c in n.calls():
                if (dotted(c.func) or "").split(".")[-1] != "create_strong_etag" or not c.args:
                    continue
                a = c.args[0]
                ok, how = False, src(a)
                if fi.cls is not None and fi.cls.qualname == OBJ and (dotted(a) == "self.etag" or (lambda og: bool(og) and all(
                        k == "expr" and dotted(v) == "self.etag" and not idx for k, v, idx in og))(_origin(du, n, a))):
                    ok, how = True, "ObjectResource.etag"       # directly, or through a local
                elif (lambda og: bool(og) and all(k == "expr" and isinstance(v, ast.Call) and dotted(v.func) == "self.store.get_ctag" and not idx
                                                  for k, v, idx in og))(_origin(du, n, a)):
                    ok, how = True, "store.get_ctag()"
                else:
                    org = _origin(du, n, a)
                    ok = bool(org) and all(k == "expr" and _is_call_to(v, {"import_one"}) and idx == (1,) for k, v, idx in org)
                    how = "etag component of store.import_one(...)" if ok else "; ".join(src(v) if k == "expr" else str(v) for k, v, i in org)
                obs.append(ctx.ob(ok, fi.qualname, where(fi, n), "create_strong_etag(<store-computed etag>)", how,
                                  "create_strong_etag is applied to `%s` (%s), which is not the etag the store computed for the stored bytes" % (src(a), how)))
    return obs


@rule("C02", "E2", floor=6, kind="S",
      desc="every view reads the same field: ETag headers and the getetag property obtain the value from get_etag() / "
           "the value set_body/create_member returned / the etag slot of render(); reports have no other etag path")
def e2(ctx):
    obs = []
    wd = "xandikos.webdav"
    n_hdr = 0
    for q in (wd + ".PutMethod.handle", wd + "._do_get", wd + ".PostMethod.handle", wd + ".DeleteMethod.handle"):
        fi = ctx.func(q)
        cfg = ctx.cfg(fi)
        du = DefUse(cfg)
        for n in cfg.stmt_nodes():
            for e in n.exprs():
                for x in ast.walk(e):
                    if isinstance(x, ast.Tuple) and len(x.elts) == 2 and isinstance(x.elts[0], ast.Constant) and x.elts[0].value == "ETag":
                        n_hdr += 1
                        v = x.elts[1]
                        org = _origin(du, n, v)
                        ok = bool(org)
                        desc = []
                        for k, val, idx in org:
                            if k == "expr" and _is_call_to(val, {"set_body"}):
                                desc.append("set_body() result")
                            elif k == "expr" and _is_call_to(val, {"create_member"}) and idx == (1,):
                                desc.append("create_member()[1]")
                            elif k == "expr" and _is_call_to(val, {"render"}) and idx == (2,):
                                desc.append("render()[2]")
                            elif k == "expr" and _is_call_to(val, {"get_etag"}) and q.endswith("_do_get"):
                                desc.append("get_etag()")
                            else:
                                ok = False
                                desc.append("`%s`" % (src(val) if k == "expr" else val))
                        obs.append(ctx.ob(ok, q, where(fi, n), "ETag header value comes from the write/render result",
                                          "ETag <- %s" % ", ".join(desc),
                                          "the ETag header is set from %s: after a write this is not the etag of the bytes just stored"
                                          % ", ".join(desc)))
    if n_hdr < 3:
        raise AnalysisError("only %d ETag header sites found (confirmed: 3)" % n_hdr)
    from .common import serves_resource_call
    gp, ok = serves_resource_call(ctx, wd + ".GetETagProperty", "get_etag")
    obs.append(ctx.ob(ok, gp.qualname, gp.where, "getetag is resource.get_etag()", "el.text = await resource.get_etag()",
                      "GetETagProperty no longer serves resource.get_etag()"))
    rd = ctx.own_method(wd + ".Resource", "render")
    ok = any(isinstance(n, ast.Return) and isinstance(n.value, ast.Tuple) and len(n.value.elts) >= 3 and _is_call_to(n.value.elts[2], {"get_etag"})
             and "self.get_etag" in src(n.value.elts[2]) for n in walk_local(rd.node))
    obs.append(ctx.ob(ok, rd.qualname, rd.where, "render() etag slot is self.get_etag()", "render()[2] = await self.get_etag()",
                      "Resource.render no longer returns self.get_etag() in its etag slot: GET/HEAD and PROPFIND can disagree"))
    og = ctx.own_method(OBJ, "get_etag")
    ocfg = ctx.cfg(og)
    odu = DefUse(ocfg)
    ok = False
    for n in ocfg.nodes:
        if n.kind == "return" and isinstance(n.ast, ast.Return) and n.ast.value is not None:
            rv = _origin(odu, n, n.ast.value)
            good = bool(rv) and all(k == "expr" and isinstance(v, ast.Call) and (dotted(v.func) or "").endswith("create_strong_etag") and v.args and not idx for k, v, idx in rv)
            if good:
                for k, v, idx in rv:
                    ao = _origin(odu, n, v.args[0])
                    good = good and (dotted(v.args[0]) == "self.etag" or (bool(ao) and all(k2 == "expr" and dotted(v2) == "self.etag" and not i2 for k2, v2, i2 in ao)))
            ok = ok or good
    obs.append(ctx.ob(ok, og.qualname, og.where, "ObjectResource.get_etag quotes self.etag", "create_strong_etag(self.etag)",
                      "ObjectResource.get_etag does not return create_strong_etag(self.etag)"))
    # report generators: no direct etag access
    for q in ("xandikos.davcommon.MultiGetReporter.report", "xandikos.caldav.CalendarQueryReporter.report",
              "xandikos.carddav.AddressbookQueryReporter.report", "xandikos.sync.SyncCollectionReporter.report"):
        fi = ctx.func(q)
        direct = [src(n) for n in walk_local(fi.node)
                  if (isinstance(n, ast.Attribute) and n.attr in ("etag", "get_etag")) or (isinstance(n, ast.Constant) and n.value == "ETag")]
        obs.append(ctx.ob(not direct, q, fi.where, "report obtains etags only through the property table", "no direct etag access",
                          "%s reads an etag directly (%s) instead of through properties['{DAV:}getetag']" % (fi.short, direct)))
    return obs


@rule("C02", "E3", floor=5, kind="S",
      desc="the ETag is the content hash of what was stored: git returns the id of the blob built from the bytes it "
           "stores; vdir hashes every chunk of the file and nothing else")
def e3(ctx):
    obs = []
    from ..dataflow import value_roots, depends_on

    def blob_roots(cfg, du, node, e):
        """The Blob object(s) whose .id *e* is, as sets of origin call sites; None if *e* is not `<blob>.id`."""
        keys = set()
        roots = value_roots(du, node, e, conv=("decode",))
        if not roots:
            return None
        for o in roots:
            v = o.leaf
            if not (o.kind == "expr" and not o.path and isinstance(v, ast.Attribute) and v.attr == "id"):
                return None
            bo = origins(du, o.node, v.value)
            if not bo or not all(b.kind == "expr" and not b.path and isinstance(b.leaf, ast.Call) and "Blob" in (dotted(b.leaf.func) or "") for b in bo):
                return None
            keys |= {id(b.leaf) for b in bo}
        return keys

    def same_blob(cfg, du, node, e, keys) -> bool:
        bo = origins(du, node, e)
        return bool(bo) and all(b.kind == "expr" and isinstance(b.leaf, ast.Call) and id(b.leaf) in keys for b in bo)

    def holds_data(cfg, du, keys, p_data) -> bool:
        """The blob is built from the `data` parameter: Blob.from_string(<data>) or `<blob>.chunked = data`."""
        for n in cfg.stmt_nodes():
            for e in n.exprs():
                for x in ast.walk(e):
                    if isinstance(x, ast.Call) and id(x) in keys and p_data in depends_on(du, n, x):
                        return True
            if n.kind == "stmt" and isinstance(n.ast, ast.Assign):
                for t in n.ast.targets:
                    if isinstance(t, ast.Attribute) and t.attr in ("chunked", "data") and same_blob(cfg, du, n, t.value, keys) \
                            and p_data in depends_on(du, n, n.ast.value):
                        return True
        return False

    def entered(cfg, du, keys) -> bool:
        """A tree / index entry is assigned a value containing `<that blob>.id`."""
        for n in cfg.stmt_nodes():
            if n.kind == "stmt" and isinstance(n.ast, ast.Assign) and any(isinstance(t, ast.Subscript) for t in n.ast.targets):
                # the entry value, also when it was built in a local first (`new_entry = (mode, b.id)`)
                vals = [(n, n.ast.value)] + [(o.node or n, o.leaf) for o in origins(du, n, n.ast.value) if o.kind == "expr" and o.leaf is not None]
                for at, val in vals:
                    for x in ast.walk(val):
                        if isinstance(x, ast.Attribute) and x.attr == "id" and same_blob(cfg, du, at, x.value, keys):
                            return True
        return False

    bare = ctx.own_method("xandikos.store.git.BareGitStore", "_import_one")
    cfg = ctx.cfg(bare)
    du = DefUse(cfg)
    p_data = bare.params[2] if len(bare.params) > 2 else "data"
    for r in [n for n in cfg.nodes if n.kind == "return"]:
        v = r.ast.value
        keys = blob_roots(cfg, du, r, v) if v is not None else None
        ok = False
        if keys:
            added = any((dotted(c.func) or "").endswith(("add_objects", "add_object"))
                        and any(isinstance(x, ast.Name) and same_blob(cfg, du, n, x, keys) for x in ast.walk(c))
                        for n in cfg.stmt_nodes() for c in n.calls())
            ok = holds_data(cfg, du, keys, p_data) and entered(cfg, du, keys) and added
        obs.append(ctx.ob(ok, bare.qualname, where(bare, r), "returns the id of the blob that holds `data` and enters the tree",
                          "return <blob>.id; same blob is stored and referenced",
                          "the etag returned (`%s`) is not the id of the blob built from `data`, stored, and referenced by the new tree entry" % src(v)))
    tree = ctx.own_method("xandikos.store.git.TreeGitStore", "_import_one")
    cfg = ctx.cfg(tree)
    du = DefUse(cfg)
    p_data = tree.params[2] if len(tree.params) > 2 else "data"
    for r in [n for n in cfg.nodes if n.kind == "return"]:
        v = r.ast.value
        keys = blob_roots(cfg, du, r, v) if v is not None else None
        ok = bool(keys) and holds_data(cfg, du, keys, p_data) and entered(cfg, du, keys)
        obs.append(ctx.ob(ok, tree.qualname, where(tree, r), "returns the id of the blob built from `data` and recorded in the index",
                          "return <blob>.id", "the etag returned (`%s`) is not the id of the blob built from `data` that the index records" % src(v)))
    imp = ctx.own_method("xandikos.store.git.GitStore", "import_one")
    cfg = ctx.cfg(imp)
    du = DefUse(cfg)
    for r in [n for n in cfg.nodes if n.kind == "return"]:
        v = r.ast.value
        ok = False
        if v is not None:
            roots = value_roots(du, r, v, conv=("decode",))
            # (name, etag): component 1 of the returned pair is what _import_one returned
            comp = [o for o in roots]
            from .common import as_tuple
            pair = as_tuple(ctx, imp, r, v)          # (name, etag) as a tuple display or as a record of the program
            if pair and len(pair) == 2:
                comp = value_roots(du, r, pair[1], conv=("decode",))
            elif roots and all(o.kind == "expr" and not o.path and len(as_tuple(ctx, imp, o.node, o.leaf) or ()) == 2 for o in roots):
                comp = [x for o in roots for x in value_roots(du, o.node, as_tuple(ctx, imp, o.node, o.leaf)[1], conv=("decode",))]
            ok = bool(comp) and all(o.kind == "expr" and not o.path and _is_call_to(o.leaf, {"_import_one"}) for o in comp)
        obs.append(ctx.ob(ok, imp.qualname, where(imp, r), "import_one returns the etag _import_one computed", "etag <- self._import_one(...)",
                          "GitStore.import_one returns `%s`, not the id _import_one computed for the stored bytes" % src(v)))
    ge = ctx.own_method("xandikos.store.vdir.VdirStore", "_get_etag")
    cfg = ctx.cfg(ge)
    du = DefUse(cfg)
    upd = [n for n in cfg.stmt_nodes() for c in n.calls() if isinstance(c.func, ast.Attribute) and c.func.attr == "update"]
    whole = False
    for u in upd:
        c = [c for c in u.calls() if isinstance(c.func, ast.Attribute) and c.func.attr == "update"][0]
        a = c.args[0] if c.args else None
        if isinstance(a, ast.Call) and isinstance(a.func, ast.Attribute) and a.func.attr == "read" and not a.args:
            whole = True
        if isinstance(a, ast.Name):
            for d in du.reaching(u, a.id):
                if d.kind == "for":
                    it = d.value
                    if isinstance(it, ast.Name):
                        whole = True  # for chunk in f
                    if isinstance(it, ast.Call) and isinstance(it.func, ast.Name) and it.func.id == "iter":
                        whole = True
    # no break/return inside the loop before EOF
    loops = [n for n in cfg.nodes if n.kind == "for"]
    early = False
    for lp in loops:
        body = cfg.reachable([m for m, l in lp.succ if l == "loop"], block_nodes=[lp])
        for n in cfg.nodes:
            if n.id in body and (n.kind == "return" or (n.kind == "stmt" and isinstance(n.ast, ast.Break))):
                early = True
    obs.append(ctx.ob(bool(upd) and whole and not early, ge.qualname, ge.where, "vdir etag folds every chunk of the file",
                      "md5.update(chunk) for every chunk", "VdirStore._get_etag does not hash the whole file: two different bodies can share an ETag"))
    rets = [n for n in cfg.nodes if n.kind == "return"]
    from ..dataflow import depends_on
    deps_bad = []
    for n in upd:
        c = [c for c in n.calls() if isinstance(c.func, ast.Attribute) and c.func.attr == "update"][0]
        for a in c.args:
            lits = [x for x in ast.walk(a) if isinstance(x, ast.Constant)]
            names = {x.id for x in ast.walk(a) if isinstance(x, ast.Name)}
            if "name" in names or "path" in names or any((dotted(x.func) or "").startswith(("time.", "os.stat", "os.path.getmtime")) for x in ast.walk(a) if isinstance(x, ast.Call)):
                deps_bad.append(src(a))
    hexd = all(isinstance(r.ast.value, ast.Call) and isinstance(r.ast.value.func, ast.Attribute) and r.ast.value.func.attr in ("hexdigest", "digest") and not r.ast.value.args for r in rets)
    obs.append(ctx.ob(not deps_bad and hexd and bool(rets), ge.qualname, ge.where, "vdir etag depends on file content only",
                      "digest of the bytes only", "VdirStore._get_etag mixes %s into the digest (or does not return the digest): the ETag changes without the bytes changing" % deps_bad))
    return obs


@rule("C02", "E4", floor=3, kind="S",
      desc="the body is fetched by ETag: ObjectResource reads store.get_file(name, content_type, self.etag) and the git "
           "store indexes the object store with exactly that etag")
def e4(ctx):
    obs = []
    gf = ctx.own_method(OBJ, "get_file")
    ok = False
    for n in walk_local(gf.node):
        if isinstance(n, ast.Call) and (dotted(n.func) or "").endswith("to_thread") and n.args and (dotted(n.args[0]) or "").endswith("store.get_file"):
            ok = len(n.args) >= 4 and dotted(n.args[1]) == "self.name" and dotted(n.args[3]) == "self.etag"
        if isinstance(n, ast.Call) and (dotted(n.func) or "").endswith("store.get_file"):
            ok = len(n.args) >= 3 and dotted(n.args[0]) == "self.name" and dotted(n.args[2]) == "self.etag"
    obs.append(ctx.ob(ok, gf.qualname, gf.where, "body read with the resource's own etag", "store.get_file(self.name, self.content_type, self.etag)",
                      "ObjectResource.get_file does not pass self.etag to store.get_file: the body served may belong to another version than the ETag sent"))
    sg = ctx.own_method("xandikos.store.Store", "get_file")
    calls = [n for n in walk_local(sg.node) if isinstance(n, ast.Call) and dotted(n.func) == "self._get_raw"]
    ok = bool(calls) and all(len(c.args) >= 2 and dotted(c.args[0]) == "name" and dotted(c.args[1]) == "etag" for c in calls)
    obs.append(ctx.ob(ok, sg.qualname, sg.where, "get_file forwards the etag", "self._get_raw(name, etag)", "Store.get_file drops the etag on the way to _get_raw"))
    gr = ctx.own_method("xandikos.store.git.GitStore", "_get_raw")
    cfg = ctx.cfg(gr)
    du = DefUse(cfg)
    ok = False
    from ..dataflow import value_roots
    from .common import test_polarity_absent
    p_etag = gr.params[2] if len(gr.params) > 2 else "etag"
    for n in cfg.stmt_nodes():
        for e in n.exprs():
            for x in ast.walk(e):
                if isinstance(x, ast.Subscript) and (dotted(x.value) or "").endswith("object_store") and isinstance(x.ctx, ast.Load):
                    roots = value_roots(du, n, x.slice, conv=("encode", "decode"))
                    if not roots:
                        continue
                    good = True
                    for o in roots:
                        if o.kind == "param" and o.name == p_etag and not o.path:
                            continue
                        v = o.leaf
                        # the current etag - only where none was given
                        if o.kind == "expr" and isinstance(v, ast.Call) and "_get_etag" in (dotted(v.func) or "") and o.node is not None:
                            req = list(cfg.required_conditions(o.node)) + [(t_, pol_) for t_, pol_, _n in o.conds]
                            if any(test_polarity_absent(t_, p_etag) is not None and ((test_polarity_absent(t_, p_etag) == "t") == pol_) for t_, pol_ in req):
                                continue
                        good = False
                    ok = good
    obs.append(ctx.ob(ok, gr.qualname, gr.where, "object store indexed by the requested etag", "object_store[etag]; current etag only when none was given",
                      "GitStore._get_raw does not look the blob up by the etag it was asked for"))
    return obs


@rule("C02", "E5", floor=5, kind="N",
      desc="body and ETag come from the same place: the tree store's read API never serves the working-tree file (same "
           "obligations as C04/B2)")
def e5(ctx):
    from .c04 import b2
    return b2(ctx)


@rule("C02", "E6", floor=4, kind="N",
      desc="the sync view enumerates the same tree the other views read: the collection tag is computed from the "
           "structure the listing comes from (same obligations as C08/G2)")
def e6(ctx):
    from .c08 import g2
    return g2(ctx)


@rule("C02", "E7", floor=9, kind="N",
      desc="an ETag never names two states: writers exclude each other on the index (same obligations as C05/L0) - a "
           "stale index written back over another writer's entry makes a member fall back to an earlier body and ETag")
def e7(ctx):
    from .c05 import l0
    return l0(ctx)


@rule("C02", "E8", floor=2, kind="S",
      desc="a body sent under the new ETag is the new body: a PUT response that carries the ETag of the write carries no "
           "body, or one that is read from a resource looked up after the write (the object resolved before the write is "
           "pinned to the old ETag and serves the replaced bytes)")
def e8(ctx):
    from ..dataflow import value_roots
    F = None
    fi = ctx.func("xandikos.webdav.PutMethod.handle")
    cfg = ctx.cfg(fi)
    du = DefUse(cfg)
    effects = [n for n in cfg.stmt_nodes() for c in n.calls() if isinstance(c.func, ast.Attribute) and c.func.attr in ("set_body", "create_member")]
    if len(effects) < 2:
        raise AnalysisError("PutMethod.handle: set_body / create_member calls not found")
    obs = []
    for eff in effects:
        after = cfg.reachable([m for m, l in eff.succ if l != "exc"])
        rets = [r for r in cfg.nodes if r.kind == "return" and r.id in after and r.ast.value is not None]
        if not rets:
            raise AnalysisError("PutMethod.handle: no response after `%s`" % src(eff.ast)[:40])
        stale = []
        for r in rets:
            for o in origins(du, r, r.ast.value):
                resp = o.leaf
                if not (o.kind == "expr" and isinstance(resp, ast.Call) and (dotted(resp.func) or "").split(".")[-1] == "Response"):
                    continue
                body = next((k.value for k in resp.keywords if k.arg == "body"), None)
                if body is None:
                    continue
                # where does the body come from: <R>.get_body() / render() of which resource object?
                for bo in origins(du, o.node or r, body):
                    call = bo.leaf.value if isinstance(bo.leaf, ast.Await) else bo.leaf
                    if not (bo.kind == "expr" and isinstance(call, ast.Call) and isinstance(call.func, ast.Attribute)):
                        stale.append((r, "`%s`" % src(body)[:40]))
                        continue
                    for ro in origins(du, bo.node or r, call.func.value):
                        if ro.kind == "param" or ro.node is None or ro.node.id not in after:
                            stale.append((r, "`%s` of a resource object resolved before the write" % src(call)[:40]))
        obs.append(ctx.ob(not stale, fi.qualname, where(fi, eff), "responses after `%s` carry no stale body" % src(eff.ast)[:30],
                          "no body, or a body read after the write",
                          "the response to a PUT sends %s together with the ETag of the write: the bytes are those of the version that "
                          "was just replaced, so two different bodies are observed under one ETag" % (stale[0][1] if stale else "")))
    return obs


@rule("C02", "E9", floor=1, kind="S",
      desc="the bytes GET sends under an ETag are the rendered representation itself: the body of the 200 response is the "
           "body render() returned with that ETag, not a re-encoded or transformed copy (a content-coding needs its own "
           "validator)")
def e9(ctx):
    fi = ctx.func("xandikos.webdav._do_get")
    cfg = ctx.cfg(fi)
    du = DefUse(cfg)
    obs = []
    n = 0
    for r in [x for x in cfg.nodes if x.kind == "return" and x.ast.value is not None]:
        for o in origins(du, r, r.ast.value):
            resp = o.leaf
            if not (o.kind == "expr" and isinstance(resp, ast.Call) and (dotted(resp.func) or "").split(".")[-1] == "Response"):
                continue
            body = next((k.value for k in resp.keywords if k.arg == "body"), None)
            if body is None:
                continue
            n += 1
            bos = origins(du, o.node or r, body)
            ok = bool(bos) and all(b.kind == "expr" and tuple(b.path) == (0,) and isinstance(b.leaf.value if isinstance(b.leaf, ast.Await) else b.leaf, ast.Call)
                                   and (dotted((b.leaf.value if isinstance(b.leaf, ast.Await) else b.leaf).func) or "").endswith(".render") for b in bos)
            obs.append(ctx.ob(ok, fi.qualname, where(fi, r), "200 body is render()'s body", "body <- (await r.render(...))[0]",
                              "the body of the 200 response (`%s`) is not the body render() returned together with the ETag: the same "
                              "ETag is sent with different byte sequences" % src(body)[:50]))
    if n == 0:
        raise AnalysisError("_do_get: no response with a body found")
    return obs


@rule("C02", "E10", floor=8, kind="S",
      desc="an ETag is reported with the body / data it belongs to: the query, multiget and listing loops yield name, "
           "ETag and file of the same iteration (same obligations as C01/H4 on those loops)")
def e10(ctx):
    from .common import per_item_obligations
    return per_item_obligations(ctx, ["xandikos.store.Store._iter_with_filter_indexes", "xandikos.store.Store._iter_with_filter_naive",
                                      "xandikos.store.git.GitStore.iter_with_etag", "xandikos.store.vdir.VdirStore.iter_with_etag",
                                      "xandikos.davcommon.MultiGetReporter.report", "xandikos.caldav.CalendarQueryReporter.report",
                                      "xandikos.carddav.AddressbookQueryReporter.report"])


@rule("C02", "E11", floor=1, kind="N",
      desc="the ETag a report gives for an href is the ETag of the resource at that href (same obligations as C17/M10: "
           "hrefs and resources are paired through the path table)")
def e11(ctx):
    from .c17 import href_pairing_obligations
    return href_pairing_obligations(ctx)


@rule("C02", "E12", floor=5, kind="N",
      desc="one ETag, one body in every view: the data properties of multiget / query reports take the bytes from the "
           "same get_body() that GET serves (same obligations as C17/M3 and C11/Q1) - a re-serialisation in one view "
           "answers GET's ETag with different bytes for every stored file that is not in canonical form")
def e12(ctx):
    from .c17 import m3
    from .c11 import q1
    return list(m3(ctx)) + list(q1(ctx))


@rule("C02", "E13", floor=20, kind="N",
      desc="every view reads the current entry: the readers behind GET, PROPFIND and the reports keep no parsed index or tree on the store object (same obligations as C04/B8), so none of them can serve an ETag that a completed write replaced")
def e13_rp(ctx):
    from .c04 import reader_purity_obligations
    return reader_purity_obligations(ctx)


@rule("C02", "E14", floor=2, kind="S",
      desc="the sync report hands out the ETag the other views hand out: iter_changes takes both sides of its comparison "
           "from iter_with_etag (the one place where a blob id becomes an etag string) and never lists trees or the "
           "index itself - a raw id yielded on one path is a different value (bytes) for the same resource")
def e14(ctx):
    fi = ctx.home_method("xandikos.store.git.GitStore", "iter_changes")
    cfg = ctx.cfg(fi)
    obs = []
    listed, raw = [], []
    for n in cfg.stmt_nodes():
        for c in n.calls():
            if isinstance(c.func, ast.Attribute):
                if c.func.attr == "iter_with_etag":
                    listed.append((n, c))
                elif c.func.attr in ("_iterblobs", "iteritems", "iterobjects", "open_index", "_get_current_tree"):
                    raw.append((n, c))
    if not listed:
        raise AnalysisError("GitStore.iter_changes: no iter_with_etag() call found")
    obs.append(ctx.ob(len(listed) >= 2, fi.qualname, fi.where, "old and new side are listed through iter_with_etag",
                      "%d iter_with_etag() calls" % len(listed),
                      "iter_changes lists only one side through iter_with_etag(): the etags of the other side are produced elsewhere"))
    obs.append(ctx.ob(not raw, fi.qualname, "%s:%d" % (fi.module.rel, raw[0][0].lineno) if raw else fi.where, "no raw tree / index listing in iter_changes",
                      "entries come from iter_with_etag() only",
                      "iter_changes reads entries through `%s` (line %d) instead of iter_with_etag(): what it yields there is the raw "
                      "object id, not the etag string GET, PROPFIND and multiget return for the same bytes"
                      % (src(raw[0][1])[:50] if raw else "", raw[0][0].lineno if raw else 0)))
    return obs


@rule("C02", "E15", floor=1, kind="N",
      desc="a report answers with the ETag of the resource its href names: the route prefix is removed from an href by "
           "slicing, never by a character-set strip (same obligations as C17/M6) - otherwise the multiget returns another "
           "resource's ETag and data under the requested href")
def e15(ctx):
    from .c17 import m6
    return m6(ctx)


@rule("C02", "E16", floor=20, kind="N",
      desc="a listing publishes a member's ETag under the URL of that member: what reaches create_href is an unquoted path "
           "(same obligations as C16/Q2) - a name quoted during the traversal is quoted again on the way out and the ETag "
           "appears under the URL of another (or of no) resource")
def e16(ctx):
    from .c16 import q2
    return q2(ctx)
