"""Shared classification of store-layer effects (visible mutations, refusals)."""

from __future__ import annotations

import ast
from typing import List, Optional, Set

from ..cfg import Node
from ..dataflow import DefUse
from ..program import AnalysisError, FuncInfo, dotted, src

# Exceptions the HTTP layer turns into a 4xx "refused, nothing happened" answer.
REFUSALS = {"InvalidFileContents", "DuplicateUidError", "InvalidETag", "NoSuchItem"}

STORE_MODULES = ("xandikos.store.git", "xandikos.store.vdir")

FS_MUTATORS = {
    "os.replace": "os.replace", "os.rename": "os.rename", "os.unlink": "os.unlink",
    "os.remove": "os.remove", "shutil.rmtree": "shutil.rmtree", "os.rmdir": "os.rmdir",
    "shutil.move": "shutil.move", "os.truncate": "os.truncate",
}
FS_CREATORS = {"os.mkdir": "os.mkdir", "os.makedirs": "os.makedirs"}


def open_mode(call: ast.Call) -> Optional[str]:
    """Mode string of an ``open(...)`` call (None if not constant)."""
    mode = None
    if len(call.args) >= 2:
        mode = call.args[1]
    for k in call.keywords:
        if k.arg == "mode":
            mode = k.value
    if mode is None:
        return "r"
    if isinstance(mode, ast.Constant) and isinstance(mode.value, str):
        return mode.value
    return None


def is_write_open(call: ast.Call) -> bool:
    d = dotted(call.func)
    if d not in ("open", "io.open", "os.fdopen"):
        return False
    m = open_mode(call)
    return m is None or any(ch in m for ch in "wax+")


FOLD = None   # set by facts(ctx): (module, expr) -> constant value or None


def _fold(mod, x):
    if FOLD is None or mod is None:
        return None
    try:
        return FOLD(mod, x)
    except Exception:
        return None


def _tmp_const(v) -> bool:
    return isinstance(v, str) and (v.endswith(".tmp") or v.endswith(".lock") or v.startswith(".tmp"))


def expr_is_tmp_path(du: Optional[DefUse], n: Node, e: ast.AST, depth: int = 0) -> bool:
    """Is path expression *e* (evaluated at n) built with a ``.tmp``-like suffix / tempfile?
    Module-level string constants (``TMP_SUFFIX = ".tmp"``) are folded."""
    mod = du.cfg.fi.module if du is not None else None
    for x in ast.walk(e):
        if isinstance(x, ast.Constant) and _tmp_const(x.value):
            return True
        if isinstance(x, (ast.Name, ast.Attribute)) and isinstance(getattr(x, "ctx", None), ast.Load) and _tmp_const(_fold(mod, x)):
            return True
        if isinstance(x, ast.Call):
            d = dotted(x.func) or ""
            if d.startswith("tempfile."):
                return True
    if du is not None and depth < 4:
        for x in ast.walk(e):
            if isinstance(x, ast.Name) and isinstance(x.ctx, ast.Load):
                defs = du.reaching(n, x.id)
                if defs and all(d.value is not None and d.node is not None and
                                not isinstance(d.value, (ast.FunctionDef, ast.AsyncFunctionDef, ast.ClassDef))
                                and expr_is_tmp_path(du, d.node, d.value, depth + 1) for d in defs):
                    return True
    return False


class StoreFacts:
    """Effect tables over the whole program, computed once per run."""

    def __init__(self, ctx):
        self.ctx = ctx
        self.S = ctx.summaries
        self._du = {}
        self.mut = self.S.effects("visible-mutation", self.mut_local)
        self.create = self.S.effects("creation", self.create_local)

    def du(self, fi: FuncInfo) -> DefUse:
        d = self._du.get(fi.qualname)
        if d is None:
            d = DefUse(self.ctx.cfg(fi))
            self._du[fi.qualname] = d
        return d

    # local classifiers (call-site level)
    def mut_local(self, fi: FuncInfo, n: Node, call: ast.AST, ext: Optional[str]) -> Optional[str]:
        if not isinstance(call, ast.Call):
            return None
        d = dotted(call.func) or ""
        if ext in FS_MUTATORS:
            return FS_MUTATORS[ext]
        if d.endswith(".do_commit") or d == "do_commit":
            return "do_commit"
        if d.endswith("._put_named_file"):
            return "put_named_file"
        if d.endswith("repo.set_description"):
            return "repo.set_description"
        if d.endswith(".set_if_equals") or d.endswith(".remove_if_equals") or d.endswith(".add_if_new"):
            return "refs-update"
        if is_write_open(call):
            path = call.args[0] if call.args else None
            if path is not None and expr_is_tmp_path(self.du_safe(fi), n, path):
                return None
            return "open-w"
        return None

    def du_safe(self, fi):
        try:
            return self.du(fi)
        except AnalysisError:
            return None

    def create_local(self, fi, n, call, ext):
        if ext in FS_CREATORS:
            return FS_CREATORS[ext]
        if isinstance(call, ast.Call):
            d = dotted(call.func) or ""
            if d.endswith("Repo.init") or d.endswith("Repo.init_bare"):
                return "Repo.init"
        return None

    # node level
    def node_mutations(self, fi: FuncInfo, n: Node) -> Set[str]:
        out = self.S.node_effects(fi, n, "visible-mutation", self.mut_local, self.mut)
        if n.kind == "with_exit" and self.is_locked_index_with(n.ast):
            out = set(out) | {"index-write"}
        return out

    @staticmethod
    def is_locked_index_with(w: ast.AST) -> bool:
        for it in getattr(w, "items", []):
            c = it.context_expr
            if isinstance(c, ast.Call) and (dotted(c.func) or "").split(".")[-1] == "locked_index":
                return True
        return False

    def node_refusals(self, fi: FuncInfo, n: Node, which: Set[str] = REFUSALS) -> Set[str]:
        out = set()
        for e in self.S.node_raises(fi, n):
            if e in which and self.S.escapes(fi, n, e, record=False):
                out.add(e)
        return out

    def effect_callees(self, fi: FuncInfo, n: Node) -> List[str]:
        """Names of the calls at *n* that carry a visible mutation / creation (not of wrappers such as
        ``list.extend`` around them): stable under re-arrangements of the statement."""
        out = []
        for (m, c, targets, ext) in self.S.calls_of(fi):
            if m is not n or not isinstance(c, ast.Call):
                continue
            carries = bool(self.mut_local(fi, n, c, ext) or self.create_local(fi, n, c, ext)) or any(
                self.mut.get(t.qualname) or self.create.get(t.qualname) for t in targets)
            if carries:
                nm = (dotted(c.func) or src(c.func)).split(".")[-1]
                if nm not in out:
                    out.append(nm)
        return out

    def callee_names(self, fi: FuncInfo, n: Node) -> List[str]:
        out = []
        for (m, c, targets, ext) in self.S.calls_of(fi):
            if m is n:
                d = dotted(c.func) if isinstance(c, ast.Call) else dotted(c)
                out.append((d or src(c)).split(".")[-1])
        return out


_FACTS = {}


def facts(ctx) -> StoreFacts:
    global FOLD
    FOLD = ctx.P.try_fold
    f = _FACTS.get(id(ctx))
    if f is None:
        _FACTS.clear()
        f = StoreFacts(ctx)
        _FACTS[id(ctx)] = f
    return f


def node_desc(n: Node) -> str:
    t = n.text()
    return " ".join(t.split())[:70]
