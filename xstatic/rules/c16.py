"""C16 — listings are complete and every href the server emits resolves."""

from __future__ import annotations

import ast
from typing import List

from ..core import rule
from ..dataflow import DefUse, origins
from ..prov import Analysis, BOT, Domain, flat, join
from ..program import AnalysisError, dotted, src
from ..core import walk_local  # inline-aware
from .common import where
from .c11 import prune_walk

WD = "xandikos.webdav"
A = lambda *xs: frozenset(xs)  # noqa: E731


# --------------------------------------------------------------------------- D1 / D2

@rule("C16", "D1", floor=6, kind="S",
      desc="Depth handling (finite dispatch): for depth in {0, 1, infinity} the base resource is yielded; 0 expands "
           "nothing; 1 queues the children with depth 0; infinity with infinity")
def d1(ctx):
    fi = ctx.func(WD + ".traverse_resource")
    cfg = ctx.cfg(fi)
    obs = []
    loops = [n for n in cfg.nodes if n.kind == "test" and isinstance(n.ast, ast.Name)]  # while todo
    ys = [n for n in cfg.stmt_nodes() if n.kind == "stmt" and isinstance(n.ast, ast.Expr) and isinstance(n.ast.value, ast.Yield)]
    if not loops or not ys:
        raise AnalysisError("traverse_resource: work-list loop / yield not found")
    head = loops[0]
    starts = [m for m, l in head.succ if l == "t"]
    queue_nodes = [n for n in cfg.stmt_nodes() for c in n.calls() if isinstance(c.func, ast.Attribute) and c.func.attr in ("append", "extend", "appendleft") and dotted(c.func.value) == dotted(head.ast)]
    # the work-list element: a 3-tuple or a record (NamedTuple / dataclass); its depth component is the one that is
    # initialised from the `depth` parameter
    du = DefUse(cfg)
    from ..dataflow import origins, _record_arg, Origin
    p_depth = fi.params[2] if len(fi.params) > 2 else "depth"

    def components(e, node):
        """[(selector, expr)] of a work-list element expression: tuple display or record constructor call."""
        if isinstance(e, ast.Tuple):
            return list(enumerate(e.elts))
        if isinstance(e, ast.Call):
            fields = ctx._record_fields(fi, node, e)
            if fields:
                return [(f_, _record_arg(du, Origin("expr", e, (), node), f_)) for f_ in fields if _record_arg(du, Origin("expr", e, (), node), f_) is not None]
        return []

    sel = None
    for nd in cfg.stmt_nodes():
        if nd.id in cfg.reachable([m for m, l in head.succ if l == "t"], follow_exc=False) and nd is not head:
            continue
        for e in nd.exprs():
            for x in ast.walk(e):
                for s_, ce in components(x, nd):
                    oc = origins(du, nd, ce)
                    if oc and all(o.kind == "param" and o.name == p_depth and not o.path for o in oc):
                        sel = s_
    if sel is None:
        raise AnalysisError("traverse_resource: the initial work-list element carrying the `depth` argument was not found")
    pop_node = None
    dvar = None
    for n in cfg.stmt_nodes():
        if n.kind == "stmt" and isinstance(n.ast, ast.Assign) and isinstance(n.ast.value, ast.Call) and (dotted(n.ast.value.func) or "").endswith(("popleft", "pop")):
            tg = n.ast.targets[0]
            if isinstance(tg, ast.Tuple) and isinstance(sel, int) and sel < len(tg.elts) and isinstance(tg.elts[sel], ast.Name):
                dvar, pop_node = tg.elts[sel].id, n
            elif isinstance(tg, ast.Name):
                dvar, pop_node = "%s.%s" % (tg.id, sel) if isinstance(sel, str) else None, n
                if dvar is None:
                    pop_node = None
    if dvar is None or pop_node is None:
        raise AnalysisError("traverse_resource: the statement that pops the next (href, resource, depth) element was not found")
    from .common import const_walk, folder
    fold = folder(ctx, fi)
    after_pop = [m for m, l in pop_node.succ if l != "exc"]
    for d in ("0", "1", "infinity"):
        # constant propagation from the pop with depth = d (assignments, helper returns and tests on it are followed)
        reached = const_walk(cfg, after_pop, {dvar: d}, stop_nodes=[head], fold=fold)
        reach = set(reached)
        y_ok = all(y.id in reach for y in ys)
        obs.append(ctx.ob(y_ok, fi.qualname, where(fi, ys[0]), "Depth %s: the addressed resource is reported" % d, "yield reached",
                          "with Depth: %s the resource popped from the work list is not yielded" % d))
        queued = [q for q in queue_nodes if q.id in reach]
        raises = [n for n in cfg.nodes if n.id in reach and n.kind == "raise"]
        if d == "0":
            obs.append(ctx.ob(not queued and not raises, fi.qualname, where(fi, head), "Depth 0: no member is queued", "expansion skipped",
                              "with Depth: 0 members are still queued (`%s`): the listing contains more than the addressed resource"
                              % (queued[0].text()[:50] if queued else raises[0].text()[:50] if raises else "")))
        else:
            want = "0" if d == "1" else "infinity"
            got = set()
            for q in queued:
                c = [c for c in q.calls() if isinstance(c.func, ast.Attribute) and c.func.attr in ("append", "extend", "appendleft")][0]
                comps = [dict(components(x, q)) for a_ in c.args for x in ast.walk(a_)]
                comps = [cm for cm in comps if sel in cm]
                for env in reached[q.id]:
                    if not comps:
                        got.add("?")
                    for cm in comps:
                        e3 = cm[sel]
                        from .common import _cval, _UNKNOWN
                        v = _cval(e3, env, fold)
                        got.add("?" if v is _UNKNOWN else v)
            obs.append(ctx.ob(bool(queued) and got == {want} and not raises, fi.qualname, where(fi, head),
                              "Depth %s: members queued with depth %s" % (d, want), "members are queued with depth %s" % sorted(map(repr, got)),
                              "with Depth: %s the members are %s" % (d, "not queued at all" if not queued else "queued with depth %s instead of %r" % (sorted(map(repr, got)), want))))
    return obs


@rule("C16", "D2", floor=2, kind="S",
      desc="collection hrefs end in '/': on the path where the resource is a collection, the href passes through "
           "ensure_trailing_slash before it is yielded; child hrefs are joined onto that href")
def d2(ctx):
    fi = ctx.func(WD + ".traverse_resource")
    cfg = ctx.cfg(fi)
    du = DefUse(cfg)
    obs = []
    ys = [n for n in cfg.stmt_nodes() if n.kind == "stmt" and isinstance(n.ast, ast.Expr) and isinstance(n.ast.value, ast.Yield)]
    tests = [n for n in cfg.nodes if n.kind == "test" and isinstance(n.ast, ast.Compare) and isinstance(n.ast.ops[0], ast.In)
             and "COLLECTION_RESOURCE_TYPE" in src(n.ast.left) and "resource_types" in src(n.ast.comparators[0])]
    fixes = [n for n in cfg.stmt_nodes() if n.kind == "stmt" and isinstance(n.ast, ast.Assign) and isinstance(n.ast.value, ast.Call)
             and (dotted(n.ast.value.func) or "").endswith("ensure_trailing_slash")]
    if not ys or not tests:
        raise AnalysisError("traverse_resource: yield / collection test not found")
    for y in ys:
        hv = y.ast.value.value.elts[0] if isinstance(y.ast.value.value, ast.Tuple) else None
        # from the collection side of the first test, every path to the yield passes a fix of that variable
        t0 = tests[0]
        starts = [m for m, l in t0.succ if l == "t"]
        r = cfg.reachable(starts, block_nodes=[f for f in fixes if isinstance(hv, ast.Name) and f.ast.targets[0].id == hv.id])
        ok = isinstance(hv, ast.Name) and y.id not in r and bool(fixes) and cfg.node_dominates([t0], y)
        obs.append(ctx.ob(ok, fi.qualname, where(fi, y), "collection href passes ensure_trailing_slash before the yield",
                          "href = ensure_trailing_slash(href) on the collection branch",
                          "a collection can be yielded with an href that did not pass ensure_trailing_slash (no trailing '/')"))
    joins = [n for n in cfg.stmt_nodes() for c in n.calls() if (dotted(c.func) or "").endswith("urljoin")]
    ok = False
    for j in joins:
        c = [c for c in j.calls() if (dotted(c.func) or "").endswith("urljoin")][0]
        if c.args and isinstance(c.args[0], ast.Name):
            ds = du.reaching(j, c.args[0].id)
            ok = any(d.node in fixes for d in ds) and len(c.args) > 1
    obs.append(ctx.ob(ok, fi.qualname, fi.where, "child href = urljoin(<slash-terminated parent href>, name)", "urljoin(href, child_name)",
                      "child hrefs are not built by joining the member name onto the slash-terminated parent href"))
    return obs


# --------------------------------------------------------------------------- Q1

@rule("C16", "Q1", floor=4, kind="S",
      desc="one quoting point: {DAV:}href elements are created only in create_href, which quotes the final string "
           "exactly once; read_href_element unquotes exactly once; Status.aselement goes through create_href")
def q1(ctx):
    obs = []
    makers = []
    for fi in ctx.P.all_funcs():
        if ctx.absorbed(fi):
            continue
        for n in walk_local(fi.node):
            if isinstance(n, ast.Call) and (dotted(n.func) or "").split(".")[-1] in ("Element", "SubElement"):
                for a in n.args[:2]:
                    if ctx.P.try_fold(fi.module, a) == "{DAV:}href":
                        makers.append((fi, n))
    others = [(f, n) for f, n in makers if f.qualname != WD + ".create_href"]
    for f, n in others:
        obs.append(ctx.bad(f.qualname, "%s:%d" % (f.module.rel, n.lineno), "{DAV:}href created outside create_href",
                           "%s builds a {DAV:}href element itself (`%s`): its text bypasses the single quoting point" % (f.short, src(n)[:60])))
    ch = ctx.func(WD + ".create_href")
    obs.append(ctx.ob(not others and any(f.qualname == ch.qualname for f, n in makers), ch.qualname, ch.where, "only create_href creates {DAV:}href",
                      "%d creation site(s), all in create_href" % len(makers), "{DAV:}href elements are created in %s" % sorted({f.short for f, n in others})))
    # quotes exactly once, on the final string: on every path the element text is assigned exactly once, the value is
    # quote(X), and nothing X is built from was quoted before
    cfg = ctx.cfg(ch)
    du = DefUse(cfg)
    from ..dataflow import origins
    sets = [n for n in cfg.stmt_nodes() if n.kind == "stmt" and isinstance(n.ast, ast.Assign) and any(isinstance(t, ast.Attribute) and t.attr == "text" for t in n.ast.targets)]

    def is_quote(c):
        return isinstance(c, ast.Call) and (dotted(c.func) or "").split(".")[-1] in ("quote", "quote_plus")

    def unquoted(node, e, depth=0) -> bool:
        if depth > 8:
            return False
        for o in origins(du, node, e):
            v = o.leaf
            if o.kind == "param":
                continue
            if v is None or is_quote(v):
                return False
            if isinstance(v, ast.Call):
                if not all(unquoted(o.node, a_, depth + 1) for a_ in list(v.args) + [k.value for k in v.keywords]):
                    return False
        return True

    once = bool(sets) and cfg.normal_completion_dominates(sets, cfg.exit) and \
        not any(t.id in cfg.after_normal(s_, follow_exc=False) for s_ in sets for t in sets)
    quoted_once = True
    whole_ok = True
    nq = 0
    for s_ in sets:
        os_ = origins(du, s_, s_.ast.value)
        for o in os_:
            if not (o.kind == "expr" and not o.path and is_quote(o.leaf) and o.leaf.args):
                quoted_once = False
                continue
            nq += 1
            if not unquoted(o.node, o.leaf.args[0]):
                quoted_once = False
            # what is quoted is the href as a whole: a component of its URL-parsed form (`.path` of urlparse / urlsplit) has lost
            # whatever in a name looks like a query, fragment or params part ('?', '#', ';')
            for ao in origins(du, o.node, o.leaf.args[0]):
                if ao.kind == "expr" and isinstance(ao.leaf, ast.Attribute) and ao.leaf.attr in ("path", "netloc", "query", "fragment", "params"):
                    whole_ok = False
    obs.append(ctx.ob(whole_ok, ch.qualname, ch.where, "create_href quotes the whole href", "quote(href), not quote(<parsed>.path)",
                      "create_href quotes a component of the URL-parsed href: a '?', '#' or ';' inside a member name is taken for the start "
                      "of a query, fragment or params part and dropped - the emitted href addresses another resource"))
    ok = once and quoted_once and nq >= 1
    obs.append(ctx.ob(ok, ch.qualname, ch.where, "create_href quotes the final href exactly once", "et.text = urllib.parse.quote(href)",
                      "create_href does not set the element text to quote(<final href>) exactly once (%d quote calls, %d text assignments)" % (nq, len(sets))))
    rh = ctx.func(WD + ".read_href_element")
    nu = [n for n in walk_local(rh.node) if isinstance(n, ast.Call) and (dotted(n.func) or "").endswith("unquote")]
    obs.append(ctx.ob(len(nu) == 1, rh.qualname, rh.where, "read_href_element unquotes exactly once", "one unquote", "read_href_element applies unquote %d times" % len(nu)))
    sa = ctx.own_method(WD + ".Status", "aselement")
    scfg = ctx.cfg(sa)
    sdu = DefUse(scfg)
    ok = False
    for n in scfg.stmt_nodes():
        for c in n.calls():
            if (dotted(c.func) or "").split(".")[-1] == "create_href" and c.args and isinstance(c.args[0], ast.Attribute) and c.args[0].attr == "href":
                bo = origins(sdu, n, c.args[0].value)
                # the Status object itself, also when a helper takes it as an argument (`status = self`)
                if bo and all(o.kind == "param" and o.name == "self" for o in bo):
                    ok = True
    obs.append(ctx.ob(ok, sa.qualname, sa.where, "Status.aselement uses create_href(self.href)", "create_href(self.href)", "Status.aselement does not build its href through create_href"))
    return obs


# --------------------------------------------------------------------------- encoding-state provenance

class EncDomain(Domain):
    """DECODED text path | QUOTED (percent-encoded) | URL (has a scheme) | LATIN1 (PEP 3333 str) | BYTES_L1 | OTHER."""
    name = "encoding-state"
    dict_values = True

    def const(self, v):
        return A("CONST")

    def top(self):
        return A("DECODED")

    def source(self, an, fi, d):
        if d in ("request.url",):
            return A("URL")
        if d in ("request.path",):
            return A("DECODED")
        if d in ("request.raw_path",):
            return A("QUOTED")
        if d.startswith("request.match_info"):
            # aiohttp delivers the decoded path; the WSGI adapter's value is whatever WSGIRequest stores
            v = an.field.get(("xandikos.webdav.WSGIRequest", "match_info"))
            return join(A("DECODED"), v) if v is not None else A("DECODED")
        if d.startswith("request.headers") or d.startswith("request.content"):
            return A("OTHER")
        if d.startswith("environ[") or d.startswith("self._environ["):
            if "SCRIPT_NAME" in d:
                return A("CONFIG")
            if any(k in d for k in ("REQUEST_METHOD", "CONTENT_TYPE", "CONTENT_LENGTH", "wsgi.", "ORIGINAL_ENVIRON")):
                return A("OTHER")
            # PEP 3333: every str taken from the environ is the iso-8859-1 decoding of the request bytes
            return A("LATIN1")
        if d in ("request", "environ", "app", "self", "cls"):
            return self.OBJ
        return None

    def entry_param(self, fi, name):
        return BOT

    def unknown(self, vals):
        out = set()
        for v in vals:
            out |= flat(v)
        out -= {"OBJ", "NONE"}
        out = {a for a in out if not a.startswith("OBJ:")}
        return frozenset(out) if out else self.OTHER

    def fstring(self, parts):
        return self.unknown(parts)

    def add(self, l, r, le=None, re_=None):
        return self.unknown([l, r])

    def call(self, an, fi, n, c, d, args, recv):
        last = d.split(".")[-1]
        if d in ("urllib.parse.quote", "urllib.parse.quote_plus"):
            return A("QUOTED")
        if d in ("urllib.parse.unquote", "urllib.parse.unquote_plus"):
            a = flat(args[0]) if args else BOT
            # unquoting something that is already a decoded path decodes it a second time ('%2541' -> '%41' -> 'A')
            return frozenset({"QUOTED": "DECODED", "DECODED": "OVERDECODED", "LATIN1": "OVERDECODED", "BYTES_L1": "OVERDECODED"}.get(x, x) for x in a) or A("DECODED")
        if d == "wsgiref.util.request_uri":
            return A("URL")
        if d == "unicodedata.normalize" and len(args) >= 2:
            # the same text only for strings that are already in that form: a name is no longer the name that was sent / stored
            return frozenset(flat(args[1]) | {"REWRITTEN"})
        if d in ("urllib.parse.urljoin", "posixpath.join", "posixpath.normpath", "os.path.join"):
            return self.unknown(args)
        if d in ("urllib.parse.urlsplit", "urllib.parse.urlparse"):
            a = flat(args[0]) if args else BOT
            return frozenset({"URL": "DECODED"}.get(x, x) for x in a)
        if d in ("str",) and args:
            return flat(args[0])
        if d in ("len", "int", "bool", "isinstance", "sum"):
            return self.OTHER
        return None

    def method(self, an, fi, n, c, attr, recv, args):
        r = flat(recv) if recv is not None else BOT
        if attr == "encode":
            codec = c.args[0].value if c.args and isinstance(c.args[0], ast.Constant) else "utf-8"
            if "LATIN1" in r and str(codec).lower().replace("_", "-") in ("iso-8859-1", "latin-1", "latin1"):
                return A("BYTES_L1")
            return r
        if attr == "decode":
            if "BYTES_L1" in r:
                return frozenset({"BYTES_L1": "DECODED"}.get(x, x) for x in r)
            return r
        if attr in ("casefold", "lower", "upper", "title", "capitalize", "swapcase", "translate", "expandtabs"):
            return frozenset(r | {"REWRITTEN"}) if r else r
        if attr in ("rstrip", "lstrip", "strip", "format", "split", "rsplit", "get"):
            return r
        if attr in ("startswith", "endswith"):
            return self.OTHER
        return None

    def relevant_test(self, t, name):
        return isinstance(t, ast.Call) and isinstance(t.func, ast.Attribute) and t.func.attr == "isascii" \
            and isinstance(t.func.value, ast.Name) and t.func.value.id == name and not t.args

    def refine(self, v, test, pol, name):
        # an all-ASCII PEP 3333 string is its own UTF-8 re-decoding
        if not pol or isinstance(v, tuple):
            return v
        return frozenset({"LATIN1": "DECODED"}.get(a, a) for a in v)

    def attr(self, an, fi, n, e, base):
        if e.attr == "path" and flat(base) & {"URL", "DECODED", "QUOTED"}:
            return frozenset({"URL": "DECODED"}.get(x, x) for x in flat(base))
        return None


_CACHE = {}


def enc_analysis(ctx) -> Analysis:
    a = getattr(ctx, "_enc_analysis", None)       # cached on the context itself (object ids are reused)
    if a is None:
        mods = ("xandikos.webdav", "xandikos.web", "xandikos.caldav", "xandikos.carddav", "xandikos.sync", "xandikos.davcommon",
                "xandikos.scheduling", "xandikos.infit", "xandikos.access", "xandikos.quota", "xandikos.timezones", "xandikos.xmpp",
                "xandikos.apache", "xandikos.server_info")
        a = Analysis(ctx, EncDomain(), modules=mods)
        ctx._enc_analysis = a
        ctx.note("encoding-state provenance: %d functions, fixed point after %d rounds" % (len(a.funcs), a.rounds))
    return a


BAD_IN_HREF = {"URL", "QUOTED", "LATIN1", "BYTES_L1", "OVERDECODED"}


@rule("C16", "Q2", floor=20, kind="S",
      desc="what is quoted is a decoded path: no value reaching create_href / Status(href) is a URL with a scheme "
           "(quoting encodes the colon), already percent-quoted (double encoding) or an undecoded PEP 3333 string")
def q2(ctx):
    an = enc_analysis(ctx)
    obs = []
    S = ctx.summaries
    n_sites = 0
    for fi in an.funcs:
        cfg = ctx.cfg(fi)
        for n in cfg.stmt_nodes():
            for c in n.calls():
                d = (dotted(c.func) or "").split(".")[-1]
                args = []
                if d == "create_href":
                    args = [("create_href arg %d" % i, a) for i, a in enumerate(c.args[:2])]
                elif d == "Status" and c.args:
                    r = ctx.P.resolve_call(fi, c)
                    if any(t.qualname == WD + ".Status.__init__" for t in r.targets):
                        args = [("Status href", c.args[0])]
                for what, a in args:
                    n_sites += 1
                    v = flat(an.ev(fi, n, a))
                    bad = v & BAD_IN_HREF
                    path = an.explain(fi, n, a, set(bad)) if bad else []
                    obs.append(ctx.ob(not bad, fi.qualname, where(fi, n), "%s `%s` is a decoded path" % (what, src(a)[:40]),
                                      "encoding state %s" % sorted(v),
                                      "`%s` reaches %s in state %s: create_href() percent-quotes it, so the emitted href is %s"
                                      % (src(a), what, sorted(bad),
                                         "'http%3A//host/...' (the scheme's colon is quoted) and addresses nothing" if "URL" in bad
                                         else "double-encoded" if "QUOTED" in bad else "mojibake"), path=path))
    if n_sites < 20:
        raise AnalysisError("only %d href emission sites found (confirmed: 30)" % n_sites)
    return obs


@rule("C16", "Q3", floor=1, kind="S",
      desc="headers carry quoted paths: every part of the Location header of POST add-member is percent-quoted")
def q3(ctx):
    an = enc_analysis(ctx)
    fi = ctx.func(WD + ".PostMethod.handle")
    cfg = ctx.cfg(fi)
    obs = []
    for n in cfg.nodes:
        if n.kind != "return" or n.ast.value is None:
            continue
        for x in ast.walk(n.ast.value):
            if isinstance(x, ast.Dict):
                for k, v in zip(x.keys, x.values):
                    if ctx.P.try_fold(fi.module, k) == "Location":
                        val = flat(an.ev(fi, n, v))
                        ok = bool(val) and val <= {"QUOTED"}
                        path = an.explain(fi, n, v, set(val - {"QUOTED"})) if not ok else []
                        obs.append(ctx.ob(ok, fi.qualname, where(fi, n), "Location is percent-quoted in all its parts", "state %s" % sorted(val),
                                          "the Location header is assembled from parts in state %s: only part of it is percent-quoted, the rest is "
                                          "the decoded request path (raw spaces / non-ASCII bytes in a header, '%%' and '#' in names change meaning)"
                                          % sorted(val), path=path))
    if not obs:
        raise AnalysisError("PostMethod.handle: no Location header found")
    return obs


@rule("C16", "F1", floor=2, kind="S",
      desc="both front ends decode the path the same way: what WSGIRequest exposes for addressing resources (path, "
           "match_info) passes through the UTF-8 re-decoding of path_from_environ")
def f1(ctx):
    an = enc_analysis(ctx)
    obs = []
    init = ctx.own_method(WD + ".WSGIRequest", "__init__")
    for fld in ("path", "match_info"):
        v = an.field.get((WD + ".WSGIRequest", fld))
        if v is None:
            raise AnalysisError("WSGIRequest.%s is no longer assigned" % fld)
        fv = flat(v)
        bad = fv & {"LATIN1", "BYTES_L1", "OVERDECODED"}
        if "OVERDECODED" in bad:
            obs.append(ctx.bad(init.qualname, init.where, "WSGIRequest.%s is decoded exactly once" % fld,
                               "WSGIRequest.%s is percent-decoded a second time (PATH_INFO is already decoded by the gateway): a member named 'x%%41.ics' is listed "
                               "as 'x%%2541.ics' but looked up as 'xA.ics', so the listed href answers 404" % fld))
            continue
        obs.append(ctx.ob(not bad, init.qualname, init.where, "WSGIRequest.%s is re-decoded" % fld, "state %s" % sorted(fv),
                          "WSGIRequest.%s holds the PEP 3333 (iso-8859-1) decoding of PATH_INFO (%s): through WSGI a member named 'é.vcf' is "
                          "stored and listed under a mojibake name and the listed href answers 404" % (fld, sorted(bad))))
    pf = ctx.func(WD + ".path_from_environ")
    rv = flat(an.ret.get(pf.qualname, BOT))
    obs.append(ctx.ob(rv == {"DECODED"}, pf.qualname, pf.where, "path_from_environ re-decodes", "returns %s" % sorted(rv),
                      "path_from_environ returns a value in state %s (expected the iso-8859-1 -> UTF-8 re-decoding)" % sorted(rv)))
    return obs


@rule("C16", "L1", floor=7, kind="N",
      desc="listings are complete: members() and get_member() consult the same sources, unconditionally (same "
           "obligations as C01/H1)")
def l1(ctx):
    from .c01 import h1
    return h1(ctx)


PROP_FUNCS = {"get_all_properties", "get_properties", "get_property_names", "get_properties_with_data", "get_property_from_name"}


@rule("C16", "H1", floor=4, kind="S",
      desc="href/resource pairing: inside a loop over (href, resource) pairs, the property getters are given the href "
           "bound by the same loop as the resource (href-valued properties are resolved against it)")
def h1(ctx):
    obs = []
    for q in (WD + ".PropfindMethod.handle", "xandikos.caldav.CalendarQueryReporter.report", "xandikos.carddav.AddressbookQueryReporter.report",
              "xandikos.davcommon.MultiGetReporter.report"):
        fi = ctx.func(q)
        cfg = ctx.cfg(fi)
        du = DefUse(cfg)
        for n in cfg.stmt_nodes():
            for c in n.calls():
                d = (dotted(c.func) or "").split(".")[-1]
                args = list(c.args)
                if d not in PROP_FUNCS:
                    # a helper unknown to the reference tree (function, or class whose instance carries the pair) that is
                    # handed the loop's resource: same obligation for the argument in front of it
                    try:
                        res = ctx.P.resolve_call(fi, c)
                    except Exception:
                        continue
                    new_cls = res.how.startswith("ctor:") and res.how.split(":", 1)[1] not in (ctx.cfgs.inliner.reference or ())
                    new_fn = bool(res.targets) and not res.how.startswith("ctor") and all(ctx.cfgs.inliner.is_new(t) for t in res.targets)
                    if not (new_cls or new_fn):
                        continue
                    pos = [i for i, a in enumerate(args) if isinstance(a, ast.Name) and any(x.kind == "for" and isinstance(x.node.ast.target, ast.Tuple)
                                                                                             for x in du.reaching(n, a.id))]
                    pos = [i for i in pos if i >= 1]
                    if not pos:
                        continue
                    args = args[pos[-1] - 1:]
                if d == "get_properties_with_data":
                    from .common import call_arg
                    a_h, a_r = call_arg(ctx, fi, c, "href", 1), call_arg(ctx, fi, c, "resource", 2)
                    args = [a_h, a_r] if a_h is not None and a_r is not None else args[1:]
                if len(args) < 2 or not isinstance(args[1], ast.Name):
                    continue
                rdefs = [x for x in du.reaching(n, args[1].id) if x.kind == "for"]
                if not rdefs:
                    continue
                ok = isinstance(args[0], ast.Name) and any(x.kind == "for" and x.node is rdefs[0].node for x in du.reaching(n, args[0].id)) \
                    and all(x.kind == "for" and x.node is rdefs[0].node or x.kind == "assign" and "ensure_trailing_slash" in src(x.value) for x in du.reaching(n, args[0].id))
                obs.append(ctx.ob(ok, q, where(fi, n), "%s(href, resource) use the pair of one iteration" % d,
                                  "`%s` and `%s` are bound by the same loop" % (src(args[0]), src(args[1])),
                                  "`%s` is given the href `%s` together with the resource `%s` of the current iteration: href-valued properties of each member "
                                  "(add-member, home sets, principal-URL) are resolved against the wrong base" % (d, src(args[0]), src(args[1]))))
    
        # a helper object unknown to the reference tree that is constructed with the pair inside the loop (its
        # constructor is spliced into the CFG, so the call is looked up in the source): same obligation
        parents = {}
        for p_ in ast.walk(fi.node):
            for ch in ast.iter_child_nodes(p_):
                parents[id(ch)] = p_
        for c in ast.walk(fi.node):
            if not (isinstance(c, ast.Call) and dotted(c.func)):
                continue
            try:
                kind_, obj_ = ctx.P.resolve_dotted(fi.module, dotted(c.func), fi)
            except Exception:
                continue
            if kind_ != "class" or obj_.qualname in (ctx.cfgs.inliner.reference or ()):
                continue
            loops = []
            x = c
            while id(x) in parents:
                x = parents[id(x)]
                if isinstance(x, (ast.FunctionDef, ast.AsyncFunctionDef, ast.Lambda)) and x is not fi.node:
                    loops = None
                    break
                if isinstance(x, (ast.For, ast.AsyncFor)) and isinstance(x.target, ast.Tuple) and all(isinstance(e_, ast.Name) for e_ in x.target.elts):
                    loops.append(x)
            if not loops:
                continue
            lp = loops[0]
            bound = [e_.id for e_ in lp.target.elts]
            for j, a_ in enumerate(c.args):
                if j >= 1 and isinstance(a_, ast.Name) and a_.id == bound[-1]:
                    prev = c.args[j - 1]
                    rebound = {t_.id for st in ast.walk(ast.Module(body=lp.body, type_ignores=[])) if isinstance(st, (ast.Assign, ast.AugAssign, ast.AnnAssign))
                               for t_ in ast.walk(st) if isinstance(t_, ast.Name) and isinstance(t_.ctx, ast.Store)}
                    ok = isinstance(prev, ast.Name) and prev.id in bound[:-1] and prev.id not in rebound and a_.id not in rebound
                    obs.append(ctx.ob(ok, q, "%s:%d" % (fi.module.rel, c.lineno), "%s(href, resource) use the pair of one iteration" % obj_.name,
                                      "`%s` and `%s` are bound by the same loop" % (src(prev), src(a_)),
                                      "`%s` is given the href `%s` together with the resource `%s` of the current iteration: href-valued properties of each member "
                                      "(add-member, home sets, principal-URL) are resolved against the wrong base" % (obj_.name, src(prev), src(a_))))
    return obs


@rule("C16", "J1", floor=4, kind="S",
      desc="hrefs are joined onto slash-terminated bases and relative references: every urljoin(base, x) in the DAV "
           "layer has base = ensure_trailing_slash(...) (or the collection href traverse_resource already terminated), "
           "and the current-user-principal path is made relative before it is resolved against the route prefix")
def j1(ctx):
    from ..dataflow import origins
    obs = []
    n_sites = 0
    for mname in ("xandikos.webdav", "xandikos.sync", "xandikos.caldav", "xandikos.carddav", "xandikos.davcommon", "xandikos.scheduling",
                  "xandikos.access", "xandikos.timezones", "xandikos.infit", "xandikos.quota"):
        if mname not in ctx.P.modules:
            continue
        for fi in ctx.P.funcs_in_module(mname):
            if ctx.absorbed(fi):
                continue
            cfg = ctx.cfg(fi)
            du = None
            for n in cfg.stmt_nodes():
                for c in n.calls():
                    if (dotted(c.func) or "").split(".")[-1] != "urljoin" or len(c.args) < 2:
                        continue
                    n_sites += 1
                    if fi.qualname == WD + ".traverse_resource":
                        obs.append(ctx.ok(fi.qualname, where(fi, n), "child hrefs joined onto the collection href", "base is terminated on the collection path (C16/D2)"))
                        continue
                    du = du or DefUse(cfg)
                    bo = origins(du, n, c.args[0])
                    ok = bool(bo) and all(o.kind == "expr" and isinstance(o.leaf, ast.Call) and (dotted(o.leaf.func) or "").split(".")[-1] == "ensure_trailing_slash" for o in bo)
                    obs.append(ctx.ob(ok, fi.qualname, where(fi, n), "urljoin base is slash-terminated", "urljoin(ensure_trailing_slash(base), ...)",
                                      "`%s` joins onto `%s`, which is not passed through ensure_trailing_slash: for a collection href without trailing slash "
                                      "(what the WSGI front end hands out) the last segment is replaced, so the href / Location names a sibling of the collection"
                                      % (src(c)[:70], src(c.args[0]))))
    if n_sites < 4:
        raise AnalysisError("only %d urljoin call sites found in the DAV layer" % n_sites)
    # current-user-principal: relative to the route prefix
    fi = ctx.own_method(WD + ".CurrentUserPrincipalProperty", "get_value")
    cfg = ctx.cfg(fi)
    du = DefUse(cfg)
    sites = [(n, c) for n in cfg.stmt_nodes() for c in n.calls() if (dotted(c.func) or "").split(".")[-1] == "create_href" and len(c.args) + len(c.keywords) >= 2]
    if not sites:
        if any(o.status == "violated" for o in obs):
            return obs      # the href is built another way, and that way is already reported above
        raise AnalysisError("CurrentUserPrincipalProperty.get_value: create_href(<principal>, <prefix>) not found")
    RELATIVISING = ("lstrip", "strip", "removeprefix", "relpath")
    for n, c in sites:
        seen_ops = set()
        todo = [(n, c.args[0], 0)]
        while todo:
            nd, e, depth = todo.pop()
            if depth > 8:
                continue
            for o in origins(du, nd, e):
                v = o.leaf
                if o.kind != "expr" or v is None:
                    continue
                for x in ast.walk(v):
                    if isinstance(x, ast.Call):
                        seen_ops.add((dotted(x.func) or "").split(".")[-1] if not isinstance(x.func, ast.Attribute) else x.func.attr)
                    if isinstance(x, ast.Subscript) and isinstance(x.slice, ast.Slice) and x.slice.lower is not None:
                        seen_ops.add("slice")
                    if isinstance(x, ast.Name) and x is not v:
                        todo.append((o.node, x, depth + 1))
                if isinstance(v, ast.Name):
                    continue
        ok = bool(seen_ops & (set(RELATIVISING) | {"slice"}))
        obs.append(ctx.ob(ok, fi.qualname, where(fi, n), "principal path is relative to the route prefix",
                          "the path loses its leading '/' before create_href(path, SCRIPT_NAME)",
                          "the current-user-principal path reaches create_href(..., SCRIPT_NAME) with its leading '/' (operations on the way: %s): "
                          "urljoin treats it as absolute and drops the route prefix, so under a prefix the advertised principal href is not served"
                          % (sorted(seen_ops) or "none")))
    return obs


NAME_SINKS = {"get_resource": 0, "create_collection": 0, "get_member": 0, "create_member": 0, "delete_member": 0,
              "import_one": 0, "delete_one": 0, "get_file": 0, "_get_resource": 0}


def opaque_name_obligations(ctx):
    """Names and paths travel unchanged between the request, the store and the emitted hrefs: no value that reaches a
    lookup / create / delete by name, or an emitted href, has been through Unicode normalisation or case mapping."""
    an = enc_analysis(ctx)
    obs = []
    n_sites = 0
    for fi in an.funcs:
        cfg = ctx.cfg(fi)
        for n in cfg.stmt_nodes():
            for c in n.calls():
                last = (dotted(c.func) or "").split(".")[-1]
                args = []
                if last in NAME_SINKS and isinstance(c.func, ast.Attribute) and len(c.args) > NAME_SINKS[last]:
                    args = [("%s() name" % last, c.args[NAME_SINKS[last]])]
                elif last == "create_href":
                    args = [("emitted href", a) for a in c.args[:2]]
                elif last == "Status" and c.args:
                    args = [("emitted href", c.args[0])]
                for what, a in args:
                    n_sites += 1
                    v = flat(an.ev(fi, n, a))
                    bad = "REWRITTEN" in v
                    path = an.explain(fi, n, a, {"REWRITTEN"}) if bad else []
                    obs.append(ctx.ob(not bad, fi.qualname, where(fi, n), "%s `%s` is the name as sent / stored" % (what, src(a)[:40]),
                                      "no normalisation or case mapping on the way",
                                      "`%s` reaches %s after Unicode normalisation / case mapping: the name that is looked up, created or "
                                      "emitted is not the name the other side uses (listing vs. lookup, request path vs. multiget href), so a "
                                      "listed member answers 404 or two spellings address different resources" % (src(a), what), path=path))
    if n_sites < 40:
        raise AnalysisError("only %d name / href sites found (confirmed: 60+)" % n_sites)
    return obs


@rule("C16", "N1", floor=40, kind="S",
      desc="names are opaque: no value that reaches a lookup / create / delete by name or an emitted href has been "
           "through Unicode normalisation or case mapping (listing and lookup use the same spelling)")
def n1(ctx):
    return opaque_name_obligations(ctx)


@rule("C16", "H2", floor=1, kind="S",
      desc="reports are resolved against the href of the request: the base href handed to a reporter is the href component "
           "of _get_resource_from_environ (not the application-internal path, which lacks the route prefix)")
def h2(ctx):
    from .common import call_arg
    fi = ctx.func(WD + ".ReportMethod.handle")
    cfg = ctx.cfg(fi)
    du = DefUse(cfg)
    obs = []
    for n in cfg.stmt_nodes():
        for c in n.calls():
            if isinstance(c.func, ast.Attribute) and c.func.attr == "report":
                a = call_arg(ctx, fi, c, "base_href", 4) or call_arg(ctx, fi, c, "href", 4)
                if a is None:
                    raise AnalysisError("ReportMethod.handle: base href argument of reporter.report(...) not found")
                os_ = origins(du, n, a)
                ok = bool(os_) and all(o.kind == "expr" and tuple(o.path) == (0,) and isinstance(o.leaf.value if isinstance(o.leaf, ast.Await) else o.leaf, ast.Call)
                                       and (dotted((o.leaf.value if isinstance(o.leaf, ast.Await) else o.leaf).func) or "").endswith("_get_resource_from_environ") for o in os_)
                obs.append(ctx.ob(ok, fi.qualname, where(fi, n), "reporter gets the request href", "base_href <- _get_resource_from_environ(...)[0]",
                                  "the reporter is given `%s` as base href, which is not the href of the request: under a route prefix every href of "
                                  "the report lacks the prefix and addresses nothing" % src(a)))
    if not obs:
        raise AnalysisError("ReportMethod.handle: reporter.report(...) call not found")
    return obs


@rule("C16", "L2", floor=2, kind="S",
      desc="the hidden configuration file is hidden in every view: both branches of both _iterblobs compare the DECODED "
           "name with CONFIG_FILENAME (tree entries are bytes: a bytes/str comparison is never true and `.xandikos` "
           "shows up in sync reports)")
def l2(ctx):
    obs = []
    n_cmp = 0
    for cq in ("xandikos.store.git.BareGitStore", "xandikos.store.git.TreeGitStore"):
        f = ctx.own_method(cq, "_iterblobs")
        cfg = ctx.cfg(f)
        du = DefUse(cfg)
        for t in [n for n in cfg.nodes if n.kind == "test" and isinstance(n.ast, ast.Compare) and len(n.ast.ops) == 1]:
            sides = [t.ast.left, t.ast.comparators[0]]
            if not any((dotted(x) or "").endswith("CONFIG_FILENAME") for x in sides):
                continue
            other = [x for x in sides if not (dotted(x) or "").endswith("CONFIG_FILENAME")][0]
            n_cmp += 1
            os_ = origins(du, t, other)
            # names from the index (`for name, entry in index.items()`) and tree entries are bytes; a str comes out of .decode()
            decoded = bool(os_) and all(o.kind == "expr" and isinstance(o.leaf, ast.Call) and isinstance(o.leaf.func, ast.Attribute)
                                        and o.leaf.func.attr == "decode" for o in os_)
            obs.append(ctx.ob(decoded, f.qualname, where(f, t), "config filter compares the decoded name", "name.decode(...) == CONFIG_FILENAME",
                              "`%s` compares `%s` - bytes as they come from the tree / index - with the str CONFIG_FILENAME: the test is never true and "
                              "the configuration file is listed as a member in this view" % (src(t.ast), src(other))))
    if n_cmp < 2:
        raise AnalysisError("only %d comparisons with CONFIG_FILENAME found in the _iterblobs implementations" % n_cmp)
    return obs


@rule("C16", "H3", floor=1, kind="S",
      desc="a collection href handed out is absolute-path and ends in '/': ensure_trailing_slash returns its argument "
           "only on the path where `href.endswith('/')` held, and something ending in '/' otherwise - the empty "
           "SCRIPT_NAME of a root WSGI mount becomes '/', not a relative reference that clients resolve against "
           "whatever URL they asked")
def h3(ctx):
    fi = ctx.func("xandikos.webdav.ensure_trailing_slash")
    cfg = ctx.cfg(fi)
    du = DefUse(cfg)
    if not fi.params:
        raise AnalysisError("ensure_trailing_slash has no parameter")
    p = fi.params[0]
    obs = []
    rets = [n for n in cfg.nodes if n.kind == "return"]
    if not rets:
        raise AnalysisError("ensure_trailing_slash: no return")
    for r in rets:
        v = r.ast.value if isinstance(r.ast, ast.Return) else r.ast
        os_ = origins(du, r, v) if v is not None else []
        for o in os_:
            if o.kind == "param" and o.name == p and not o.path:
                conds = cfg.required_conditions(r)
                held = any(pol and isinstance(t, ast.Call) and isinstance(t.func, ast.Attribute) and t.func.attr == "endswith"
                           and dotted(t.func.value) == p and len(t.args) == 1 and isinstance(t.args[0], ast.Constant) and t.args[0].value == "/"
                           for t, pol in conds)
                obs.append(ctx.ob(held, fi.qualname, "%s:%d" % (fi.module.rel, r.lineno), "argument returned unchanged only if it ends in '/'",
                                  "return %s  under %s.endswith('/')" % (p, p),
                                  "ensure_trailing_slash can return its argument although it does not end in '/' (an empty href stays empty): "
                                  "the base of current-user-principal / home-set hrefs under a root WSGI mount (SCRIPT_NAME '') becomes a "
                                  "relative reference, which clients resolve against the URL they asked"))
            elif o.kind == "expr" and o.leaf is not None and not o.path:
                l = o.leaf
                ends = (isinstance(l, ast.BinOp) and isinstance(l.op, ast.Add) and isinstance(l.right, ast.Constant) and isinstance(l.right.value, str) and l.right.value.endswith("/")) \
                    or (isinstance(l, ast.JoinedStr) and l.values and isinstance(l.values[-1], ast.Constant) and str(l.values[-1].value).endswith("/")) \
                    or (isinstance(l, ast.Constant) and isinstance(l.value, str) and l.value.endswith("/"))
                if not ends:
                    raise AnalysisError("ensure_trailing_slash: return value `%s` is not a recognised form" % src(l)[:60])
                obs.append(ctx.ok(fi.qualname, "%s:%d" % (fi.module.rel, r.lineno), "other results end in '/'", "return %s" % src(l)[:40]))
            else:
                raise AnalysisError("ensure_trailing_slash: return value `%s` is not a recognised form" % src(v)[:60])
    return obs


@rule("C16", "F2", floor=1, kind="N",
      desc="hrefs keep the mount prefix on the WSGI front end: request.path is SCRIPT_NAME + decoded PATH_INFO by "
           "concatenation (same obligations as C18/S6) - a path join drops the prefix because PATH_INFO is absolute")
def f2(ctx):
    from .c18 import s6
    return s6(ctx)


@rule("C16", "H4", floor=1, kind="N",
      desc="an href handed out resolves when it is handed back: the route prefix is removed by slicing, not by a "
           "character-set strip (same obligations as C17/M6)")
def h4(ctx):
    from .c17 import m6
    return m6(ctx)
