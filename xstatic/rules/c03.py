"""C03 — conditional requests are honoured and have no effect when they fail."""

from __future__ import annotations

import ast
from typing import List, Optional, Tuple

from ..core import rule
from ..dataflow import DefUse, depends_on, origins
from ..program import AnalysisError, dotted, src
from ..core import walk_local  # inline-aware
from .common import (param_compare_tests, NotPure, eval_str_expr, first_returns_from, guarded, test_polarity_absent, unwrap_await,
                     where)
from .storelib import facts, node_desc
from .c01 import response_status, return_status


def header_reads(ctx):
    """(fi, call, header-name) for every literal ``<x>.headers.get("Name", ...)``."""
    out = []
    for fi in ctx.P.all_funcs():
        if ctx.absorbed(fi):
            continue
        for n in walk_local(fi.node):
            if isinstance(n, ast.Call) and isinstance(n.func, ast.Attribute) and n.func.attr == "get" \
                    and (dotted(n.func.value) or "").endswith(".headers") and n.args:
                v = ctx.P.try_fold(fi.module, n.args[0])
                if isinstance(v, str):
                    out.append((fi, n, v))
                else:
                    raise AnalysisError("%s reads a header with a non-constant name: %s" % (fi.qualname, src(n)))
            if isinstance(n, ast.Subscript) and (dotted(n.value) or "").endswith(".headers"):
                v = ctx.P.try_fold(fi.module, n.slice)
                if isinstance(v, str):
                    out.append((fi, n, v))
    return out


def wsgi_header_key_expr(ctx):
    """The key expression and loop variables of the comprehension that fills WSGIRequest.headers."""
    fi = ctx.own_method("xandikos.webdav.WSGIRequest", "__init__")
    for n in walk_local(fi.node):
        if isinstance(n, ast.Assign) and any(dotted(t) == "self.headers" for t in n.targets):
            v = n.value
            comp = None
            for x in ast.walk(v):
                if isinstance(x, (ast.ListComp, ast.GeneratorExp, ast.DictComp)):
                    comp = x
                    break
            if comp is None:
                raise AnalysisError("WSGIRequest.headers is not built by a comprehension any more")
            gen = comp.generators[0]
            if not (isinstance(gen.iter, ast.Call) and (dotted(gen.iter.func) or "").endswith("environ.items")):
                raise AnalysisError("WSGIRequest.headers comprehension does not iterate environ.items()")
            if isinstance(comp, ast.DictComp):
                key = comp.key
            else:
                if not (isinstance(comp.elt, ast.Tuple) and len(comp.elt.elts) == 2):
                    raise AnalysisError("WSGIRequest.headers comprehension element is not a (key, value) pair")
                key = comp.elt.elts[0]
            tgt = gen.target
            if not (isinstance(tgt, ast.Tuple) and isinstance(tgt.elts[0], ast.Name)):
                raise AnalysisError("unexpected comprehension target in WSGIRequest.headers")
            kvar = tgt.elts[0].id
            # the filter must select HTTP_ keys
            prefix = None
            for cond in gen.ifs:
                if isinstance(cond, ast.Call) and isinstance(cond.func, ast.Attribute) and cond.func.attr == "startswith" \
                        and isinstance(cond.func.value, ast.Name) and cond.func.value.id == kvar and cond.args:
                    prefix = ctx.P.try_fold(fi.module, cond.args[0])
            if prefix is None:
                raise AnalysisError("WSGIRequest.headers comprehension has no startswith(<prefix>) filter")
            # container must be case-insensitive
            ci = isinstance(v, ast.Call) and (dotted(v.func) or "").split(".")[-1] in ("CIMultiDict", "CIMultiDictProxy")
            return fi, key, kvar, prefix, ci, n
    raise AnalysisError("WSGIRequest.__init__ no longer assigns self.headers")


@rule("C03", "H1", floor=5, kind="S",
      desc="every header name the handlers read is produced (case-insensitively) by the WSGI adapter's key expression "
           "from the CGI spelling HTTP_<NAME>")
def h1(ctx):
    reads = header_reads(ctx)
    if len(reads) < 6:
        raise AnalysisError("only %d literal header reads found (confirmed: 8)" % len(reads))
    fi, key, kvar, prefix, ci, assign = wsgi_header_key_expr(ctx)
    obs = []
    names = sorted({nm for _f, _c, nm in reads})
    for nm in names:
        cgi = prefix + nm.upper().replace("-", "_")
        try:
            produced = eval_str_expr(key, {kvar: cgi})
        except NotPure as e:
            raise AnalysisError("WSGIRequest.headers key expression uses an unmodelled operation: %s" % e)
        same = produced.lower() == nm.lower() if ci else produced == nm
        users = sorted({f.short for f, _c, n2 in reads if n2 == nm})
        obs.append(ctx.ob(same, fi.qualname, where(fi, assign), "header %s" % nm,
                          "environ[%r] -> headers[%r]" % (cgi, produced),
                          "handlers (%s) read header %r, but the WSGI adapter stores environ[%r] under %r%s: the header is "
                          "invisible through WSGI" % (", ".join(users), nm, cgi, produced,
                                                    "" if ci else " (container is case-sensitive)")))
    return obs


# ---------------------------------------------------------------------------- P1

def _header_var(ctx, fi, cfg, du, header: str) -> Tuple[List[str], object]:
    """Names of the local variables holding request.headers.get(<header>) (one per read site)."""
    names, first = [], None
    for n in cfg.nodes:
        for d in du.defs_at.get(n.id, []):
            v = d.value
            if d.kind != "assign" or d.index or not (isinstance(v, ast.Call) and isinstance(v.func, ast.Attribute) and v.func.attr == "get" and v.args):
                continue
            recv = origins(du, n, v.func.value)
            if not (recv and all(o.kind == "expr" and not o.path and (dotted(o.leaf) or "").endswith(".headers") for o in recv)):
                continue
            if ctx.P.try_fold(fi.module, v.args[0]) == header:
                if d.name not in names:
                    names.append(d.name)
                first = first or n
    return (names or None), first


def _match_tests(cfg, var) -> List:
    vars_ = [var] if isinstance(var, str) else list(var)
    out = []
    for n in cfg.nodes:
        if n.kind == "test" and isinstance(n.ast, ast.Call) and (dotted(n.ast.func) or "").split(".")[-1] == "etag_matches" \
                and n.ast.args and isinstance(n.ast.args[0], ast.Name) and n.ast.args[0].id in vars_:
            out.append(n)
    return out


def _bypass(cfg, vars_: List[str], strict: bool = False):
    """Edges taken when one of *vars_* is absent.  *strict*: only `is None` / `is not None` tests count - a truthiness
    test also takes that edge for a header that is present but empty."""
    out = []
    for n in cfg.nodes:
        if n.kind != "test":
            continue
        for v in vars_:
            if strict and isinstance(n.ast, ast.Name):
                continue
            lab = test_polarity_absent(n.ast, v)
            if lab:
                out.append((n, lab))
    return out


def _precondition_obligations(ctx, fi, header, fail_label, effects, effect_desc, fail_status, extra_bypass_vars=()):
    cfg = ctx.cfg(fi)
    du = DefUse(cfg)
    var, defn = _header_var(ctx, fi, cfg, du, header)
    construct = fi.qualname
    if var is None:
        return [ctx.bad(construct, fi.where, "%s evaluated before %s" % (header, effect_desc),
                        "%s no longer reads the %s header: the precondition is not evaluated at all" % (fi.short, header))]
    tests = _match_tests(cfg, var)
    if not tests:
        return [ctx.bad(construct, where(fi, defn), "%s evaluated before %s" % (header, effect_desc),
                        "the value of %s is read but never passed to etag_matches()" % header)]
    # If-Match: "present but empty" is a header that matches nothing (412), so only an `is None` test may skip the
    # evaluation; If-None-Match with no entity tag forbids nothing, a truthiness test is equivalent there
    byp = _bypass(cfg, list(var), strict=(header == "If-Match")) + _bypass(cfg, list(extra_bypass_vars))
    covered, blocked = guarded(cfg, effects, tests, fail_label, byp)
    var = "/".join(var)
    obs = []
    obs.append(ctx.ob(covered, construct, where(fi, tests[0]), "%s evaluated before %s" % (header, effect_desc),
                      "every path to the effect evaluates etag_matches(%s, ...) or takes the header-absent branch" % var,
                      "there is a path to %s that neither evaluates %s nor goes through its header-absent branch"
                      % (effect_desc, header)))
    obs.append(ctx.ob(blocked, construct, where(fi, tests[0]), "failed %s blocks %s" % (header, effect_desc),
                      "the failing side of the %s test cannot reach the effect" % header,
                      "%s is reachable from the failing side of the %s test: the request is executed although the "
                      "precondition failed" % (effect_desc, header)))
    # the failing side answers with the right status
    starts = [m for t in tests for m, l in t.succ if l == fail_label]
    rets = first_returns_from(cfg, starts)
    sts = sorted({return_status(ctx, fi, r, after=starts) for r in rets if r.ast.value is not None}, key=lambda x: (x is None, x))
    ok = bool(rets) and all(s == fail_status for s in sts)
    obs.append(ctx.ob(ok, construct, where(fi, tests[0]), "failed %s answers %d" % (header, fail_status),
                      "failing side returns %s" % sts, "failing side of the %s test returns %s, expected %d" % (header, sts, fail_status)))
    return obs, tests, var


@rule("C03", "P1", floor=12, kind="N",
      desc="PUT/DELETE/GET: the If-Match / If-None-Match evaluation guards every effect (all paths, failing side "
           "cannot reach the effect, failing side answers 412 / 304)")
def p1(ctx):
    F = facts(ctx)
    S = ctx.summaries
    obs = []

    def effect_nodes(fi):
        cfg = ctx.cfg(fi)
        return [n for n in cfg.stmt_nodes()
                if F.node_mutations(fi, n) or S.node_effects(fi, n, "creation", F.create_local, F.create)]

    put = ctx.func("xandikos.webdav.PutMethod.handle")
    eff = effect_nodes(put)
    if len(eff) < 2:
        raise AnalysisError("PutMethod.handle: expected set_body and create_member effects, found %d" % len(eff))
    for hdr, lab in (("If-Match", "f"), ("If-None-Match", "t")):
        r = _precondition_obligations(ctx, put, hdr, lab, eff, "set_body/create_member", 412)
        obs.extend(r[0] if isinstance(r, tuple) else r)
    dele = ctx.func("xandikos.webdav.DeleteMethod.handle")
    eff = effect_nodes(dele)
    if not eff:
        raise AnalysisError("DeleteMethod.handle: no delete effect found")
    r = _precondition_obligations(ctx, dele, "If-Match", "f", eff, "delete_member", 412)
    obs.extend(r[0] if isinstance(r, tuple) else r)
    # GET / HEAD
    get = ctx.func("xandikos.webdav._do_get")
    cfg = ctx.cfg(get)
    ok_returns = [n for n in cfg.nodes if n.kind == "return" and n.ast.value is not None
                  and return_status(ctx, get, n) == 200]
    if not ok_returns:
        # status held in a variable: fall back to "the returns that send the body"
        ok_returns = [n for n in cfg.nodes if n.kind == "return" and isinstance(n.ast.value, ast.Call)
                      and any(k.arg == "body" for k in n.ast.value.keywords)]
    if not ok_returns:
        raise AnalysisError("_do_get: no 200 return found")
    # the variable holding the current etag: third element of the render() tuple
    etag_vars = []
    for n in cfg.stmt_nodes():
        if n.kind == "stmt" and isinstance(n.ast, ast.Assign) and isinstance(n.ast.targets[0], ast.Tuple):
            v = unwrap_await(n.ast.value)
            if isinstance(v, ast.Call) and (dotted(v.func) or "").endswith(".render") and len(n.ast.targets[0].elts) >= 3:
                e = n.ast.targets[0].elts[2]
                if isinstance(e, ast.Name):
                    etag_vars.append(e.id)
    r = _precondition_obligations(ctx, get, "If-None-Match", "t", ok_returns, "the 200 response", 304,
                                  extra_bypass_vars=etag_vars)
    if isinstance(r, tuple):
        obs.extend(r[0])
        tests = r[1]
        # 304 carries no body
        starts = [m for t in tests for m, l in t.succ if l == "t"]
        for ret in first_returns_from(cfg, starts):
            v = ret.ast.value
            has_body = isinstance(v, ast.Call) and any(k.arg == "body" for k in v.keywords)
            obs.append(ctx.ob(not has_body, get.qualname, where(get, ret), "304 has no body",
                              "304 response is built without a body", "the 304 response carries a body"))
        # the etag compared is the one render() returned
        for t in tests:
            a = t.ast.args[1] if len(t.ast.args) > 1 else None
            ok = isinstance(a, ast.Name) and a.id in etag_vars
            obs.append(ctx.ob(ok, get.qualname, where(get, t), "If-None-Match compared with the rendered etag",
                              "etag_matches(..., %s) uses the etag slot of render()" % (src(a) if a is not None else "?"),
                              "etag_matches is not given the etag returned by render()"))
    else:
        obs.extend(r)
    return obs


# ---------------------------------------------------------------------------- P2

@rule("C03", "P2", floor=5, kind="S",
      desc="the ETag tested is the ETag of the addressed resource and the same value is handed down to the store "
           "(replace_etag / etag argument)")
def p2(ctx):
    obs = []
    for q, eff_attr, argpos in (("xandikos.webdav.PutMethod.handle", "set_body", 1),
                                ("xandikos.webdav.DeleteMethod.handle", "delete_member", 1)):
        fi = ctx.func(q)
        cfg = ctx.cfg(fi)
        du = DefUse(cfg)
        # resource variable: element 2 of _get_resource_from_environ(...)
        # resource variables: locals that hold component 2 (the resource) of what _get_resource_from_environ(...) returned -
        # bound by tuple unpacking or read from the record it returns
        rvars = []
        for d_ in du.all_defs:
            if d_.kind != "assign" or d_.value is None or d_.node is None:
                continue
            os_ = origins(du, d_.node, d_.value, tuple(d_.index))
            if os_ and all(o.kind == "expr" and tuple(o.path) == (2,) and isinstance(unwrap_await(o.leaf), ast.Call)
                           and (dotted(unwrap_await(o.leaf).func) or "").endswith("_get_resource_from_environ") for o in os_):
                if d_.name not in rvars:
                    rvars.append(d_.name)
        if not rvars:
            raise AnalysisError("%s: resource variable not found" % q)
        rvar = rvars[0]
        tests = [n for n in cfg.nodes if n.kind == "test" and isinstance(n.ast, ast.Call)
                 and (dotted(n.ast.func) or "").split(".")[-1] == "etag_matches"]
        if not tests:
            raise AnalysisError("%s: no etag_matches test" % q)
        by_ast_ = {}
        for n_ in cfg.nodes:
            if n_.kind == "test":
                by_ast_.setdefault(id(n_.ast), n_)

        def absent_cond(t_, pol_):
            """(test, polarity) says the addressed resource does not exist."""
            def is_res(x):
                if isinstance(x, ast.Name) and x.id in rvars:
                    return True
                if isinstance(x, ast.Attribute):      # `target.resource is None`
                    tn_ = by_ast_.get(id(t_))
                    os2 = origins(du, tn_, x) if tn_ is not None else []
                    return bool(os2) and all(o.kind == "expr" and tuple(o.path) == (2,) and isinstance(unwrap_await(o.leaf), ast.Call)
                                             and (dotted(unwrap_await(o.leaf).func) or "").endswith("_get_resource_from_environ") for o in os2)
                return False
            if isinstance(t_, ast.Compare) and len(t_.ops) == 1 and is_res(t_.left) \
                    and isinstance(t_.comparators[0], ast.Constant) and t_.comparators[0].value is None:
                return (isinstance(t_.ops[0], ast.IsNot) and not pol_) or (isinstance(t_.ops[0], ast.Is) and pol_)
            if is_res(t_):
                return not pol_
            return False

        def etag_sources(node, expr):
            """(problems, is the addressed resource's etag) for the value of *expr* at *node*."""
            bad, good = [], False
            for o in origins(du, node, expr):
                v = unwrap_await(o.leaf) if o.leaf is not None else None
                if o.is_none():
                    req = list(cfg.required_conditions(o.node)) if o.node is not None else []
                    if not (any(absent_cond(tt, pol) for tt, pol in req) or any(absent_cond(tt, pol) for tt, pol, _n in o.conds)):
                        bad.append("None assigned although the resource may exist")
                    continue
                if o.kind == "expr" and not o.path and isinstance(v, ast.Call) and isinstance(v.func, ast.Attribute) and v.func.attr == "get_etag":
                    recv = origins(du, o.node, v.func.value)
                    if recv and all(r_.kind == "expr" and r_.path == (2,) and isinstance(unwrap_await(r_.leaf), ast.Call)
                                    and (dotted(unwrap_await(r_.leaf).func) or "").endswith("_get_resource_from_environ") for r_ in recv):
                        good = True
                        continue
                bad.append("defined by `%s`" % (src(o.leaf) if o.leaf is not None else o.name))
            return bad, good

        for t in tests:
            a = t.ast.args[1] if len(t.ast.args) > 1 else None
            if a is None:
                obs.append(ctx.bad(q, where(fi, t), "etag_matches compares a variable", "etag_matches has no second argument"))
                continue
            bad, good = etag_sources(t, a)
            obs.append(ctx.ob(not bad and good, q, where(fi, t), "%s tested against %s.get_etag()" % (src(t.ast.args[0]), rvar),
                              "the tested etag is `await %s.get_etag()` of the addressed resource" % rvar,
                              "the etag compared with the header is not the addressed resource's: " + ("; ".join(bad) or "no get_etag() of it")))
        # handed down
        calls = [(n, c) for n in cfg.stmt_nodes() for c in n.calls()
                 if isinstance(c.func, ast.Attribute) and c.func.attr == eff_attr]
        if not calls:
            raise AnalysisError("%s: call of %s not found" % (q, eff_attr))
        for n, c in calls:
            a = c.args[argpos] if len(c.args) > argpos else None
            for k in c.keywords:
                if k.arg in ("replace_etag", "etag"):
                    a = k.value
            ok = False
            if a is not None:
                bad, good = etag_sources(n, a)
                ok = good and not bad
            obs.append(ctx.ob(ok, q, where(fi, n), "%s receives the tested etag" % eff_attr,
                              "`%s` passes %s down, so the store re-checks it" % (eff_attr, src(a) if a is not None else "?"),
                              "`%s` is not given the etag that was tested (%s): the store cannot detect a change between "
                              "test and write" % (node_desc(n), src(a) if a is not None else "no etag argument")))
    # web layer forwards it to the store
    for cq, nm, callee, kw in (("xandikos.web.ObjectResource", "set_body", "import_one", "replace_etag"),
                               ("xandikos.web.StoreBasedCollection", "delete_member", "delete_one", "etag")):
        fi = ctx.own_method(cq, nm)
        param = "replace_etag" if nm == "set_body" else "etag"
        found = False
        cfgw = ctx.cfg(fi)
        duw = DefUse(cfgw)
        for nd in cfgw.stmt_nodes():
            for n in nd.calls():
                names = [dotted(a) for a in n.args] + [(dotted(n.func) or "")]
                if not any((nm2 or "").endswith(callee) for nm2 in names):
                    continue
                # the keyword argument is derived from the parameter (directly or through a local / a conversion)
                if any(k.arg == kw and param in depends_on(duw, nd, k.value) for k in n.keywords):
                    found = True
        obs.append(ctx.ob(found, fi.qualname, fi.where, "%s forwards %s to store.%s" % (nm, param, callee),
                          "the etag reaches the store call", "%s no longer forwards `%s` to store.%s(%s=...)" % (fi.short, param, callee, kw)))
    return obs


# ---------------------------------------------------------------------------- P3

@rule("C03", "P3", floor=5, kind="N",
      desc="store API: replace_etag / etag arguments are compared with the current etag before any mutation")
def p3(ctx):
    F = facts(ctx)
    obs = []
    for cq in ("xandikos.store.git.GitStore", "xandikos.store.vdir.VdirStore"):
        fi = ctx.own_method(cq, "_check_duplicate")
        cfg = ctx.cfg(fi)
        du = DefUse(cfg)
        raises = [n for n in cfg.nodes if n.kind == "raise" and n.extra.get("exc") == "InvalidETag"]
        if not raises:
            obs.append(ctx.bad(fi.qualname, fi.where, "raises InvalidETag on mismatch",
                               "%s never raises InvalidETag: a stale replace_etag is accepted" % fi.short))
            continue
        pos = [p for p in fi.params if p not in ("self", "cls")]
        p_re = pos[2] if len(pos) > 2 else "replace_etag"
        tests = param_compare_tests(cfg, du, p_re)
        for r in raises:
            req = cfg.required_conditions(r)
            has_present = any(test_polarity_absent(t, p_re) is not None and
                              ((test_polarity_absent(t, p_re) == "f") == pol) for t, pol in req)
            cmp_ok = False
            for tn in tests:
                t = tn.ast
                diff = "t" if isinstance(t.ops[0], ast.NotEq) else "f"
                # the raise is only reachable through the 'different' edge of this comparison
                if r.id in cfg.reachable([cfg.entry], block_edges=cfg.test_edges(tn, diff)):
                    continue
                for side in (t.left, t.comparators[0]):
                    if p_re in depends_on(du, tn, side):
                        continue
                    os_ = origins(du, tn, side)
                    cur = [o for o in os_ if o.kind == "expr" and isinstance(o.leaf, ast.Call) and dotted(o.leaf.func) == "self._get_etag"]
                    rest = [o for o in os_ if o not in cur and not (o.kind == "expr" and isinstance(o.leaf, ast.Constant) and o.leaf.value is None)]
                    if cur and not rest:
                        cmp_ok = True
            obs.append(ctx.ob(has_present and cmp_ok, fi.qualname, where(fi, r), "InvalidETag iff replace_etag given and different",
                              "raise is control-dependent on `replace_etag is not None and etag != replace_etag` with etag = self._get_etag(name)",
                              "the InvalidETag refusal is not guarded by a comparison of replace_etag with self._get_etag(name)"))
        # the non-raising exit requires equality when an etag is given: the return is not reachable from the mismatch edge
        if tests:
            fail = "t" if isinstance(tests[0].ast.ops[0], ast.NotEq) else "f"
            byp = _bypass(cfg, [p_re])
            covered, blocked = guarded(cfg, [cfg.exit], tests, fail, byp)
            obs.append(ctx.ob(covered and blocked, fi.qualname, where(fi, tests[0]), "normal return implies etag matched or not given",
                              "every normal return passed the comparison (or replace_etag is None)",
                              "%s can return normally although replace_etag differs from the current etag" % fi.short))
    for cq in ("xandikos.store.git.BareGitStore", "xandikos.store.git.TreeGitStore", "xandikos.store.vdir.VdirStore"):
        fi = ctx.own_method(cq, "delete_one")
        cfg = ctx.cfg(fi)
        muts = [n for n in cfg.stmt_nodes() if F.node_mutations(fi, n)]
        if not muts:
            raise AnalysisError("%s.delete_one: no mutation found" % cq)
        tests = param_compare_tests(cfg, DefUse(cfg), "etag")
        if not tests:
            obs.append(ctx.bad(fi.qualname, fi.where, "etag compared before delete",
                               "%s never compares `etag` with the current etag" % fi.short))
            continue
        fail = "t" if isinstance(tests[0].ast.ops[0], ast.NotEq) else "f"
        byp = _bypass(cfg, ["etag"])
        covered, blocked = guarded(cfg, muts, tests, fail, byp)
        # ... with the etag the member has NOW (read in this call), not with what an earlier scan remembered
        du_ = DefUse(cfg)
        stale = []
        for tn in tests:
            for side in (tn.ast.left, tn.ast.comparators[0]):
                deps = depends_on(du_, tn, side)
                if "etag" in deps:
                    continue
                from .c06 import map_names as _mn
                _store_cls = "xandikos.store.vdir.VdirStore" if cq.endswith("VdirStore") else "xandikos.store.git.GitStore"
                cached = sorted(d_ for d_ in deps if d_ in _mn(ctx, _store_cls))
                if cached:
                    stale.append((tn, cached))
        obs.append(ctx.ob(not stale, fi.qualname, where(fi, tests[0]), "etag compared with a fresh read",
                          "the current etag is computed in this call",
                          "%s compares `etag` with a value taken from %s (filled by the last uid scan), not with the member's current etag: after an "
                          "overwrite a stale etag still deletes and the current one is refused" % (fi.short, stale[0][1] if stale else "")))
        obs.append(ctx.ob(covered and blocked, fi.qualname, where(fi, tests[0]), "etag compared before delete",
                          "every path to the deletion compares etag with the current one (or etag is None); mismatch cannot reach it",
                          "the deletion is reachable %s" % ("without the etag comparison" if not covered else "from the mismatch side of the etag comparison")))
    return obs


@rule("C03", "M1", floor=3, kind="S",
      desc="etag list grammar: etag_matches splits the header value on ',' (HTTP list separator), strips optional "
           "white space of every element, accepts '*', and compares each element with the actual etag")
def m1(ctx):
    from ..dataflow import DefUse, origins, depends_on
    fi = ctx.func("xandikos.webdav.etag_matches")
    if len(fi.params) < 2:
        raise AnalysisError("etag_matches: expected (condition, actual_etag)")
    cfg = ctx.cfg(fi)
    du = DefUse(cfg)
    obs = []
    cond, actual = fi.params[0], fi.params[1]

    def split_call(e):
        return isinstance(e, ast.Call) and isinstance(e.func, ast.Attribute) and e.func.attr in ("split", "rsplit") and e.args is not None

    def from_cond(n, e):
        os_ = origins(du, n, e)
        return bool(os_) and all(o.kind == "param" and o.name == cond for o in os_)

    splits = []
    for n in cfg.stmt_nodes():
        for c in n.calls():
            if split_call(c) and from_cond(n, c.func.value):
                splits.append((n, c))
    if not splits:
        raise AnalysisError("etag_matches no longer splits its condition with str.split (unmodelled parser)")
    for n, sp in splits:
        sep = ctx.P.try_fold(fi.module, sp.args[0]) if sp.args else None
        obs.append(ctx.ob(sep == ",", fi.qualname, where(fi, n), "list split on ','",
                          "separator %r" % sep, "etag_matches splits the header on %r: a list written without exactly that separator "
                          "(e.g. '\"a\",\"b\"') is not recognised, so a listed etag does not match" % sep))
    split_ids = {id(c) for _n, c in splits}

    def is_element(n, e, depth=0):
        """*e* at *n* is one element of the split list (loop / comprehension variable or a subscript of the list)."""
        os_ = origins(du, n, e)
        if not os_:
            return False
        for o in os_:
            if o.kind == "elem" and id(o.leaf) in split_ids:
                continue
            if o.kind == "expr" and id(o.leaf) in split_ids and o.path:
                continue
            if o.kind == "expr" and isinstance(o.leaf, ast.Subscript) and depth < 3 and is_list(o.node or n, o.leaf.value):
                continue
            return False
        return True

    def is_list(n, e):
        os_ = origins(du, n, e)
        return bool(os_) and all(o.kind == "expr" and id(o.leaf) in split_ids and not o.path for o in os_)

    def strips_blank(lf):
        if not (isinstance(lf, ast.Call) and isinstance(lf.func, ast.Attribute) and lf.func.attr == "strip"):
            return False
        chars = ctx.P.try_fold(fi.module, lf.args[0]) if lf.args else " \t"
        return isinstance(chars, str) and " " in chars and not chars.strip()

    def stripped_element(n, e):
        os_ = origins(du, n, e)
        if not os_:
            return False
        for o in os_:
            lf = o.leaf
            if o.kind == "elem" and isinstance(lf, (ast.GeneratorExp, ast.ListComp, ast.SetComp)) and len(lf.generators) == 1 \
                    and not lf.generators[0].ifs and isinstance(lf.generators[0].target, ast.Name):
                # element of `(v.strip() for v in cond.split(","))`
                g = lf.generators[0]
                if strips_blank(lf.elt) and isinstance(lf.elt.func.value, ast.Name) and lf.elt.func.value.id == g.target.id \
                        and (id(g.iter) in split_ids or is_list(o.node or n, g.iter)):
                    continue
                return False
            if not (o.kind == "expr" and strips_blank(lf)):
                return False
            if not is_element(o.node or n, lf.func.value):
                return False
        return True

    n_cmp = 0
    star_ok = False
    bad = []
    for n in cfg.stmt_nodes():
        for e in n.exprs():
            for x in ast.walk(e):
                if not (isinstance(x, ast.Compare) and len(x.ops) == 1 and isinstance(x.ops[0], (ast.Eq, ast.NotEq, ast.In, ast.NotIn))):
                    continue
                left, right = x.left, x.comparators[0]
                alts = list(right.elts) if isinstance(x.ops[0], (ast.In, ast.NotIn)) and isinstance(right, (ast.Tuple, ast.List, ast.Set)) else [right]
                for l_, r_ in [(left, a_) for a_ in alts] + [(a_, left) for a_ in alts]:
                    is_star = isinstance(r_, ast.Constant) and r_.value == "*"
                    is_actual = not isinstance(r_, ast.Constant) and actual in depends_on(du, n, r_) and cond not in depends_on(du, n, r_)
                    if not (is_star or is_actual):
                        continue
                    if cond not in depends_on(du, n, l_):
                        continue
                    good = stripped_element(n, l_)
                    if is_star and good:
                        star_ok = True
                    if is_actual:
                        n_cmp += 1
                        if not good:
                            bad.append((n, x))
    if n_cmp == 0:
        raise AnalysisError("etag_matches: no comparison of a list element with the actual etag found")
    obs.append(ctx.ob(not bad, fi.qualname, where(fi, bad[0][0]) if bad else fi.where, "elements are stripped of optional white space",
                      "every comparison with the actual etag uses element.strip()",
                      "etag_matches compares `%s`: the value compared with the actual etag is not a list element stripped of its optional "
                      "white space, so '\"a\", \"b\"' does not match \"b\"" % (src(bad[0][1]) if bad else "")))
    obs.append(ctx.ob(star_ok, fi.qualname, fi.where, "'*' is recognised", "a stripped element is compared with '*'",
                      "etag_matches no longer recognises '*' as a list element"))
    return obs

@rule("C03", "P4", floor=40, kind="N",
      desc="the resource a precondition is evaluated against is the resource the request then writes: the name that is "
           "looked up and the name that is created / replaced are the same string (same obligations as C16/N1 - a name "
           "normalised on one side lets `If-None-Match: *` succeed over an existing resource)")
def p4(ctx):
    from .c16 import opaque_name_obligations
    return opaque_name_obligations(ctx)


@rule("C03", "P5", floor=4, kind="N",
      desc="the etag argument of the store API is always evaluated: _check_duplicate (which compares replace_etag) "
           "completes before every mutation of import_one on every path - also for objects without a UID (the dominance "
           "obligations of C06/U1)")
def p5(ctx):
    from .c06 import u1
    return [o for o in u1(ctx) if o.detail.startswith("_check_duplicate dominates") or o.detail == "calls _check_duplicate"]


@rule("C03", "P6", floor=4, kind="N",
      desc="preconditions are evaluated against the resource that is there: what get_member()/the listing cannot see "
           "looks absent to If-None-Match / If-Match, so the listers skip entries only by name tests that the writers "
           "refuse (same obligations as C01/H6)")
def p6(ctx):
    from .c01 import skip_obligations
    return skip_obligations(ctx)


@rule("C03", "P7", floor=1, kind="S",
      desc="If-None-Match: * is decided and acted on without a gap: create_member passes no expected state to the store, so "
           "between PUT's lookup and the store call there is no suspension point - import_one is called directly, not "
           "through await / to_thread (set_body may suspend because it hands the observed ETag to the store, which re-checks)")
def p7(ctx):
    fi = ctx.own_method("xandikos.web.StoreBasedCollection", "create_member")
    cfg = ctx.cfg(fi)
    obs = []
    n = 0
    for x in cfg.stmt_nodes():
        for e in x.exprs():
            for y in ast.walk(e):
                if isinstance(y, ast.Call) and "import_one" in src(y):
                    direct = isinstance(y.func, ast.Attribute) and y.func.attr == "import_one"
                    via_thread = (dotted(y.func) or "").split(".")[-1] in ("to_thread", "run_in_executor", "create_task", "ensure_future")
                    if not (direct or via_thread):
                        continue
                    n += 1
                    guarded = any(k.arg == "replace_etag" and not (isinstance(k.value, ast.Constant) and k.value.value is None) for k in y.keywords)
                    obs.append(ctx.ob(direct or guarded, fi.qualname, "%s:%d" % (fi.module.rel, x.lineno), "the create is not separated from its precondition",
                                      "store.import_one(...) is called directly",
                                      "create_member runs import_one through `%s` without an expected state: the request suspends between "
                                      "PUT's If-None-Match / If-Match check and the write, a second PUT for the same new name passes its check in "
                                      "the gap, and both are answered 201 - the later one replaces the first" % src(y.func)))
                    break
    if not n:
        raise AnalysisError("create_member: import_one call not found")
    return obs[:1] if obs else obs
