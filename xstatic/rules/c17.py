"""C17 — multiget returns, for each requested href, the current resource or 404."""

from __future__ import annotations

import ast

from ..core import rule
from ..dataflow import DefUse, origins
from ..program import AnalysisError, dotted, src
from ..core import walk_local  # inline-aware
from .common import unwrap_await, handler_catching, where, loops_over

MG = "xandikos.davcommon.MultiGetReporter"


def _yields(cfg):
    return [n for n in cfg.stmt_nodes() if n.kind == "stmt" and isinstance(n.ast, ast.Expr) and isinstance(n.ast.value, ast.Yield)]


def _none_test(t, pol, var):
    """True if (t, pol) means `var is None`; False if it means `var is not None`; None otherwise."""
    if isinstance(t, ast.Compare) and len(t.ops) == 1 and isinstance(t.left, ast.Name) and t.left.id == var \
            and isinstance(t.comparators[0], ast.Constant) and t.comparators[0].value is None:
        if isinstance(t.ops[0], ast.Is):
            return pol
        if isinstance(t.ops[0], ast.IsNot):
            return not pol
    return None


@rule("C17", "M1", floor=3, kind="S",
      desc="multiget driver: an unresolved href is answered 404 without any property; a resolved one gets every "
           "requested property through get_properties_with_data with the reporter's data property")
def m1(ctx):
    fi = ctx.own_method(MG, "report")
    cfg = ctx.cfg(fi)
    du = DefUse(cfg)
    obs = []
    ys = _yields(cfg)
    if len(ys) < 2:
        raise AnalysisError("MultiGetReporter.report: expected two yields")
    seen = {True: False, False: False}
    # the (href, resource) pair bound by the loop over resources_by_hrefs(...)
    mg_loops = loops_over(cfg, "resources_by_hrefs", du, exact=True)
    rvar = None
    for lp in mg_loops:
        tg = lp.ast.target
        if isinstance(tg, ast.Tuple) and len(tg.elts) == 2 and isinstance(tg.elts[1], ast.Name):
            rvar = tg.elts[1].id
    if rvar is None:
        # the pair is bound some other way (e.g. by a spliced-in generator): the resource variable is the one the
        # responses are conditioned on
        cands = {}
        for y in ys:
            for t, pol in cfg.required_conditions(y):
                if isinstance(t, ast.Compare) and len(t.ops) == 1 and isinstance(t.left, ast.Name) and isinstance(t.comparators[0], ast.Constant) \
                        and t.comparators[0].value is None:
                    cands[t.left.id] = cands.get(t.left.id, 0) + 1
        if cands:
            rvar = max(cands, key=cands.get)
    if rvar is None or not mg_loops:
        raise AnalysisError("MultiGetReporter.report: `for href, resource in resources_by_hrefs(...)` not found")
    # every response is for a pair that resources_by_hrefs produced (it answers each distinct href once)
    def status_of(y):
        """(Status(...) call, node where it is evaluated) for a yield: the response may be built by a helper
        (`yield await self._response(...)`, inlined) or bound to a local before it is yielded."""
        v = unwrap_await(y.ast.value.value)
        if isinstance(v, ast.Call):
            return v, y
        os_ = origins(du, y, v) if v is not None else []
        if len(os_) == 1 and os_[0].kind == "expr" and not os_[0].path and isinstance(unwrap_await(os_[0].leaf), ast.Call) and os_[0].node is not None:
            return unwrap_await(os_[0].leaf), os_[0].node
        return v, y

    for y in ys:
        st0, y0 = status_of(y)
        if not (isinstance(st0, ast.Call) and st0.args):
            continue
        ho = origins(du, y0, st0.args[0])
        paired = bool(ho) and all(o.kind == "elem" and o.node in mg_loops and tuple(o.path) == (0,) for o in ho)
        obs.append(ctx.ob(paired, fi.qualname, where(fi, y), "response href is one resources_by_hrefs() produced",
                          "href <- for href, resource in resources_by_hrefs(hrefs)",
                          "a response is produced for `%s`, which does not come out of resources_by_hrefs(): that function answers every "
                          "distinct href once, a second source of (href, resource) pairs answers repeated or differently spelled hrefs twice"
                          % src(st0.args[0])))
    # the data call: get_properties_with_data(self.data_property, href, <that resource>, ...)
    data_calls_ok = []
    for n_ in cfg.nodes:
        for c_ in n_.calls():
            if (dotted(c_.func) or "").endswith("get_properties_with_data"):
                from .common import call_arg
                a_res = call_arg(ctx, fi, c_, "resource", 2)
                a_dp = call_arg(ctx, fi, c_, "data_property", 0)
                a2 = origins(du, n_, a_res) if a_res is not None else []
                data_calls_ok.append(a_dp is not None and dotted(a_dp) == "self.data_property" and bool(a2)
                                     and all(o.kind == "elem" and o.node in mg_loops and tuple(o.path) == (1,) for o in a2))
    for y in ys:
        st, y0 = status_of(y)
        isnone = None
        for t, pol in cfg.required_conditions(y):
            r = _none_test(t, pol, rvar)
            if r is not None:
                isnone = r
        if isnone is None or not isinstance(st, ast.Call):
            obs.append(ctx.bad(fi.qualname, where(fi, y), "response conditioned on `resource is None`", "a response is produced without testing whether the href resolved"))
            continue
        seen[isnone] = True
        status = ctx.P.try_fold(fi.module, st.args[1]) if len(st.args) > 1 else None
        for k in st.keywords:
            if k.arg == "status":
                status = ctx.P.try_fold(fi.module, k.value)
        ps = [k.value for k in st.keywords if k.arg == "propstat"]
        if isnone:
            empty = not ps or (isinstance(ps[0], (ast.List, ast.Tuple)) and not ps[0].elts) or (isinstance(ps[0], ast.Constant) and ps[0].value is None)
            ok = isinstance(status, str) and status.startswith("404") and empty
            obs.append(ctx.ob(ok, fi.qualname, where(fi, y), "unresolved href -> 404 without properties",
                              "Status(href, %r, propstat=[])" % status,
                              "an href that does not resolve is answered with status %r and propstat %s (expected 404 and no property/data)"
                              % (status, src(ps[0]) if ps else "none")))
        else:
            ok = isinstance(status, str) and status.startswith("200") and bool(ps)
            from_data = False
            if ps:
                from ..dataflow import depends_on
                deps = depends_on(du, y0, ps[0])
                from_data = any(d_.startswith("<call:") and d_.rstrip(">").endswith("get_properties_with_data") for d_ in deps) \
                    and bool(data_calls_ok) and all(data_calls_ok)
            obs.append(ctx.ob(ok and from_data, fi.qualname, where(fi, y), "resolved href -> properties of that resource",
                              "propstat from get_properties_with_data(self.data_property, href, resource, ...)",
                              "the response for a resolved href is not built from get_properties_with_data(self.data_property, href, resource, ...)"))
    obs.append(ctx.ob(seen[True] and seen[False], fi.qualname, fi.where, "both outcomes answered", "404 and 200 branches present",
                      "MultiGetReporter.report no longer answers both resolved and unresolved hrefs"))
    # the loop iterates what resources_by_hrefs(hrefs) returns, hrefs read from {DAV:}href elements
    loops = loops_over(cfg, "resources_by_hrefs", exact=True)
    obs.append(ctx.ob(bool(loops), fi.qualname, fi.where, "every requested href is resolved", "for href, resource in resources_by_hrefs(hrefs)",
                      "the report no longer iterates resources_by_hrefs(hrefs)"))
    return obs


DATA_PROPS = [("xandikos.caldav.CalendarDataProperty", "text/calendar", "xandikos.caldav.CalendarMultiGetReporter"),
              ("xandikos.carddav.AddressDataProperty", "text/vcard", "xandikos.carddav.AddressbookMultiGetReporter")]


@rule("C17", "M2", floor=6, kind="S",
      desc="kind check: supported_on is tested before get_value(_ext) and a failure is a 404; the data properties "
           "compare the resource's content type with their own kind; each multiget reporter is bound to its own kind")
def m2(ctx):
    obs = []
    fi = ctx.func("xandikos.webdav.get_property_from_element")
    cfg = ctx.cfg(fi)
    tests = [n for n in cfg.nodes if n.kind == "test" and isinstance(n.ast, ast.Call) and isinstance(n.ast.func, ast.Attribute) and n.ast.func.attr == "supported_on"]
    gets = [n for n in cfg.stmt_nodes() for c in n.calls() if isinstance(c.func, ast.Attribute) and c.func.attr in ("get_value", "get_value_ext")]
    if not gets:
        raise AnalysisError("get_property_from_element: no get_value call")
    if not tests:
        obs.append(ctx.bad(fi.qualname, fi.where, "supported_on tested before get_value", "get_property_from_element no longer tests prop.supported_on(resource)"))
    else:
        r_fail = cfg.reachable([m for t in tests for m, l in t.succ if l == "f"])
        r_skip = cfg.reachable([cfg.entry], block_nodes=tests)
        for g in gets:
            ok = g.id not in r_fail and g.id not in r_skip
            obs.append(ctx.ob(ok, fi.qualname, where(fi, g), "supported_on guards %s" % [c.func.attr for c in g.calls() if isinstance(c.func, ast.Attribute)][0],
                              "value is produced only after supported_on(resource) returned true",
                              "`%s` is reachable %s: a data property can be produced for a resource of the wrong kind"
                              % (g.text()[:60], "although supported_on returned false" if g.id in r_fail else "without supported_on being evaluated")))
        # the failing side ends in 404
        ok404 = False
        for t in tests:
            for m, l in t.succ:
                if l == "f":
                    reach_f = cfg.reachable([m])
                    for x in cfg.nodes:
                        if x.id not in reach_f:
                            continue
                        # the status is a local assigned "404 Not Found", or the constant handed to the PropStatus that is returned
                        if x.kind == "stmt" and isinstance(x.ast, ast.Assign) and ctx.P.try_fold(fi.module, x.ast.value) == "404 Not Found":
                            ok404 = True
                        if x.kind == "return" and x.ast.value is not None and any(
                                isinstance(c_, ast.Constant) and c_.value == "404 Not Found" for c_ in ast.walk(x.ast.value)):
                            ok404 = True
        obs.append(ctx.ob(ok404, fi.qualname, fi.where, "unsupported property -> 404", "statuscode 404 Not Found", "an unsupported property is not answered with 404"))
    for pq, ct, rq in DATA_PROPS:
        pc = ctx.P.cls(pq)
        so = pc.methods.get("supported_on")
        ok = False
        if so is not None:
            ctx.functions_analysed.add(so.qualname)
            for n in walk_local(so.node):
                if isinstance(n, ast.Return) and isinstance(n.value, ast.Compare) and isinstance(n.value.ops[0], ast.Eq):
                    sides = [n.value.left, n.value.comparators[0]]
                    consts = [ctx.P.try_fold(so.module, s) for s in sides]
                    calls = [s for s in sides if isinstance(s, ast.Call) and (dotted(s.func) or "").endswith("resource.get_content_type")]
                    ok = ct in consts and bool(calls)
        obs.append(ctx.ob(ok, pq, "%s:%d" % (pc.module.rel, pc.node.lineno), "supported_on == content type %s" % ct,
                          "resource.get_content_type() == %r" % ct,
                          "%s.supported_on does not compare the resource's content type with %r: data is served for resources of another kind" % (pc.name, ct)))
        rc = ctx.P.cls(rq)
        dp = rc.attrs.get("data_property")
        okb = isinstance(dp, ast.Call) and (dotted(dp.func) or "").split(".")[-1] == pc.name
        obs.append(ctx.ob(okb, rq, "%s:%d" % (rc.module.rel, rc.node.lineno), "reporter bound to %s" % pc.name,
                          "data_property = %s()" % pc.name, "%s.data_property is `%s`, not %s()" % (rc.name, src(dp) if dp is not None else "missing", pc.name)))
    return obs


def _identity_chain(cfg, du, node, e, depth=0) -> bool:
    """Is *e* (on the no-sub-elements path) the body passed only through byte-joining and decoding -
    i.e. no transformation that could alter the characters?"""
    if depth > 4:
        return False
    while isinstance(e, ast.Await):
        e = e.value
    if isinstance(e, ast.Call) and isinstance(e.func, ast.Attribute):
        if e.func.attr == "decode":
            return _identity_chain(cfg, du, node, e.func.value, depth + 1)
        if e.func.attr == "join" and isinstance(e.func.value, ast.Constant) and e.func.value.value in (b"", "") and len(e.args) == 1:
            return _identity_chain(cfg, du, node, e.args[0], depth + 1)
        if dotted(e.func) == "resource.get_body" and not e.args:
            return True
        return False
    if isinstance(e, ast.Name):
        defs = du.reaching(node, e.id)
        oks = []
        for d in defs:
            if d.value is None or d.kind != "assign":
                return False
            req = cfg.required_conditions(d.node)
            if any(isinstance(t, ast.Compare) and "requested" in src(t) and not pol for t, pol in req):
                continue  # definition on the sub-elements path
            oks.append(_identity_chain(cfg, du, d.node, d.value, depth + 1))
        return bool(oks) and all(oks)
    return False


def data_from_body(ctx, prop_q: str, reporter_q: str = None):
    obs = []
    pc = ctx.P.cls(prop_q)
    gv = pc.methods.get("get_value_ext")
    if gv is None:
        raise AnalysisError("%s.get_value_ext missing" % prop_q)
    ctx.functions_analysed.add(gv.qualname)
    cfg = ctx.cfg(gv)
    du = DefUse(cfg)
    # the node that assigns el.text
    sets = [n for n in cfg.stmt_nodes() if n.kind == "stmt" and isinstance(n.ast, ast.Assign) and any(dotted(t) == "el.text" for t in n.ast.targets)]
    if not sets:
        raise AnalysisError("%s.get_value_ext does not assign el.text" % prop_q)
    for s in sets:
        # on the path without sub-elements the value derives from resource.get_body()
        def from_body(e, node, depth=0):
            for x in ast.walk(e):
                if isinstance(x, ast.Call) and dotted(x.func) == "resource.get_body":
                    return True
            if depth > 3:
                return False
            for x in ast.walk(e):
                if isinstance(x, ast.Name):
                    for d in du.reaching(node, x.id):
                        if d.value is not None and d.kind == "assign":
                            # only definitions on the "no sub-elements" path count
                            req = cfg.required_conditions(d.node)
                            other = any(isinstance(t, ast.Compare) and "requested" in src(t) and not pol for t, pol in req)
                            if not other and from_body(d.value, d.node, depth + 1):
                                return True
            return False
        ok = from_body(s.ast.value, s) and _identity_chain(cfg, du, s, s.ast.value)
        obs.append(ctx.ob(ok, gv.qualname, where(gv, s), "data without sub-elements is resource.get_body()",
                          "el.text <- b''.join(await resource.get_body()).decode()",
                          "%s does not hand out resource.get_body() unchanged (only joining and decoding are allowed on the way) for a request without "
                          "sub-elements: the data can differ from what GET serves" % pc.name))
    if reporter_q:
        rc = ctx.P.cls(reporter_q)
        dp = rc.attrs.get("data_property")
        okb = isinstance(dp, ast.Call) and (dotted(dp.func) or "").split(".")[-1] == pc.name
        obs.append(ctx.ob(okb, reporter_q, "%s:%d" % (rc.module.rel, rc.node.lineno), "reporter bound to %s" % pc.name,
                          "data_property = %s()" % pc.name, "%s.data_property is not %s()" % (rc.name, pc.name)))
    return obs


@rule("C17", "M3", floor=3, kind="S", desc="same bytes as GET: both data properties and Resource.render take the body from get_body()")
def m3(ctx):
    obs = []
    for pq, ct, rq in DATA_PROPS:
        obs.extend(data_from_body(ctx, pq))
    rd = ctx.own_method("xandikos.webdav.Resource", "render")
    cfg = ctx.cfg(rd)
    du = DefUse(cfg)
    ok = False
    for r in [n for n in cfg.nodes if n.kind == "return"]:
        v = r.ast.value
        if isinstance(v, ast.Tuple) and v.elts and isinstance(v.elts[0], ast.Name):
            for d in du.reaching(r, v.elts[0].id):
                dv = d.value
                while isinstance(dv, ast.Await):
                    dv = dv.value
                if isinstance(dv, ast.Call) and dotted(dv.func) == "self.get_body":
                    ok = True
    obs.append(ctx.ob(ok, rd.qualname, rd.where, "GET body is self.get_body()", "render returns await self.get_body() as body",
                      "Resource.render no longer returns self.get_body() as the body"))
    # ObjectResource does not override render
    orc = ctx.P.cls("xandikos.web.ObjectResource")
    obs.append(ctx.ob("render" not in orc.methods, orc.qualname, "%s:%d" % (orc.module.rel, orc.node.lineno), "ObjectResource uses the default render",
                      "no override", "ObjectResource overrides render(): GET may serve something other than get_body()"))
    return obs


@rule("C17", "M4", floor=3, kind="S",
      desc="an href outside the route prefix maps to None and from there to 404; resolving one href uses no state "
           "written while resolving another (the property dictionary is copied per call)")
def m4(ctx):
    obs = []
    hp = ctx.func("xandikos.webdav.href_to_path")
    cfg = ctx.cfg(hp)
    none_ret = False
    for r in [n for n in cfg.nodes if n.kind == "return"]:
        if isinstance(r.ast.value, ast.Constant) and r.ast.value.value is None:
            for t, pol in cfg.required_conditions(r):
                pass
            none_ret = True
    tests = [n for n in cfg.nodes if n.kind == "test" and isinstance(n.ast, ast.Call) and isinstance(n.ast.func, ast.Attribute) and n.ast.func.attr == "startswith"
             and "script_name" in src(n.ast)]
    path_rets = [n for n in cfg.nodes if n.kind == "return" and not (isinstance(n.ast.value, ast.Constant) and n.ast.value.value is None)]
    ok = none_ret and bool(tests) and all(p.id not in cfg.reachable([m for t in tests for m, l in t.succ if l == "f"]) for p in path_rets)
    obs.append(ctx.ob(ok, hp.qualname, hp.where, "href outside the prefix -> None", "startswith(script_name) false -> return None",
                      "href_to_path returns a path for an href that does not start with the route prefix"))
    gr = ctx.func("xandikos.webdav._get_resources_by_hrefs")
    cfg = ctx.cfg(gr)
    ys = _yields(cfg)
    ok = False
    for y in ys:
        v = y.ast.value.value
        if isinstance(v, ast.Tuple) and len(v.elts) == 2 and isinstance(v.elts[1], ast.Constant) and v.elts[1].value is None:
            for t, pol in cfg.required_conditions(y):
                if _none_test(t, pol, "path") is True:
                    ok = True
    obs.append(ctx.ob(ok, gr.qualname, gr.where, "unmappable href is reported as (href, None)", "yield (href, None) when href_to_path gave None",
                      "_get_resources_by_hrefs drops or mis-reports hrefs that cannot be mapped to a path"))
    # the path -> href table is keyed by the mapped path itself: a many-to-one key would answer only one of several
    # different hrefs that map to it
    cfg = ctx.cfg(gr)
    du = DefUse(cfg)
    stores = [n for n in cfg.stmt_nodes() if n.kind == "stmt" and isinstance(n.ast, ast.Assign) and isinstance(n.ast.targets[0], ast.Subscript)]
    if not stores:
        raise AnalysisError("_get_resources_by_hrefs: path table not found")
    # the table is the mapping handed to backend.get_resources(); other subscript stores (a per-call memo) are not it
    handed = {dotted(c.args[0]) for n in cfg.stmt_nodes() for c in n.calls() if isinstance(c.func, ast.Attribute) and c.func.attr == "get_resources" and c.args}
    handed |= {dotted(it.iter.args[0]) for n in cfg.nodes for e in n.exprs() for it in [x for c_ in ast.walk(e) if isinstance(c_, (ast.GeneratorExp, ast.ListComp)) for x in c_.generators]
               if isinstance(it.iter, ast.Call) and isinstance(it.iter.func, ast.Attribute) and it.iter.func.attr == "get_resources" and it.iter.args}
    handed.discard(None)
    if handed:
        stores = [st for st in stores if any(dotted(t.value) in handed for t in st.ast.targets if isinstance(t, ast.Subscript))] or stores

    def mapped(node, e, depth=0):
        """e is href_to_path(...) of this call - directly, through a local, or read back from a per-call memo of such values"""
        os_ = origins(du, node, e)
        if not os_ or depth > 3:
            return False
        for o in os_:
            l = o.leaf
            if o.kind == "expr" and not o.path and isinstance(l, ast.Call) and (dotted(l.func) or "").endswith("href_to_path"):
                continue
            if o.kind == "expr" and not o.path and isinstance(l, ast.Subscript) and isinstance(l.value, ast.Name):
                memo = l.value.id
                ws = [m_ for m_ in cfg.stmt_nodes() if m_.kind == "stmt" and isinstance(m_.ast, ast.Assign)
                      and any(isinstance(t, ast.Subscript) and dotted(t.value) == memo for t in m_.ast.targets)]
                if ws and all(mapped(m_, m_.ast.value, depth + 1) for m_ in ws):
                    continue
            return False
        return True

    for st in stores:
        k = next(t for t in st.ast.targets if isinstance(t, ast.Subscript)).slice
        okk = False
        if isinstance(k, ast.Name):
            okk = mapped(st, k)
        obs.append(ctx.ob(okk, gr.qualname, where(gr, st), "path table keyed by href_to_path(href) itself", "key is the mapped path",
                          "the table is keyed by `%s`, a many-to-one function of the requested href: several different hrefs of one request collapse "
                          "into one entry and only the last of them is answered" % src(k)))
    gp = ctx.func("xandikos.davcommon.get_properties_with_data")
    cfg = ctx.cfg(gp)
    du = DefUse(cfg)
    # the caller's property table (4th parameter) is never modified in place: whatever is written to, updated or
    # popped from must be a private object (dict(properties), {**properties, ...}, properties.copy())
    all_params = [x.arg for x in gp.node.args.posonlyargs + gp.node.args.args + gp.node.args.kwonlyargs]
    p_tab = "properties" if "properties" in all_params else (gp.params[3] if len(gp.params) > 3 else "properties")
    p_data = "data_property" if "data_property" in all_params else (gp.params[0] if gp.params else "data_property")
    shared_mut = []
    added = False
    for n in cfg.stmt_nodes():
        bases = []
        if n.kind == "stmt" and isinstance(n.ast, (ast.Assign, ast.AugAssign, ast.Delete)):
            tg = n.ast.targets if not isinstance(n.ast, ast.AugAssign) else [n.ast.target]
            for t in tg:
                if isinstance(t, ast.Subscript):
                    bases.append(t.value)
                    if isinstance(n.ast, ast.Assign) and p_data in {x.id for x in ast.walk(n.ast.value) if isinstance(x, ast.Name)}:
                        added = True
        for c in n.calls():
            if isinstance(c.func, ast.Attribute) and c.func.attr in ("update", "setdefault", "pop", "popitem", "clear", "__setitem__"):
                bases.append(c.func.value)
        for b in bases:
            if any(o.kind == "param" and o.name == p_tab and not o.path for o in origins(du, n, b)):
                shared_mut.append(n)
        for e in n.exprs():
            for x in ast.walk(e):
                if isinstance(x, ast.Dict) and any(isinstance(v, ast.Name) and v.id == p_data for v in x.values):
                    added = True
    ok = not shared_mut and added
    obs.append(ctx.ob(ok, gp.qualname, gp.where, "property table copied before the data property is added", "properties = dict(properties)",
                      "get_properties_with_data writes the data property into the shared property table: the answer for one href / one "
                      "report leaks into the next"))
    return obs


@rule("C17", "M5", floor=3, kind="N",
      desc="ETag and data of one answer belong to the same version: the body is fetched by the etag that is reported "
           "(same obligations as C02/E4)")
def m5(ctx):
    from .c02 import e4
    return e4(ctx)


def charset_strips(ctx, modules):
    """[(fi, call)] for ``x.lstrip(E)`` / ``x.rstrip(E)`` / ``x.strip(E)`` whose argument is not a constant (a str
    constant argument is a deliberate character set such as "/" or '"'): with a variable argument the call removes
    every leading character that occurs in E, it does not remove the prefix E."""
    out = []
    for mname in modules:
        for fi in ctx.P.funcs_in_module(mname):
            if ctx.absorbed(fi):
                continue
            for c in walk_local(fi.node):
                if isinstance(c, ast.Call) and isinstance(c.func, ast.Attribute) and c.func.attr in ("lstrip", "rstrip", "strip") and c.args:
                    v = ctx.P.try_fold(fi.module, c.args[0])
                    if not isinstance(v, (str, bytes)):
                        out.append((fi, c))
    return out


PATH_MODULES = ("xandikos.webdav", "xandikos.web", "xandikos.caldav", "xandikos.carddav", "xandikos.davcommon", "xandikos.sync",
                "xandikos.wsgi", "xandikos.wsgi_helpers", "xandikos.scheduling", "xandikos.access", "xandikos.quota", "xandikos.timezones", "xandikos.infit")


def strip_obligations(ctx):
    obs = []
    hits = charset_strips(ctx, [m for m in PATH_MODULES if m in ctx.P.modules])
    for fi, c in hits:
        obs.append(ctx.bad(fi.qualname, "%s:%d" % (fi.module.rel, c.lineno), "prefix removed by slicing, not by a character-set strip",
                           "`%s` strips a *set of characters* taken from a variable, not a prefix: with the route prefix '/caldav' the path "
                           "'/caldav/alice/...' loses the leading 'al' of 'alice' as well, so the request or href is resolved to another resource (or to none)"
                           % src(c)[:70]))
    obs.append(ctx.ob(not hits, "xandikos (DAV layer)", "xandikos/", "no variable character-set strip on paths",
                      "every lstrip/rstrip/strip in the DAV layer has a constant argument", "character-set strips with a variable argument"))
    return obs


@rule("C17", "M6", floor=3, kind="S",
      desc="an href names the resource it spells: the route prefix is removed by slicing/removeprefix (never by "
           "str.lstrip(prefix), which strips a character set), and the path of an {DAV:}href is taken with urlsplit "
           "(urlparse cuts ';params' off the last segment)")
def m6(ctx):
    obs = strip_obligations(ctx)
    hp = ctx.func("xandikos.webdav.href_to_path")
    cfg = ctx.cfg(hp)
    du = DefUse(cfg)
    # the returned path is href[len(prefix):] / href.removeprefix(prefix), under the startswith(prefix) guard
    rets = [n for n in cfg.nodes if n.kind == "return" and n.ast.value is not None and not (isinstance(n.ast.value, ast.Constant) and n.ast.value.value is None)]
    p_href = hp.params[1] if len(hp.params) > 1 else "href"
    def removes_prefix(node, e, depth=0) -> bool:
        """*e* is built from href[len(prefix):] / href.removeprefix(prefix) (possibly with a '/' put in front)."""
        if depth > 6:
            return False
        for x in ast.walk(e):
            if isinstance(x, ast.Subscript) and isinstance(x.slice, ast.Slice) and x.slice.upper is None and isinstance(x.slice.lower, ast.Call) \
                    and dotted(x.slice.lower.func) == "len":
                bo = origins(du, node, x.value)
                if bo and all(b.kind == "param" and b.name == p_href for b in bo):
                    return True
            if isinstance(x, ast.Call) and isinstance(x.func, ast.Attribute) and x.func.attr == "removeprefix":
                bo = origins(du, node, x.func.value)
                if bo and all(b.kind == "param" and b.name == p_href for b in bo):
                    return True
        names = [x for x in ast.walk(e) if isinstance(x, ast.Name) and isinstance(x.ctx, ast.Load)]
        for nm in names:
            os_ = [o for o in origins(du, node, nm) if o.kind == "expr" and o.leaf is not None and o.leaf is not nm]
            if os_ and all(removes_prefix(o.node, o.leaf, depth + 1) for o in os_):
                return True
        return False

    good = bool(rets) and all(removes_prefix(r, r.ast.value) for r in rets)
    obs.append(ctx.ob(good, hp.qualname, hp.where, "href_to_path removes exactly the prefix", "href[len(script_name):]",
                      "href_to_path does not compute the path as href[len(prefix):] / href.removeprefix(prefix)"))
    rh = ctx.func("xandikos.webdav.read_href_element")
    calls = [c for c in walk_local(rh.node) if isinstance(c, ast.Call) and (dotted(c.func) or "").split(".")[-1] in ("urlparse", "urlsplit")]
    bad = [c for c in calls if (dotted(c.func) or "").split(".")[-1] == "urlparse"]
    obs.append(ctx.ob(bool(calls) and not bad, rh.qualname, rh.where, "read_href_element takes the path with urlsplit",
                      "urlsplit(...).path keeps ';' in the last segment",
                      "read_href_element parses the href with urlparse: its .path drops everything after a ';' in the last segment, so a member whose "
                      "name contains ';' is looked up under a truncated name (404 for an href nobody asked for)"))
    return obs


@rule("C17", "M7", floor=40, kind="S",
      desc="an href inside a multiget body and the same URL as Request-URI name the same resource: request paths, "
           "multiget hrefs and member names are used as sent (same obligations as C16/N1 - no Unicode normalisation "
           "or case mapping on one of the two ways in)")
def m7(ctx):
    from .c16 import opaque_name_obligations
    return opaque_name_obligations(ctx)


@rule("C17", "M8", floor=5, kind="S",
      desc="the answer for one href is about that href only: the multiget loop, the traversal and the store listings yield "
           "values of the current iteration (same obligations as C01/H4 on those loops) - a content type left over from "
           "the previous member turns a non-calendar object into one that is answered with data")
def m8(ctx):
    from .common import per_item_obligations
    return per_item_obligations(ctx, ["xandikos.davcommon.MultiGetReporter.report", "xandikos.store.git.GitStore.iter_with_etag",
                                      "xandikos.store.vdir.VdirStore.iter_with_etag", "xandikos.webdav.traverse_resource",
                                      "xandikos.web.StoreBasedCollection.members"])


@rule("C17", "M9", floor=1, kind="S",
      desc="a response without properties shows its status: Status.aselement renders the propstat branch only for a "
           "non-empty propstat (truthiness), so that `Status(href, '404 Not Found', propstat=[])` - what multiget "
           "yields for an unresolved href - carries the 404")
def m9(ctx):
    f = ctx.own_method("xandikos.webdav.Status", "aselement")
    cfg = ctx.cfg(f)
    du = DefUse(cfg)
    obs = []
    st_nodes = [n for n in cfg.stmt_nodes() if any(isinstance(x, ast.Constant) and x.value == "{DAV:}status" for e in n.exprs() for x in ast.walk(e))]
    if not st_nodes:
        raise AnalysisError("Status.aselement: {DAV:}status element not found")
    for n in st_nodes:
        blocked = []
        for t, pol in cfg.required_conditions(n):
            # reaching the status element requires `propstat is None` (rather than 'propstat is empty')
            if isinstance(t, ast.Compare) and len(t.ops) == 1 and isinstance(t.ops[0], (ast.Is, ast.IsNot)) and "propstat" in src(t.left):
                blocked.append(src(t))
        obs.append(ctx.ob(not blocked, f.qualname, where(f, n), "status shown for an empty propstat", "propstat branch taken on truthiness",
                          "the {DAV:}status element is reached only when `%s` decides that propstat is None: a response built with an empty "
                          "propstat list (the 404 of multiget) is rendered without any status" % (blocked[0] if blocked else "")))
    return obs


def href_pairing_obligations(ctx):
    """A resource is reported under the href that was mapped to its path: in _get_resources_by_hrefs the href yielded with a
    resource of backend.get_resources(...) is looked up by that resource's own path (`table[relpath]`) - not taken by
    position from another sequence, which shifts every pair once one href could not be mapped."""
    gr = ctx.func("xandikos.webdav._get_resources_by_hrefs")
    cfg = ctx.cfg(gr)
    du = DefUse(cfg)
    obs = []
    loops = loops_over(cfg, "get_resources", du)
    if not loops:
        # the resources are consumed some other way: zipped / enumerated together with another sequence
        wrapped = [n for n in cfg.nodes if n.kind == "for" and any(isinstance(x, ast.Call) and (dotted(x.func) or "").endswith("get_resources")
                                                                   for x in ast.walk(n.ast.iter))]
        if wrapped:
            return [ctx.bad(gr.qualname, where(gr, wrapped[0]), "href of a resolved resource is looked up by its path",
                            "`for %s in %s`: the resources that get_resources() returns are combined with another sequence by position, not looked up "
                            "by their path: after one unmappable (or repeated) href every answer carries the ETag and data of a different resource"
                            % (src(wrapped[0].ast.target)[:40], src(wrapped[0].ast.iter)[:60]))]
        raise AnalysisError("_get_resources_by_hrefs: loop over backend.get_resources(...) not found")
    from .common import loop_body_nodes, as_tuple
    for lp in loops:
        body = loop_body_nodes(cfg, lp)
        for y in [n for n in _yields(cfg) if n.id in body]:
            elts = as_tuple(ctx, gr, y, y.ast.value.value) if y.ast.value.value is not None else None
            if not elts or len(elts) != 2:
                continue
            ho = origins(du, y, elts[0])
            ro = origins(du, y, elts[1])
            res_ok = bool(ro) and all(o.kind == "elem" and o.node is lp for o in ro)
            looked_up = bool(ho) and all(
                o.kind == "expr" and isinstance(o.leaf, (ast.Subscript, ast.Call)) and not o.path
                and any(oo.kind == "elem" and oo.node is lp for x in ([o.leaf.slice] if isinstance(o.leaf, ast.Subscript) else list(o.leaf.args))
                        for oo in origins(du, o.node, x)) for o in ho)
            obs.append(ctx.ob(res_ok and looked_up, gr.qualname, where(gr, y), "href of a resolved resource is looked up by its path",
                              "yield (table[relpath], resource)",
                              "`%s`: the href reported with a resource is not the one that was mapped to the resource's path (it is paired by "
                              "position): after one unmappable href every answer carries the ETag and data of a different resource" % src(y.ast.value)[:60]))
    if not obs:
        raise AnalysisError("_get_resources_by_hrefs: no (href, resource) yield inside the get_resources loop")
    return obs


@rule("C17", "M10", floor=1, kind="S",
      desc="the answer for an href carries the resource of that href: (href, resource) pairs are formed by looking the "
           "resource's path up in the path -> href table, not by position")
def m10(ctx):
    return href_pairing_obligations(ctx)


@rule("C17", "M11", floor=9, kind="N",
      desc="an href of the request body resolves like the same URL in a GET: every path reaching the backend's mapping "
           "to a file is normalised (same obligations as C13/P1) - the request path is normalised by the front end, the "
           "hrefs of a multiget only by the backend, so without it `..` segments in an href answer with the data of a "
           "resource that GET on that URL does not have")
def m11(ctx):
    from .c13 import p1
    return p1(ctx)


@rule("C17", "M12", floor=20, kind="N",
      desc="multiget answers from the state the preceding write left: the store readers a lookup by href goes through keep no parsed index / tree on the store object (same obligations as C04/B8) - a copy keyed by HEAD is stale whenever HEAD moves before the index file is written")
def m12_rp(ctx):
    from .c04 import reader_purity_obligations
    return reader_purity_obligations(ctx)


@rule("C17", "M13", floor=1, kind="S",
      desc="the data element is the body, byte for byte: where a data property decodes the stored bytes it uses plain utf-8 "
           "(not utf-8-sig, which drops a leading byte order mark, nor an error handler that replaces bytes) - the ETag in the "
           "same response is that of the full blob")
def m13(ctx):
    obs = []
    for pq, _ct, _rq in DATA_PROPS:
        fi = ctx.home_method(pq, "get_value_ext")
        n = 0
        for x in walk_local(fi):
            if isinstance(x, ast.Call) and isinstance(x.func, ast.Attribute) and x.func.attr == "decode":
                n += 1
                codec = ctx.P.try_fold(fi.module, x.args[0]) if x.args else "utf-8"
                for k in x.keywords:
                    if k.arg == "encoding":
                        codec = ctx.P.try_fold(fi.module, k.value)
                lossy = [src(a) for a in x.args[1:]] + [src(k.value) for k in x.keywords if k.arg == "errors"]
                ok = isinstance(codec, str) and codec.lower().replace("_", "-") in ("utf-8", "utf8") and not any("replace" in l or "ignore" in l for l in lossy)
                obs.append(ctx.ob(ok, fi.qualname, "%s:%d" % (fi.module.rel, x.lineno), "body decoded as plain utf-8", "decode(%r)" % (codec,),
                                  "%s decodes the body with `%s`: the text put into the data element is no longer the stored bytes (a leading byte "
                                  "order mark is dropped / bytes are replaced), while GET serves - and the ETag names - the full blob"
                                  % (fi.short, src(x)[:50])))
    if not obs:
        raise AnalysisError("data properties: no decode() of the body found")
    return obs
