"""C18 — service discovery leads to the user's collections in every deployment layout."""

from __future__ import annotations

import ast
from typing import Dict, List, Set

from ..core import rule
from ..dataflow import DefUse
from ..program import AnalysisError, dotted, src
from ..core import walk_local  # inline-aware
from .common import handler_catching, handler_body_nodes, where
from .storelib import facts

WEB = "xandikos.web"
GETTERS = {
    "get_calendar_home_set": "xandikos.caldav.CalendarHomeSetProperty",
    "get_addressbook_home_set": "xandikos.carddav.AddressbookHomeSetProperty",
    "get_schedule_inbox_url": "xandikos.scheduling.ScheduleInboxURLProperty",
}
CREATORS = [WEB + ".PrincipalBare.create", WEB + ".PrincipalCollection.create", WEB + ".create_principal_defaults"]
ROOTS = [WEB + ".main", WEB + ".run_simple_server", "xandikos.wsgi.<module>"]


def _calls_named(fi, name):
    return [n for n in walk_local(fi.node) if isinstance(n, ast.Call) and isinstance(n.func, ast.Attribute) and n.func.attr == name]


@rule("C18", "S1", floor=8, kind="S",
      desc="one source for the home-set names: the directories created for a principal are computed from the same "
           "getters the advertised properties read")
def s1(ctx):
    obs = []
    for g, pq in GETTERS.items():
        pc = ctx.P.cls(pq)
        # the get_value this class answers with (its own, or one it inherits from a shared base whose hooks are
        # resolved for this class and spliced in)
        try:
            gv = ctx.own_method(pq, "get_value")
        except AnalysisError:
            gv = None
        adv = False
        if gv is not None:
            gcfg = ctx.cfg(gv)
            adv = any(isinstance(c.func, ast.Attribute) and c.func.attr == g for n in gcfg.stmt_nodes() for c in n.calls())
        obs.append(ctx.ob(adv, pq, "%s:%d" % (pc.module.rel, pc.node.lineno), "advertised from resource.%s()" % g,
                          "get_value reads resource.%s()" % g, "%s.get_value no longer reads resource.%s(): what is advertised is not what is created" % (pc.name, g)))
        users = [q for q in CREATORS if _calls_named(ctx.func(q), g)]
        need = 2 if g != "get_schedule_inbox_url" else 1
        obs.append(ctx.ob(len(users) >= need, "creators of " + g, ctx.func(CREATORS[0]).where, "%s() used when creating collections" % g,
                          "used by %s" % [u.split(".")[-2] + "." + u.split(".")[-1] for u in users],
                          "only %s derive the directories they create from %s(): created and advertised home-set paths can diverge" % (users, g)))
        # the getter is defined once for principals in web.py
        pr = ctx.P.cls(WEB + ".Principal")
        obs.append(ctx.ob(g in pr.methods, pr.qualname + "." + g, "%s:%d" % (pr.module.rel, pr.node.lineno), "single definition of %s" % g,
                          "defined in web.Principal", "web.Principal.%s vanished" % g))
    # every create_collection in the creators joins the principal's relpath with getter-derived names / fixed leaf names
    for q in CREATORS:
        f = ctx.func(q)
        cfg = ctx.cfg(f)
        du = DefUse(cfg)
        from ..dataflow import depends_on
        for n in cfg.stmt_nodes():
            for c in n.calls():
                if isinstance(c.func, ast.Attribute) and c.func.attr == "create_collection" and c.args:
                    deps = depends_on(du, n, c.args[0])
                    getter_used = any(d.startswith("<call:") and d[6:-1].split(".")[-1] in GETTERS for d in deps)
                    lits = [x.value for x in ast.walk(c.args[0]) if isinstance(x, ast.Constant) and isinstance(x.value, str)]
                    # literals reaching through local definitions
                    for x in ast.walk(c.args[0]):
                        if isinstance(x, ast.Name):
                            for d in du.reaching(n, x.id):
                                if d.value is not None and d.kind == "assign":
                                    lits += [y.value for y in ast.walk(d.value) if isinstance(y, ast.Constant) and isinstance(y.value, str)]
                    bad = [l for l in lits if l not in ("calendar", "addressbook")]
                    obs.append(ctx.ob(getter_used and not bad, q, where(f, n), "created path derives from a home-set getter",
                                      "path = join(relpath, <getter result>%s)" % ("".join(", %r" % l for l in lits)),
                                      "`%s` builds the collection path from %s instead of the principal's home-set getters"
                                      % (src(c)[:70], ("the literal(s) %s" % bad) if bad else "values unrelated to the getters")))
    return obs


def _guarded_creation(ctx, fi, n) -> bool:
    """Is an already-exists failure of the creation at node n harmless (caught and dropped, or pre-checked)?"""
    cfg = ctx.cfg(fi)
    h = handler_catching(cfg, n, "FileExistsError")
    if h is not None:
        body = handler_body_nodes(cfg, h)
        if not any(b.kind == "raise" for b in body):
            return True
    for t, pol in cfg.required_conditions(n):
        if isinstance(t, ast.Call) and dotted(t.func) in ("os.path.isdir", "os.path.exists") and not pol:
            return True
    return False


@rule("C18", "S2", floor=5, kind="S",
      desc="start-up is idempotent: every creation reachable from the start-up entry points tolerates 'already exists' "
           "(try/except FileExistsError: pass, or an isdir pre-check)")
def s2(ctx):
    F = facts(ctx)
    S = ctx.summaries
    roots = [ctx.func(q) for q in ROOTS]
    reach = S.reachable_funcs(roots)
    obs = []
    # functions whose creation failures can propagate to their caller
    unguarded: Dict[str, List] = {}
    order = list(reach)
    changed = True
    while changed:
        changed = False
        for q in order:
            f = ctx.P.functions[q]
            cfg = ctx.cfg(f)
            for (n, c, targets, ext) in S.calls_of(f):
                if not isinstance(c, ast.Call):
                    continue
                direct = F.create_local(f, n, c, ext)
                via = [t for t in targets if t.qualname in unguarded]
                if not direct and not via:
                    continue
                if _guarded_creation(ctx, f, n):
                    continue
                key = (n.id, src(c)[:60])
                lst = unguarded.setdefault(q, [])
                if key not in [k for k, _ in lst]:
                    lst.append((key, (n, c, direct, via)))
                    changed = True
    n_sites = 0
    for q in order:
        f = ctx.P.functions[q]
        for (n, c, targets, ext) in S.calls_of(f):
            if not isinstance(c, ast.Call):
                continue
            direct = F.create_local(f, n, c, ext)
            via = [t for t in targets if t.qualname in unguarded or S.effects("creation", F.create_local)[t.qualname]]
            if not direct and not via:
                continue
            n_sites += 1
            if q in [r.qualname for r in roots]:
                ok = _guarded_creation(ctx, f, n) or not (direct or any(t.qualname in unguarded for t in targets))
                chain = ""
                if not ok:
                    chain = " -> ".join(t.short for t in targets if t.qualname in unguarded)
                obs.append(ctx.ob(ok, q, where(f, n), "start-up creation `%s` tolerates existing data" % src(c)[:50],
                                  "guarded here or in every callee",
                                  "`%s` in the start-up path can raise FileExistsError on a restart (unguarded creation via %s): the server "
                                  "fails to start once the data exists" % (src(c)[:70], chain or "this call")))
            else:
                if direct or any(t.qualname in unguarded for t in targets):
                    g = _guarded_creation(ctx, f, n)
                    obs.append(ctx.ok(q, where(f, n), "creation `%s` (%s)" % (src(c)[:50], "guarded" if g else "propagates to its caller"),
                                      "guarded" if g else "FileExistsError propagates to the caller, which is checked"))
    # a guard inside a loop must be per item: after the handler the loop goes on with the remaining items
    from .common import loop_body_nodes
    for q in order:
        f = ctx.P.functions[q]
        cfg = ctx.cfg(f)
        for lp in [x for x in cfg.nodes if x.kind == "for"]:
            body = loop_body_nodes(cfg, lp)
            for (n, c, targets, ext) in S.calls_of(f):
                if n.id not in body or not isinstance(c, ast.Call):
                    continue
                if not (F.create_local(f, n, c, ext) or any(S.effects("creation", F.create_local)[t.qualname] for t in targets)):
                    continue
                h = handler_catching(cfg, n, "FileExistsError")
                if h is None:
                    continue
                cont = lp.id in cfg.reachable([h.entry])
                obs.append(ctx.ob(cont, q, where(f, n), "an existing item does not stop the creation of the others",
                                  "after `except FileExistsError` the loop continues",
                                  "`%s` is created inside a loop, but the FileExistsError handler is outside it: the first item that already exists ends the loop "
                                  "and the remaining ones are never created (a start-up interrupted half-way never completes)" % src(c)[:60]))
    if n_sites < 5:
        raise AnalysisError("only %d creation sites reachable from the start-up entry points (confirmed: 9)" % n_sites)
    return obs


DESTROYERS = {"shutil.rmtree", "os.unlink", "os.remove", "os.rmdir"}
DESTROY_METHODS = {"destroy", "delete_one", "delete_member"}


@rule("C18", "S3", floor=4, kind="S",
      desc="start-up never destroys: no path from the start-up entry points reaches rmtree/unlink/destroy/delete_one "
           "(count 0; the DELETE handler is the positive control for the reachability query)")
def s3(ctx):
    S = ctx.summaries
    obs = []

    def destroyers_from(root):
        reach = S.reachable_funcs([root])
        hits = []
        for q in reach:
            f = ctx.P.functions[q]
            for (n, c, targets, ext) in S.calls_of(f):
                if ext in DESTROYERS:
                    hits.append((q, ext, n.lineno))
            if f.name in DESTROY_METHODS and f.cls is not None:
                hits.append((q, "method " + f.name, f.node.lineno))
        return reach, hits

    for rq in ROOTS:
        root = ctx.func(rq)
        reach, hits = destroyers_from(root)
        path = []
        if hits:
            path = [" -> ".join(x.split(".", 1)[1] for x in S.chain(reach, hits[0][0])) + "  (%s)" % hits[0][1]]
        obs.append(ctx.ob(not hits, rq, root.where, "no destructive call reachable from start-up",
                          "%d functions reachable, none destructive" % len(reach),
                          "start-up entry point %s reaches %s: a restart can remove user data" % (root.short, hits[0][1] if hits else ""), path=path))
    ctrl = ctx.func("xandikos.webdav.DeleteMethod.handle")
    reach, hits = destroyers_from(ctrl)
    if not any(h[1] == "shutil.rmtree" or h[1].startswith("method ") for h in hits):
        raise AnalysisError("positive control failed: DeleteMethod.handle is not seen to reach a destructive call")
    obs.append(ctx.ok(ctrl.qualname, ctrl.where, "positive control: DELETE reaches destructive calls",
                      "reachability query finds %d destructive sites from the DELETE handler" % len(hits)))
    return obs


@rule("C18", "S4", floor=10, kind="S",
      desc="the store-type table in get_resource is total over VALID_STORE_TYPES, maps each type to a class with the "
           "matching resource type, and the default collections are typed calendar / addressbook / schedule-inbox")
def s4(ctx):
    obs = []
    sm = ctx.P.module("xandikos.store")
    valid = ctx.P.try_fold(sm, sm.const_exprs.get("VALID_STORE_TYPES"))
    if not isinstance(valid, tuple) or len(valid) < 5:
        raise AnalysisError("VALID_STORE_TYPES is not a constant tuple")
    gr = ctx.own_method(WEB + ".XandikosBackend", "get_resource")
    table = None
    for n in walk_local(gr.node):
        if isinstance(n, ast.Subscript) and isinstance(n.slice, ast.Call) and (dotted(n.slice.func) or "").endswith("get_type") \
                and ctx.P.dict_literal(gr, n.value) is not None:
            table = ctx.P.dict_literal(gr, n.value)
    if table is None:
        raise AnalysisError("get_resource: type dispatch table not found")
    mapping = {}
    for k, v in zip(table.keys, table.values):
        kv = ctx.P.try_fold(gr.module, k)
        kind, obj = ctx.P.resolve_dotted(gr.module, dotted(v) or "", gr)
        mapping[kv] = obj if kind == "class" else None
    want = {
        "calendar": "{urn:ietf:params:xml:ns:caldav}calendar",
        "addressbook": "{urn:ietf:params:xml:ns:carddav}addressbook",
        "principal": "{DAV:}principal",
        "schedule-inbox": "{urn:ietf:params:xml:ns:caldav}schedule-inbox",
        "schedule-outbox": "{urn:ietf:params:xml:ns:caldav}schedule-outbox",
        "subscription": "{http://calendarserver.org/ns/}subscribed",
        "other": "{DAV:}collection",
    }
    for t in valid:
        ci = mapping.get(t)
        obs.append(ctx.ob(ci is not None, gr.qualname, gr.where, "store type %s has a resource class" % t,
                          "-> %s" % (ci.name if ci else None),
                          "store type %r has no entry in get_resource's table: opening such a collection raises KeyError (500)" % t))
        if ci is None or t not in want:
            continue
        rts = None
        for c in ci.mro:
            if "resource_types" in c.attrs:
                rts = ctx.P.try_fold(c.module, c.attrs["resource_types"])
                break
        ok = isinstance(rts, tuple) and want[t] in rts and ("{DAV:}collection" in rts or t == "principal")
        obs.append(ctx.ob(ok, ci.qualname, "%s:%d" % (ci.module.rel, ci.node.lineno), "%s collections advertise %s" % (t, want[t]),
                          "resource_types = %s" % (list(rts) if rts else rts),
                          "%s (used for store type %r) has resource_types %s, missing %s" % (ci.name, t, rts, want[t])))
    # defaults
    cpd = ctx.func(WEB + ".create_principal_defaults")
    cfg = ctx.cfg(cpd)
    du = DefUse(cfg)
    expect = {"calendar": "calendar", "addressbook": "addressbook", "get_schedule_inbox_url": "schedule-inbox"}
    found = {}
    from .common import const_at
    from ..dataflow import origins
    for n in cfg.stmt_nodes():
        for c in n.calls():
            if isinstance(c.func, ast.Attribute) and c.func.attr == "set_type" and c.args:
                tv = const_at(ctx, cpd, du, n, c.args[0])
                # which create_collection produced the resource whose store is typed here
                base = c.func.value
                while isinstance(base, ast.Attribute):
                    base = base.value
                if not isinstance(base, ast.Name):
                    continue
                for o in origins(du, n, base):
                    v = o.leaf
                    if o.kind != "expr" or not isinstance(v, ast.Call) or not (dotted(v.func) or "").endswith("create_collection") or not v.args:
                        continue
                    for po in origins(du, o.node, v.args[0]):
                        s = src(po.leaf) if po.leaf is not None else ""
                        for key in expect:
                            if ("'%s'" % key) in s or (key + "()") in s:
                                found[key] = tv
    for key, tv in expect.items():
        obs.append(ctx.ob(found.get(key) == tv, cpd.qualname, cpd.where, "default %s collection typed %s" % (key.replace("get_schedule_inbox_url", "inbox"), tv),
                          "set_type(%r)" % found.get(key),
                          "the default collection for %s is typed %r, expected %r: discovery finds a collection of the wrong resource type"
                          % (key, found.get(key), tv)))
    return obs


@rule("C18", "S5", floor=5, kind="S",
      desc="both well-known paths are registered and redirect to the DAV root in main, run_simple_server and the WSGI "
           "helper")
def s5(ctx):
    obs = []
    wm = ctx.P.module(WEB)
    wk = ctx.P.try_fold(wm, ast.Name(id="WELLKNOWN_DAV_PATHS", ctx=ast.Load()))     # also when it is imported from another module
    want = {"/.well-known/caldav", "/.well-known/carddav"}
    obs.append(ctx.ob(isinstance(wk, frozenset) and wk == want, WEB + ".WELLKNOWN_DAV_PATHS", "%s:1" % wm.rel, "both well-known paths listed",
                      "%s" % (sorted(wk) if wk else wk), "WELLKNOWN_DAV_PATHS is %s, expected %s" % (wk, sorted(want))))
    for q in (WEB + ".main", WEB + ".run_simple_server"):
        f = ctx.func(q)
        cfg = ctx.cfg(f)
        ok = False
        du = DefUse(cfg)
        from ..dataflow import origins, iter_exprs
        wk_loops = [n for n in cfg.nodes if n.kind == "for" and any(dotted(it) == "WELLKNOWN_DAV_PATHS" for it in iter_exprs(du, n))]
        for m in cfg.stmt_nodes():
            for c in m.calls():
                if not ((dotted(c.func) or "").endswith("add_route") and len(c.args) >= 3):
                    continue
                po = origins(du, m, c.args[1])
                if not (po and all(o.kind == "elem" and o.node in wk_loops for o in po)):
                    continue
                # the handler: RedirectDavHandler(...) itself or its bound __call__, possibly through a local name
                h = c.args[2]
                while isinstance(h, ast.Attribute):
                    h = h.value
                ho = origins(du, m, h) if isinstance(h, ast.Name) else [None]
                if "RedirectDavHandler" in src(c.args[2]) or (ho and all(o is not None and o.leaf is not None and "RedirectDavHandler" in src(o.leaf) for o in ho)):
                    ok = True
        obs.append(ctx.ob(ok, q, f.where, "redirect registered for every well-known path", "for path in WELLKNOWN_DAV_PATHS: add_route('*', path, RedirectDavHandler(...))",
                          "%s no longer registers a RedirectDavHandler for every path in WELLKNOWN_DAV_PATHS" % f.short))
    rh = ctx.own_method(WEB + ".RedirectDavHandler", "__call__")
    ok = any(isinstance(n, ast.Return) and isinstance(n.value, ast.Call) and (dotted(n.value.func) or "").endswith("HTTPFound")
             and n.value.args and dotted(n.value.args[0]) == "self._dav_root" for n in walk_local(rh.node))
    obs.append(ctx.ob(ok, rh.qualname, rh.where, "redirect target is the DAV root", "HTTPFound(self._dav_root)", "RedirectDavHandler does not redirect to the configured DAV root"))
    wr = ctx.own_method("xandikos.wsgi_helpers.WellknownRedirector", "__call__")
    cfg = ctx.cfg(wr)
    ok = False
    for n in cfg.stmt_nodes():
        for c in n.calls():
            if dotted(c.func) == "start_response" and c.args and isinstance(ctx.P.try_fold(wr.module, c.args[0]), str) \
                    and ctx.P.try_fold(wr.module, c.args[0]).startswith("30") and "self._dav_root" in src(c):
                for t, pol in cfg.required_conditions(n):
                    if pol and isinstance(t, ast.Compare) and isinstance(t.ops[0], ast.In) and dotted(t.comparators[0]) == "WELLKNOWN_DAV_PATHS":
                        ok = True
    obs.append(ctx.ob(ok, wr.qualname, wr.where, "WSGI helper redirects well-known paths", "302 Location: dav_root when path in WELLKNOWN_DAV_PATHS",
                      "WellknownRedirector no longer answers paths in WELLKNOWN_DAV_PATHS with a redirect to the DAV root"))
    return obs


def _prefix_kind(ctx, fi, cfg, du, node, e, depth=0):
    """P = route prefix (SCRIPT_NAME), A = absolute path, R = relative path, PA = prefix + path, ? = unknown."""
    if depth > 5:
        return "?"
    if isinstance(e, ast.Subscript) and "SCRIPT_NAME" in src(e.slice):
        return "P"
    if isinstance(e, ast.Call):
        d = dotted(e.func) or ""
        if d.endswith("path_from_environ"):
            return "A"
        if d in ("posixpath.join", "os.path.join", "urllib.parse.urljoin") and len(e.args) == 2:
            a, b = (_prefix_kind(ctx, fi, cfg, du, node, x, depth + 1) for x in e.args)
            if a == "P" and b == "A":
                return "A"       # join discards the first component when the second is absolute
            if a == "P" and b == "R":
                return "PA"
            return "?"
        if isinstance(e.func, ast.Attribute) and e.func.attr in ("lstrip",) and e.args and ctx.P.try_fold(fi.module, e.args[0]) == "/":
            k = _prefix_kind(ctx, fi, cfg, du, node, e.func.value, depth + 1)
            return "R" if k == "A" else k
        if isinstance(e.func, ast.Attribute) and e.func.attr in ("rstrip",):
            return _prefix_kind(ctx, fi, cfg, du, node, e.func.value, depth + 1)
        return "?"
    if isinstance(e, ast.BinOp) and isinstance(e.op, ast.Add):
        a = _prefix_kind(ctx, fi, cfg, du, node, e.left, depth + 1)
        b = _prefix_kind(ctx, fi, cfg, du, node, e.right, depth + 1)
        if a == "P" and b in ("A", "R"):
            return "PA"
        if a == "PA" and b in ("A", "R"):
            return "PA"
        return "?"
    if isinstance(e, ast.Name):
        ds = du.reaching(node, e.id)
        kinds = {_prefix_kind(ctx, fi, cfg, du, d.node, d.value, depth + 1) for d in ds if d.value is not None and d.node is not None}
        return kinds.pop() if len(kinds) == 1 else "?"
    return "?"


@rule("C18", "S6", floor=1, kind="S",
      desc="the WSGI front end keeps the route prefix in request.path (the base of every href the server returns)")
def s6(ctx):
    fi = ctx.own_method("xandikos.webdav.WSGIRequest", "__init__")
    cfg = ctx.cfg(fi)
    du = DefUse(cfg)
    sets = [n for n in cfg.stmt_nodes() if n.kind == "stmt" and isinstance(n.ast, ast.Assign) and any(dotted(t) == "self.path" for t in n.ast.targets)]
    if not sets:
        raise AnalysisError("WSGIRequest.__init__ no longer assigns self.path")
    obs = []
    for n in sets:
        k = _prefix_kind(ctx, fi, cfg, du, n, n.ast.value)
        if k == "?":
            raise AnalysisError("WSGIRequest.path is built by an unmodelled expression: %s" % src(n.ast.value))
        obs.append(ctx.ob(k == "PA", fi.qualname, where(fi, n), "request.path = SCRIPT_NAME + decoded PATH_INFO", "prefix kept",
                          "`%s` loses the route prefix (PATH_INFO is absolute, and a path join discards its first component when the second is "
                          "absolute): under a non-root mount every href derived from request.path (home sets, principal-URL, member hrefs) misses the "
                          "prefix and discovery leads nowhere" % src(n.ast.value)))
    return obs


@rule("C18", "S7", floor=2, kind="S",
      desc="creating a store refuses an existing directory: Repo.init* runs only after os.mkdir (or makedirs without "
           "exist_ok) of the same path succeeded, so a restart can never re-initialise existing data")
def s7(ctx):
    obs = []
    for cq in ("xandikos.store.git.TreeGitStore", "xandikos.store.git.BareGitStore", "xandikos.store.vdir.VdirStore"):
        f = ctx.own_method(cq, "create")
        cfg = ctx.cfg(f)
        inits = [n for n in cfg.stmt_nodes() for c in n.calls() if (dotted(c.func) or "").endswith(("Repo.init", "Repo.init_bare")) or dotted(c.func) == "cls"]
        if not inits:
            raise AnalysisError("%s.create: store construction not found" % cq)
        mk = []
        soft = []
        for n in cfg.stmt_nodes():
            for c in n.calls():
                d = dotted(c.func) or ""
                if d == "os.mkdir":
                    mk.append(n)
                elif d == "os.makedirs":
                    eo = [k for k in c.keywords if k.arg == "exist_ok"]
                    if eo and not (isinstance(eo[0].value, ast.Constant) and eo[0].value.value is False):
                        soft.append(n)
                    else:
                        mk.append(n)
        ok = bool(mk) and all(cfg.normal_completion_dominates(mk, i) for i in inits)
        obs.append(ctx.ob(ok, f.qualname, f.where, "creation fails on an existing directory",
                          "os.mkdir(path) completes before the repository is initialised",
                          "%s.create initialises the repository without a directory creation that fails when the path exists%s: the "
                          "FileExistsError that start-up relies on to skip existing collections never comes, and an existing collection is re-initialised"
                          % (cq.split(".")[-1], " (os.makedirs(..., exist_ok=True))" if soft else "")))
    return obs


@rule("C18", "S8", floor=3, kind="S",
      desc="every start-up path registers the current-user-principal path as a principal before the server serves "
           "(the registry is in memory only, so a restart without --autocreate must register it again)")
def s8(ctx):
    obs = []
    for rq in ROOTS:
        f = ctx.func(rq)
        cfg = ctx.cfg(f)
        marks = [n for n in cfg.stmt_nodes() for c in n.calls() if isinstance(c.func, ast.Attribute) and c.func.attr == "_mark_as_principal"]
        serve = [n for n in cfg.stmt_nodes() for c in n.calls() if (dotted(c.func) or "").split(".")[-1] in ("run_app", "setup", "start")
                 and (dotted(c.func) or "").split(".")[0] in ("web", "runner", "site")]
        targets = serve or [cfg.exit]
        r = cfg.reachable([cfg.entry], block_nodes=marks, follow_exc=False)
        ok = bool(marks) and not any(t.id in r for t in targets)
        obs.append(ctx.ob(ok, rq, f.where, "principal path registered on every start-up path",
                          "_mark_as_principal(...) precedes serving on all paths",
                          "%s can start serving without backend._mark_as_principal(current_user_principal): after a restart without --autocreate the principal "
                          "directory is served as a plain collection (no principal resource type, no home sets) and discovery fails" % f.short))
    return obs


_VALUE_PRESERVING = ("decode", "encode", "strip", "lower", "str", "fsdecode")


def _absent_type_values(ctx, f, cfg, du, n, e, depth):
    """What *e* evaluates to at *n* when no type is recorded: a list of ("raises" | "none" | "default", text).
    Lookups of the key "type" that raise KeyError for a missing key are "raises"; a non-raising lookup yields its
    default; value-preserving wrappers keep the class; anything else is not modelled (AnalysisError)."""
    from ..dataflow import origins
    if depth > 8:
        raise AnalysisError("%s: type value too deep to follow" % f.qualname)
    out = []
    for o in origins(du, n, e):
        leaf, at = o.leaf, (o.node or n)
        if o.kind != "expr" or leaf is None:
            raise AnalysisError("%s: returned type comes from %s (not a lookup of the recorded type)" % (f.qualname, o.kind))
        fold = lambda x: ctx.P.try_fold(ctx.module_at(f, at), x)
        if isinstance(leaf, ast.Constant):
            out.append(("none" if leaf.value is None else "default", "`%s`" % src(leaf)))
        elif isinstance(leaf, ast.Subscript) and fold(leaf.slice) in ("type", b"type"):
            out.append(("raises", src(leaf)))
        elif isinstance(leaf, ast.Call) and isinstance(leaf.func, ast.Attribute) and leaf.func.attr == "get" \
                and any(fold(a) in ("type", b"type") for a in leaf.args[:2]):
            if len(leaf.args) == 2 and fold(leaf.args[0]) in ("xandikos", b"xandikos") and not leaf.keywords:
                out.append(("raises", src(leaf)))      # dulwich ConfigFile.get(section, name) raises KeyError
            elif len(leaf.args) == 1 and not leaf.keywords:
                out.append(("none", "`%s`" % src(leaf)))
            else:
                d = leaf.args[1] if len(leaf.args) >= 2 else next((k.value for k in leaf.keywords if k.arg in ("fallback", "default")), None)
                if d is None:
                    raise AnalysisError("%s: `%s` not modelled" % (f.qualname, src(leaf)))
                for k, t in _absent_type_values(ctx, f, cfg, du, at, d, depth + 1):
                    out.append(("none", "`%s`" % src(leaf)) if k == "none" else ("default", "`%s`" % src(leaf)))
        elif isinstance(leaf, ast.Call) and ((isinstance(leaf.func, ast.Attribute) and leaf.func.attr in _VALUE_PRESERVING and not isinstance(leaf.func.value, ast.Name)
                                              or isinstance(leaf.func, ast.Attribute) and leaf.func.attr in _VALUE_PRESERVING)):
            inner = _absent_type_values(ctx, f, cfg, du, at, leaf.func.value, depth + 1)
            out.extend(inner)
        elif isinstance(leaf, ast.Call) and isinstance(leaf.func, ast.Name) and leaf.func.id in ("str", "bytes") and leaf.args:
            out.extend(_absent_type_values(ctx, f, cfg, du, at, leaf.args[0], depth + 1))
        elif isinstance(leaf, ast.BoolOp) and isinstance(leaf.op, ast.Or):
            first = _absent_type_values(ctx, f, cfg, du, at, leaf.values[0], depth + 1)
            for k, t in first:
                if k == "raises":
                    out.append((k, t))
                else:   # falsy -> the next operand is the value
                    rest = ast.BoolOp(op=ast.Or(), values=leaf.values[1:]) if len(leaf.values) > 2 else leaf.values[1]
                    ast.copy_location(rest, leaf)
                    for k2, t2 in _absent_type_values(ctx, f, cfg, du, at, rest, depth + 1):
                        out.append((k2, "`%s`" % src(leaf)))
        else:
            raise AnalysisError("%s: returned type `%s` is not a lookup of the recorded type (not modelled)" % (f.qualname, src(leaf)[:60]))
    return out


@rule("C18", "S9", floor=3, kind="S",
      desc="discovery reports collections with their real type: a metadata back end without a recorded type says so "
           "(KeyError), so that GitStore.get_type falls back to looking at the contents; and request paths lose "
           "exactly the route prefix (no character-set strip)")
def s9(ctx):
    from .c17 import strip_obligations
    obs = list(strip_obligations(ctx))
    gt = ctx.own_method("xandikos.store.git.GitStore", "get_type")
    cfg = ctx.cfg(gt)
    # the metadata back end's get_type(): `self.config.get_type()`, or the same call on however the back end is obtained
    sites = [n for n in cfg.stmt_nodes() for c in n.calls() if isinstance(c.func, ast.Attribute) and c.func.attr == "get_type"
             and "super" not in (dotted(c.func) or src(c.func)) and not (dotted(c.func) or "").startswith("Store.")]
    from .common import handler_catching
    fb = False
    for n in sites:
        h = handler_catching(cfg, n, "KeyError")
        if h is not None and any(any((dotted(c.func) or "").endswith("get_type") and "super" in (dotted(c.func) or src(c.func)) for c in b.calls())
                                 for b in cfg.nodes if b.handler is h):
            fb = True
    obs.append(ctx.ob(fb, gt.qualname, gt.where, "no recorded type -> the type is derived from the contents",
                      "KeyError from config.get_type() falls back to Store.get_type()",
                      "GitStore.get_type no longer falls back to the content-based guess when no type is recorded"))
    from ..dataflow import DefUse, origins
    from .common import guarded_not_none
    for cq in ("xandikos.store.config.FileBasedCollectionMetadata", "xandikos.store.git.RepoCollectionMetadata"):
        f = ctx.own_method(cq, "get_type")
        cfgf = ctx.cfg(f)
        du = DefUse(cfgf)
        rets = [n for n in cfgf.nodes if n.kind == "return"]
        if not rets:
            raise AnalysisError("%s.get_type has no return" % cq)
        bad = []
        for r in rets:
            v = r.ast.value
            if v is None:
                bad.append("return (None)")
                continue
            for kind, text in _absent_type_values(ctx, f, cfgf, du, r, v, 0):
                if kind == "raises":
                    continue
                if kind == "none" and isinstance(v, ast.Name) and guarded_not_none(cfgf, r, v):
                    continue
                bad.append(text)
        obs.append(ctx.ob(not bad, f.qualname, f.where, "absent type is reported as KeyError", "no default for a missing type",
                          "%s answers a collection without a recorded type with a value instead of KeyError (%s): GitStore.get_type never "
                          "reaches its content-based fallback and calendars / address books that were not created through the server are "
                          "reported with the wrong resource type" % (f.short, ", ".join(sorted(set(bad))))))
    return obs


@rule("C18", "S10", floor=40, kind="S",
      desc="hrefs the server hands out during discovery address what they were emitted for: names from the file system "
           "and the configured principal path are neither normalised nor case-mapped on the way out or on the way back "
           "in (same obligations as C16/N1)")
def s10(ctx):
    from .c16 import opaque_name_obligations
    return opaque_name_obligations(ctx)


@rule("C18", "S11", floor=1, kind="S",
      desc="a Depth 1 listing shows every collection a direct URL would serve: TreeGitStore.subdirectories() lists every "
           "directory entry except the control directory - no further test on what the directory contains (bare "
           "repositories and plain grouping directories are served by get_resource too)")
def s11(ctx):
    fi = ctx.own_method("xandikos.store.git.TreeGitStore", "subdirectories")
    cfg = ctx.cfg(fi)
    obs = []

    def allowed(t) -> bool:
        if isinstance(t, ast.UnaryOp) and isinstance(t.op, ast.Not):
            return allowed(t.operand)
        if isinstance(t, ast.BoolOp):
            return all(allowed(x) for x in t.values)
        if isinstance(t, ast.Compare) and len(t.ops) == 1 and isinstance(t.ops[0], (ast.Eq, ast.NotEq, ast.In, ast.NotIn)):
            sides = [t.left, t.comparators[0]]
            return any((dotted(x) or "").endswith("CONTROLDIR") or (isinstance(x, ast.Constant) and x.value == ".git")
                       or (isinstance(x, (ast.Tuple, ast.Set, ast.List)) and all(isinstance(e_, ast.Constant) and e_.value == ".git" or (dotted(e_) or "").endswith("CONTROLDIR") for e_ in x.elts))
                       for x in sides)
        if isinstance(t, ast.Call):
            d = (dotted(t.func) or "").split(".")[-1]
            return d in ("isdir", "is_dir")
        return False

    sites = []
    for n in cfg.stmt_nodes():
        for c in n.calls():
            if isinstance(c.func, ast.Attribute) and c.func.attr in ("append", "add") and c.args:
                sites.append((n, [t for t, _p in cfg.required_conditions(n)]))
        if n.kind == "stmt" and isinstance(n.ast, ast.Expr) and isinstance(n.ast.value, ast.Yield):
            sites.append((n, [t for t, _p in cfg.required_conditions(n)]))
        for e in n.exprs():
            for x in ast.walk(e):
                if isinstance(x, (ast.ListComp, ast.GeneratorExp, ast.SetComp)) and any((dotted(g.iter.func) if isinstance(g.iter, ast.Call) else "") in ("os.listdir", "os.scandir") for g in x.generators):
                    sites.append((n, [c_ for g in x.generators for c_ in g.ifs]))
    if not sites:
        raise AnalysisError("TreeGitStore.subdirectories: no place where a name is added to the result")
    for n, conds in sites:
        extra = [src(t) for t in conds if not allowed(t)]
        obs.append(ctx.ob(not extra, fi.qualname, where(fi, n), "every directory except .git is listed",
                          "conditions: not the control directory, is a directory",
                          "TreeGitStore.subdirectories lists a directory only if `%s`: collections that a direct URL still serves (bare "
                          "repositories, plain directories) are missing from their parent's Depth 1 listing" % " and ".join(extra)))
    return obs


@rule("C18", "S12", floor=9, kind="S",
      desc="a collection's guessed type looks at all its members and listings are complete: no early exit from the "
           "listing loops and from Store.get_type unless a calendar / address book item was found (same obligations as "
           "C04/A4's loop clause)")
def s12(ctx):
    from .common import total_loop_obligations
    return total_loop_obligations(ctx)


@rule("C18", "S13", floor=20, kind="N",
      desc="hrefs found by discovery can be dereferenced as sent: what reaches create_href is an unquoted path (same "
           "obligations as C16/Q2) - member names quoted during the traversal are quoted again on the way out")
def s13(ctx):
    from .c16 import q2
    return q2(ctx)


@rule("C18", "S14", floor=20, kind="N",
      desc="a collection is listed with the type it has now: get_type and the other readers keep nothing on the store object (same obligations as C04/B8) - the web layer keeps store objects by path, so a collection removed and created again under the same name would be listed with the type of its predecessor")
def s14_rp(ctx):
    from .c04 import reader_purity_obligations
    return reader_purity_obligations(ctx)


@rule("C18", "S15", floor=3, kind="S",
      desc="every href built from the route prefix uses the same, slash-terminated prefix: in main() each use of "
           "options.route_prefix (the .well-known redirects, the redirect of '/', the mount point, SCRIPT_NAME) comes after "
           "the normalisation `if not prefix.endswith('/'): prefix += '/'` - a use of the raw option sends the client to "
           "'/dav', which the application mounted at '/dav/' does not serve")
def s15(ctx):
    fi = ctx.func(WEB + ".main")
    cfg = ctx.cfg(fi)
    opt = fi.params[0] if fi.params else "options"
    attr = opt + ".route_prefix"

    def mentions(e):
        return any(isinstance(x, ast.Attribute) and dotted(x) == attr and isinstance(x.ctx, ast.Load) for x in ast.walk(e))

    tests, norms, uses = [], [], []
    for n in cfg.nodes:
        a = n.ast
        if a is None:
            continue
        if n.kind == "test" and any(isinstance(x, ast.Call) and isinstance(x.func, ast.Attribute) and x.func.attr == "endswith" and dotted(x.func.value) == attr
                                    and x.args and isinstance(x.args[0], ast.Constant) and x.args[0].value == "/" for x in ast.walk(a)):
            tests.append(n)
            continue
        if n.kind == "stmt" and isinstance(a, (ast.AugAssign, ast.Assign)):
            tg = [a.target] if isinstance(a, ast.AugAssign) else a.targets
            if any(dotted(t) == attr for t in tg):
                v = a.value
                ends = (isinstance(a, ast.AugAssign) and isinstance(a.op, ast.Add) and isinstance(v, ast.Constant) and str(v.value).endswith("/")) \
                    or (isinstance(v, ast.BinOp) and isinstance(v.op, ast.Add) and isinstance(v.right, ast.Constant) and str(v.right.value).endswith("/")) \
                    or (isinstance(v, ast.Call) and (dotted(v.func) or "").split(".")[-1] == "ensure_trailing_slash")
                if ends:
                    norms.append(n)
                    continue
        exprs = n.exprs() if n.kind != "stmt" or not isinstance(a, (ast.FunctionDef, ast.AsyncFunctionDef, ast.ClassDef)) else [a]
        if any(mentions(e) for e in exprs):
            uses.append(n)
    if not uses:
        raise AnalysisError("main(): no use of %s found" % attr)
    # edges on which the prefix is known to end in '/': the 'already ends with /' side of the test, the completion of the normalisation
    blocked = []
    for t in tests:
        neg = isinstance(t.ast, ast.UnaryOp) and isinstance(t.ast.op, ast.Not)
        good = "f" if neg else "t"
        blocked.extend((t, m, l) for m, l in t.succ if l == good)
    for a in norms:
        blocked.extend((a, m, l) for m, l in a.succ if l != "exc")
    r = cfg.reachable([cfg.entry], block_edges=blocked, follow_exc=False)
    obs = []
    for u in uses:
        obs.append(ctx.ob(bool(norms or tests) and u.id not in r, fi.qualname, "%s:%d" % (fi.module.rel, u.lineno),
                          "route prefix is slash-terminated at `%s`" % src(u.ast)[:40].split("\n")[0],
                          "every path to this use passes the normalisation",
                          "main() uses options.route_prefix at line %d (`%s`) without the trailing slash having been added: with --route-prefix=/dav "
                          "the redirects of /.well-known/caldav, /.well-known/carddav and '/' point to '/dav', which the application mounted at "
                          "'/dav/' answers with 404 - discovery ends at its first hop" % (u.lineno, src(u.ast)[:50].split("\n")[0])))
    return obs


@rule("C18", "S16", floor=1, kind="N",
      desc="hrefs the server returned are served: only a path COMPONENT equal to `.git` routes a request away from the DAV "
           "handlers (same obligations as C09/K11) - a substring test sends principals like 'joe.github' to the git handler")
def s16(ctx):
    from .c09 import k11
    return k11(ctx)


@rule("C18", "S17", floor=4, kind="N",
      desc="current-user-principal stays inside the mount point: every urljoin base in the DAV layer is slash-terminated, and "
           "the principal path is made relative before it is resolved against the route prefix (same obligations as C16/J1) - "
           "urljoin('/dav', 'user/') is '/user/', outside the mount, and discovery stops at its first step")
def s17(ctx):
    from .c16 import j1
    return j1(ctx)
