"""Python / library semantics traps, stated over the anchored code of the properties.

Each function returns obligations for one structural fact whose violation is a well-known way for a tidy-looking
rewrite to change behaviour: an iterator consumed twice, a default evaluated once, request state kept on an object
that serves every request, a character-set strip used as prefix removal, the truth value of a container-like
object used for "is there one", ``itertools.groupby`` on unsorted input.  They are registered under the properties
whose code they range over (see the ``@rule`` wrappers at the end of this file).
"""

from __future__ import annotations

import ast
from typing import List

from ..core import rule
from ..dataflow import DefUse, origins
from ..program import AnalysisError, dotted, src
from .common import loop_body_nodes, unwrap_await

ONE_SHOT_CALLS = {"iter", "map", "filter", "zip", "reversed", "enumerate"}
ONE_SHOT_METHODS = {"iterfind", "iter", "itertext", "finditer", "iterdir", "scandir", "iterobjects", "iteritems", "items_iter"}


def _is_one_shot(e) -> bool:
    if isinstance(e, ast.GeneratorExp):
        return True
    if isinstance(e, ast.Call):
        d = dotted(e.func) or ""
        if d in ONE_SHOT_CALLS or d.startswith("itertools."):
            return True
        if isinstance(e.func, ast.Attribute) and e.func.attr in ONE_SHOT_METHODS:
            return True
    return False


def _functions(ctx, modules, classes=()):
    out = []
    inl = ctx.cfgs.inliner
    for m in modules:
        if m not in ctx.P.modules:
            continue
        for fi in ctx.P.funcs_in_module(m):
            if inl.is_new(fi) and ctx.absorbed(fi):
                continue
            out.append(fi)
    return out


def one_shot_obligations(ctx, modules, what):
    """A one-shot iterator (generator expression, ``iterfind``, ``map`` / ``filter`` / ``zip`` ...) bound to a local is
    consumed at one place that runs once: not inside a loop that was entered after the binding, not by two
    consumers, not by a membership test inside a comprehension."""
    obs = []
    n_fn = 0
    for fi in _functions(ctx, modules):
        try:
            cfg = ctx.cfg(fi)
        except AnalysisError:
            continue
        n_fn += 1
        du = None
        binds = [n for n in cfg.stmt_nodes() if n.kind == "stmt" and isinstance(n.ast, ast.Assign) and len(n.ast.targets) == 1
                 and isinstance(n.ast.targets[0], ast.Name) and _is_one_shot(unwrap_await(n.ast.value))]
        for b in binds:
            name = b.ast.targets[0].id
            du = du or DefUse(cfg)
            uses = []
            for n in cfg.nodes:
                if n is b:
                    continue
                for e in n.exprs():
                    for x in ast.walk(e):
                        if isinstance(x, ast.Name) and x.id == name and isinstance(x.ctx, ast.Load):
                            defs = du.reaching(n, name)
                            if any(d.node is b for d in defs):
                                uses.append((n, e, x))
            if not uses:
                continue
            problem = None
            loops = [lp for lp in cfg.nodes if lp.kind == "for"]
            for n, e, x in uses:
                # consumed inside a loop that does not contain the binding: every iteration after the first sees it empty
                for lp in loops:
                    body = loop_body_nodes(cfg, lp)
                    if n.id in body and b.id not in body and not (n is lp):
                        problem = "is consumed inside the loop at line %d, which runs once per item: after the first pass it is empty" % lp.lineno
                # consumed by a comprehension that evaluates it once per element (`y in gen` / inner iteration)
                for c in ast.walk(e):
                    if isinstance(c, (ast.ListComp, ast.SetComp, ast.GeneratorExp, ast.DictComp)):
                        inner = [c.elt] if not isinstance(c, ast.DictComp) else [c.key, c.value]
                        inner += [i for g in c.generators for i in g.ifs] + [g.iter for g in c.generators[1:]]
                        if any(y is x for i in inner for y in ast.walk(i)):
                            problem = "is consumed once per element of the comprehension `%s`: after the first element it is exhausted" % src(c)[:50]
            if problem is None and len({id(n) for n, _e, _x in uses}) > 1:
                # two consumers on one path
                ns = [n for n, _e, _x in uses]
                for i, a in enumerate(ns):
                    for c in ns[i + 1:]:
                        if c.id in cfg.after_normal(a, follow_exc=False) and a is not c:
                            problem = "is consumed at line %d and again at line %d" % (a.lineno, c.lineno)
            obs.append(ctx.ob(problem is None, fi.qualname, "%s:%d" % (fi.module.rel, b.lineno), "one-shot iterator `%s` is consumed once" % name,
                              "`%s`" % src(b.ast)[:60],
                              "%s: `%s` binds a one-shot iterator that %s - %s" % (fi.short, src(b.ast)[:60], problem, what)))
    if n_fn == 0:
        raise AnalysisError("one-shot iterators: no function analysed")
    obs.append(ctx.ok("one-shot iterators", "xandikos/", "%d functions searched" % n_fn, ""))
    return obs


def returned_one_shot_obligations(ctx, modules, what):
    """A function that is not itself a generator does not hand out a one-shot iterator where the reference tree handed
    out a list: callers that walk the result once per file / per item get nothing after the first."""
    obs = []
    n = 0
    for fi in _functions(ctx, modules):
        if fi.is_generator():
            continue
        try:
            cfg = ctx.cfg(fi)
        except AnalysisError:
            continue
        n += 1
        du = None
        for r in cfg.nodes:
            if r.kind != "return" or not isinstance(r.ast, ast.Return) or r.ast.value is None:
                continue
            du = du or DefUse(cfg)
            for o in origins(du, r, r.ast.value):
                l = unwrap_await(o.leaf) if o.leaf is not None else None
                if o.kind == "expr" and not o.path and isinstance(l, ast.GeneratorExp):
                    obs.append(ctx.bad(fi.qualname, "%s:%d" % (fi.module.rel, r.lineno), "result can be walked more than once",
                                       "%s returns the generator expression `%s`: it can be walked once; a caller that keeps the result and uses it "
                                       "for every file / item gets nothing after the first - %s" % (fi.short, src(l)[:60], what)))
    obs.append(ctx.ok("returned iterators", "xandikos/", "%d non-generator functions: none returns a generator expression" % n, ""))
    return obs


def default_once_obligations(ctx, modules, what):
    """No parameter default is the result of a call or a mutable display: defaults are evaluated once, at definition."""
    obs = []
    n = 0
    for fi in [f for m in modules if m in ctx.P.modules for f in ctx.P.funcs_in_module(m)]:     # also helpers that are inlined: defaults are not
        a = fi.node.args
        n += 1
        for p_, d in list(zip((a.posonlyargs + a.args)[len(a.posonlyargs + a.args) - len(a.defaults):], a.defaults)) + \
                [(p_, d) for p_, d in zip(a.kwonlyargs, a.kw_defaults) if d is not None]:
            bad = None
            for x in ast.walk(d):
                if isinstance(x, ast.Call) and (dotted(x.func) or "").split(".")[-1] in ("uuid4", "uuid1", "time", "now", "utcnow", "today", "random", "token_hex", "getpid"):
                    bad = x
                elif isinstance(x, (ast.List, ast.Dict, ast.Set)) and x is d:
                    bad = x
            if bad is not None:
                obs.append(ctx.bad(fi.qualname, "%s:%d" % (fi.module.rel, fi.node.lineno), "default of `%s` is not evaluated per call" % p_.arg,
                                   "%s: the default `%s=%s` is evaluated once, when the function is defined - every call in the life of the "
                                   "process gets the same value: %s" % (fi.short, p_.arg, src(d)[:40], what)))
    obs.append(ctx.ok("parameter defaults", "xandikos/", "%d functions: no default built from a per-call value" % n, ""))
    return obs


def shared_instance_obligations(ctx, what):
    """Reporters, properties and methods are created once and serve every request, concurrently on the aiohttp front
    end: their request-handling methods keep nothing on ``self``."""
    obs = []
    roots = [("xandikos.webdav.Reporter", ("report",)), ("xandikos.webdav.Property", ("get_value", "get_value_ext", "set_value")),
             ("xandikos.webdav.Method", ("handle",))]
    n = 0
    for rq, meths in roots:
        root = ctx.P.cls(rq)
        for ci in [root] + root.all_subclasses():
            for nm in meths:
                if nm not in ci.methods:
                    continue
                fi = ci.methods[nm]
                try:
                    cfg = ctx.cfg(fi)
                except AnalysisError:
                    continue
                n += 1
                me = fi.params[0] if fi.params else "self"
                for x in cfg.stmt_nodes():
                    a = x.ast
                    if x.kind == "stmt" and isinstance(a, (ast.Assign, ast.AugAssign, ast.AnnAssign)) and not (isinstance(a, ast.AnnAssign) and a.value is None):
                        for t in (a.targets if isinstance(a, ast.Assign) else [a.target]):
                            for tt in (t.elts if isinstance(t, (ast.Tuple, ast.List)) else [t]):
                                base = tt.value if isinstance(tt, ast.Subscript) else tt
                                if isinstance(base, ast.Attribute) and (dotted(base) or "").startswith(me + "."):
                                    obs.append(ctx.bad(fi.qualname, "%s:%d" % (fi.module.rel, x.lineno), "request state is not kept on the shared %s" % rq.split(".")[-1].lower(),
                                                       "%s stores per-request state on the object (`%s`): one instance is registered for the life of the "
                                                       "process and serves all requests, so a later (or, on the aiohttp front end, an overlapping) request "
                                                       "reads the value of another one - %s" % (fi.short, src(a)[:60], what)))
    if n < 20:
        raise AnalysisError("only %d request-handling methods of reporters / properties / methods found" % n)
    obs.append(ctx.ok("shared handler objects", "xandikos/", "%d request-handling methods keep nothing on self" % n, ""))
    return obs


def prefix_strip_obligations(ctx, modules, what):
    """``x.lstrip(K)`` with a constant K of two or more characters, in a function that also tests ``startswith(K)``:
    the intent is to remove the prefix K, the effect is to remove every leading character that occurs in K."""
    obs = []
    n = 0
    for fi in _functions(ctx, modules):
        n += 1
        starts = set()
        for x in ast.walk(fi.node):
            if isinstance(x, ast.Call) and isinstance(x.func, ast.Attribute) and x.func.attr in ("startswith", "endswith") and x.args:
                v = ctx.P.try_fold(fi.module, x.args[0])
                if isinstance(v, (str, bytes)):
                    starts.add((x.func.attr, v))
        for x in ast.walk(fi.node):
            if isinstance(x, ast.Call) and isinstance(x.func, ast.Attribute) and x.func.attr in ("lstrip", "rstrip") and x.args:
                v = ctx.P.try_fold(fi.module, x.args[0])
                if isinstance(v, (str, bytes)) and len(v) > 1 and (("startswith" if x.func.attr == "lstrip" else "endswith"), v) in starts:
                    obs.append(ctx.bad(fi.qualname, "%s:%d" % (fi.module.rel, x.lineno), "prefix removed by slicing / removeprefix",
                                       "%s: `%s` removes every leading character that occurs in %r, not the prefix %r the function tests for: "
                                       "%s" % (fi.short, src(x)[:50], v, v, what)))
    obs.append(ctx.ok("constant prefixes", "xandikos/", "%d functions: no lstrip/rstrip of a tested prefix" % n, ""))
    return obs


GIT_OBJECT_SOURCES = ("_get_current_tree", "Tree", "open_index", "Index")


def object_truth_obligations(ctx, what):
    """A dulwich Tree / Index has ``__len__``: an empty one is falsy.  Values that come from ``_get_current_tree()``,
    ``Tree()``, ``object_store[...]`` or ``open_index()`` are tested with ``is None`` / ``is not None``, never by
    truth value (``tree or ...``, ``if tree``, ``filter(None, ...)``, ``[o for o in ... if o]``)."""
    obs = []
    n = 0
    for cq in ("xandikos.store.git.GitStore", "xandikos.store.git.BareGitStore", "xandikos.store.git.TreeGitStore"):
        ci = ctx.P.cls(cq)
        for nm, f0 in sorted(ci.methods.items()):
            fi = ctx.own_method(cq, nm)
            try:
                cfg = ctx.cfg(fi)
            except AnalysisError:
                continue
            n += 1
            du = None

            def is_git_object(node, e):
                nonlocal du
                du = du or DefUse(cfg)
                os_ = origins(du, node, e)
                for o in os_:
                    l = unwrap_await(o.leaf) if o.leaf is not None else None
                    if o.kind == "expr" and not o.path and isinstance(l, ast.Call) and (dotted(l.func) or "").split(".")[-1] in GIT_OBJECT_SOURCES:
                        return True
                    if o.kind == "expr" and not o.path and isinstance(l, ast.Subscript) and (dotted(l.value) or "").endswith("object_store"):
                        return True
                return False

            for x in cfg.nodes:
                cands = []
                if x.kind == "test" and isinstance(x.ast, (ast.Name, ast.Attribute)):
                    cands.append(x.ast)
                if x.kind == "test" and isinstance(x.ast, ast.UnaryOp) and isinstance(x.ast.op, ast.Not) and isinstance(x.ast.operand, (ast.Name, ast.Attribute)):
                    cands.append(x.ast.operand)
                for e in x.exprs():
                    for y in ast.walk(e):
                        if isinstance(y, ast.BoolOp):
                            cands.extend(v for v in y.values[:-1] if isinstance(v, (ast.Name, ast.Call)))
                        if isinstance(y, (ast.ListComp, ast.GeneratorExp, ast.SetComp)):
                            for g in y.generators:
                                for i in g.ifs:
                                    if isinstance(i, ast.Name) and isinstance(g.target, ast.Name) and i.id == g.target.id:
                                        # `[o for o in (tree, blob) if o]`: the elements of the display
                                        if isinstance(g.iter, (ast.Tuple, ast.List)):
                                            cands.extend(g.iter.elts)
                for c in cands:
                    if is_git_object(x, c):
                        obs.append(ctx.bad(fi.qualname, "%s:%d" % (fi.module.rel, x.lineno), "git objects are tested with `is None`, not by truth value",
                                           "%s tests `%s` by its truth value: a dulwich Tree / Index is falsy when it is empty, so the empty "
                                           "collection takes the branch meant for 'no object' - %s" % (fi.short, src(c)[:40], what)))
    obs.append(ctx.ok("git object truth values", "xandikos/store/git.py", "%d methods: no Tree / Index tested by truth value" % n, ""))
    return obs


def groupby_obligations(ctx, modules, what):
    obs = []
    n = 0
    for fi in _functions(ctx, modules):
        n += 1
        for x in ast.walk(fi.node):
            if isinstance(x, ast.Call) and (dotted(x.func) or "").split(".")[-1] == "groupby" and x.args:
                it = x.args[0]
                sorted_in = isinstance(it, ast.Call) and dotted(it.func) == "sorted"
                if not sorted_in:
                    obs.append(ctx.bad(fi.qualname, "%s:%d" % (fi.module.rel, x.lineno), "grouping does not depend on adjacency",
                                       "%s groups with `%s`: itertools.groupby only merges ADJACENT items with equal keys, so a key that occurs in "
                                       "two separate runs yields two groups and, in a dict built from them, the later run replaces the earlier one - %s"
                                       % (fi.short, src(x)[:60], what)))
    obs.append(ctx.ok("groupby", "xandikos/", "%d functions: no groupby over unsorted input" % n, ""))
    return obs


# -- registrations ----------------------------------------------------------------------------------------------------

DAV_MODULES = ("xandikos.webdav", "xandikos.web", "xandikos.caldav", "xandikos.carddav", "xandikos.davcommon", "xandikos.sync")
STORE_MODULES_ALL = ("xandikos.store", "xandikos.store.git", "xandikos.store.vdir", "xandikos.store.index", "xandikos.store.config")
QUERY_MODULES = ("xandikos.icalendar", "xandikos.vcard", "xandikos.carddav", "xandikos.caldav", "xandikos.store", "xandikos.store.index", "xandikos.collation")


@rule("C01", "Y1", floor=1, kind="S",
      desc="every POSTed member gets a name of its own: no parameter default of the store / DAV layer is built from a "
           "per-call value (uuid, time) or is a mutable display - defaults are evaluated once, at definition, so every "
           "later call would reuse the first value and a second POST replaces the first member")
def c01_y1(ctx):
    return default_once_obligations(ctx, STORE_MODULES_ALL + DAV_MODULES, "the second acknowledged POST of a content type gets the Location of the first and replaces it")


@rule("C06", "Y2", floor=1, kind="S",
      desc="the scan sees every member on every pass: a one-shot iterator over the listing is not consumed by a membership "
           "test per element or inside a later loop (store layer)")
def c06_y2(ctx):
    return one_shot_obligations(ctx, STORE_MODULES_ALL, "members that still exist are dropped from the uid maps, and a second resource with one of their UIDs is accepted")


@rule("C12", "Y3", floor=1, kind="S",
      desc="every instance of a property is tested against the filter: the condition elements of a prop-filter are not "
           "held in a one-shot iterator (iterfind, generator expression) that the first instance exhausts (query code)")
def c12_y3(ctx):
    return one_shot_obligations(ctx, QUERY_MODULES, "later property instances / later files are tested against nothing and match vacuously, or get no index values")


@rule("C11", "Y4", floor=1, kind="S",
      desc="every file of a query gets its index values: no one-shot iterator of keys or conditions is reused across the "
           "files of a query (same obligations as C12/Y3 over the calendar query and index code)")
def c11_y4(ctx):
    return one_shot_obligations(ctx, QUERY_MODULES, "files after the first get empty index values and are silently dropped from time-range queries")


@rule("C17", "Y5", floor=1, kind="S",
      desc="a multiget is answered with the properties it asked for: reporters, properties and methods are shared by all "
           "requests (registered once, concurrent on aiohttp) and keep no request state on self")
def c17_y5(ctx):
    return shared_instance_obligations(ctx, "hrefs of one multiget are answered with the property list (or limit) of another request")


@rule("C12", "Y6", floor=1, kind="N",
      desc="an unlimited query returns every match: reporters keep no request state (a limit) on the shared reporter "
           "object (same obligations as C17/Y5)")
def c12_y6(ctx):
    return shared_instance_obligations(ctx, "a limit set by one addressbook-query cuts the next, unlimited one")


@rule("C10", "Y7", floor=1, kind="S",
      desc="index keys name the property they index: a constant prefix that a function tests with startswith() is removed by "
           "slicing / removeprefix, not by lstrip(prefix), which also eats the first letters of 'PRIORITY' after 'P='")
def c10_y7(ctx):
    return prefix_strip_obligations(ctx, QUERY_MODULES + DAV_MODULES, "the index is filled under a mangled name and answers 'not defined' for a property that is there")


@rule("C07", "Y8", floor=1, kind="S",
      desc="a token issued for an empty collection names the empty state: git trees and indexes are tested with `is None`, "
           "never by truth value (an empty dulwich Tree is falsy, so `tree or current` answers with the current state and the "
           "report is empty)")
def c07_y8(ctx):
    return object_truth_obligations(ctx, "a sync from the empty state reports no change and everything created since is missed")


@rule("C04", "Y9", floor=1, kind="N",
      desc="every object a commit names is stored, also the empty tree: git objects are never filtered by truth value "
           "(same obligations as C07/Y8)")
def c04_y9(ctx):
    return object_truth_obligations(ctx, "the empty tree of a collection whose last member was deleted is never written and the commit names a missing object")


@rule("C07", "Y10", floor=1, kind="S",
      desc="every changed member is reported with its properties: propstat grouping does not depend on adjacency "
           "(no itertools.groupby over unsorted statuses in the DAV layer)")
def c07_y10(ctx):
    return groupby_obligations(ctx, DAV_MODULES, "the getetag of a changed member is dropped from the sync report when a 404 property sits between two 200 ones")


@rule("C11", "Y11", floor=1, kind="S",
      desc="the keys of an indexed query are available for every file: helpers of the query / index code return lists or "
           "sets, not generator expressions that the first file exhausts")
def c11_y11(ctx):
    return returned_one_shot_obligations(ctx, QUERY_MODULES + ("xandikos.store.index",), "every file after the first is evaluated against empty index values and dropped from the result")
