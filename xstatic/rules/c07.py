"""C07 — sync-collection reports exactly the changes since the given token."""

from __future__ import annotations

import ast

from ..cfg import TryCtx
from ..core import rule
from ..dataflow import DefUse, origins
from ..program import AnalysisError, dotted, src
from ..core import walk_local  # inline-aware
from .common import handler_catching, handler_body_nodes, raise_ctor_args, unwrap_await, where, loops_over
from .c01 import response_status, return_status

REP = "xandikos.sync.SyncCollectionReporter"
SBC = "xandikos.web.StoreBasedCollection"
GIT = "xandikos.store.git"


@rule("C07", "T1", floor=3, kind="S",
      desc="the token returned is the token diffed against, and it is taken before the iteration starts")
def t1(ctx):
    fi = ctx.own_method(REP, "report")
    cfg = ctx.cfg(fi)
    du = DefUse(cfg)
    obs = []
    tok_defs = [n for n in cfg.stmt_nodes() if n.kind == "stmt" and isinstance(n.ast, ast.Assign) and isinstance(unwrap_await(n.ast.value), ast.Call)
                and (dotted(unwrap_await(n.ast.value).func) or "").endswith("resource.get_sync_token")]
    if not tok_defs:
        calls = [n for n in cfg.stmt_nodes() for c in n.calls() if (dotted(c.func) or "").endswith("resource.get_sync_token")]
        if len(calls) >= 1:
            return [ctx.bad(fi.qualname, where(fi, calls[-1]), "the returned token is the one that was diffed against",
                            "resource.get_sync_token() is evaluated %d time(s) in the report instead of once before the enumeration: the token returned "
                            "can describe a later state than the change list (a write during the report is covered by the token but never listed)" % len(calls))] * 1 + \
                   [ctx.bad(fi.qualname, where(fi, calls[0]), "token taken before the changes are enumerated", "the sync token is not captured in a variable before the enumeration"),
                    ctx.bad(fi.qualname, where(fi, calls[0]), "diff is computed up to the token taken at the start", "iter_differences_since is not given a token captured once")]
        raise AnalysisError("SyncCollectionReporter.report: no `x = resource.get_sync_token()`")
    var = tok_defs[0].ast.targets[0].id
    diffs = [(n, c) for n in cfg.stmt_nodes() for c in n.calls() if isinstance(c.func, ast.Attribute) and c.func.attr == "iter_differences_since"]
    if not diffs:
        raise AnalysisError("report no longer calls iter_differences_since")
    for n, c in diffs:
        a = c.args[1] if len(c.args) > 1 else None
        ok = isinstance(a, ast.Name) and a.id == var and [d.node for d in du.reaching(n, var)] == [tok_defs[0]] and len(tok_defs) == 1
        obs.append(ctx.ob(ok, fi.qualname, where(fi, n), "diff is computed up to the token taken at the start",
                          "iter_differences_since(old_token, %s) with %s = resource.get_sync_token() taken once" % (var, var),
                          "iter_differences_since is given `%s` as the new token, not the single value taken before the iteration" % (src(a) if a is not None else "?")))
    toks = [n for n in cfg.stmt_nodes() for c in n.calls() if (dotted(c.func) or "").split(".")[-1] == "SyncToken"]
    if not toks:
        obs.append(ctx.bad(fi.qualname, fi.where, "a sync-token is returned", "the report no longer yields a SyncToken"))
    for n in toks:
        c = [c for c in n.calls() if (dotted(c.func) or "").split(".")[-1] == "SyncToken"][0]
        a = c.args[0] if c.args else None
        ok = isinstance(a, ast.Name) and a.id == var and [d.node for d in du.reaching(n, var)] == [tok_defs[0]]
        obs.append(ctx.ob(ok, fi.qualname, where(fi, n), "the returned token is the one that was diffed against",
                          "SyncToken(%s)" % var,
                          "the report returns SyncToken(%s): a write during the report yields a token that does not describe the listing "
                          "(changes are lost or repeated at the next sync)" % (src(a) if a is not None else "?")))
    # taken before the iteration
    fors = [n for n in cfg.nodes if n.kind == "for" and "diff_iter" in src(n.ast.iter)] or [n for n, c in diffs]
    ok = all(cfg.normal_completion_dominates(tok_defs, f) for f in fors)
    obs.append(ctx.ob(ok, fi.qualname, where(fi, tok_defs[0]), "token taken before the changes are enumerated", "get_sync_token() dominates the iteration",
                      "the sync token is read after the enumeration of changes started"))
    return obs


@rule("C07", "T2", floor=6, kind="S",
      desc="an unknown token is never read as 'empty': object-store miss -> InvalidCTag -> sync.InvalidToken -> "
           "valid-sync-token precondition -> 412, with the iteration inside each try")
def t2(ctx):
    obs = []
    for cq in (GIT + ".BareGitStore", GIT + ".TreeGitStore"):
        fi = ctx.own_method(cq, "_iterblobs")
        cfg = ctx.cfg(fi)
        lookups = [n for n in cfg.stmt_nodes() if any(isinstance(x, ast.Subscript) and (dotted(x.value) or "").endswith("object_store") and "ctag" in src(x.slice)
                                                       for e in n.exprs() for x in ast.walk(e))]
        if not lookups:
            obs.append(ctx.bad(fi.qualname, fi.where, "ctag looked up in the object store", "%s no longer resolves the ctag through the object store" % fi.short))
            continue
        for lk in lookups:
            h = handler_catching(cfg, lk, "KeyError")
            ok = h is not None and any(b.kind == "raise" and b.extra.get("exc") == "InvalidCTag" for b in handler_body_nodes(cfg, h)) \
                and not any(b.kind in ("return",) or (b.kind == "stmt" and isinstance(b.ast, ast.Assign)) for b in handler_body_nodes(cfg, h))
            obs.append(ctx.ob(ok, fi.qualname, where(fi, lk), "unknown ctag -> InvalidCTag",
                              "KeyError from the object store is re-raised as InvalidCTag",
                              "an unknown ctag in %s is %s: the caller gets a change list computed against something other than the token's tree"
                              % (fi.short, "not caught" if h is None else "replaced by a default instead of raising InvalidCTag")))
    ic = ctx.own_method(GIT + ".GitStore", "iter_changes")
    cfg = ctx.cfg(ic)
    empties = [n for n in cfg.stmt_nodes() if n.kind == "stmt" and isinstance(n.ast, ast.Assign) and isinstance(n.ast.value, ast.Call) and dotted(n.ast.value.func) == "Tree"]
    ok = True
    for e in empties:
        req = cfg.required_conditions(e)
        if not any(isinstance(t, ast.Compare) and isinstance(t.ops[0], ast.Is) and pol and dotted(t.left) == "old_ctag" for t, pol in req):
            ok = False
    # and no handler in iter_changes swallows InvalidCTag
    listing_nodes = [n for n in cfg.nodes if any((dotted(c.func) or "").endswith("iter_with_etag") for c in n.calls())]
    if not listing_nodes:
        raise AnalysisError("iter_changes no longer lists through iter_with_etag")
    sw = [n for n in listing_nodes if handler_catching(cfg, n, "InvalidCTag") is not None]
    obs.append(ctx.ob(ok and not sw, ic.qualname, ic.where, "empty tree only for old_ctag is None", "Tree() substituted only under `old_ctag is None`; no handler swallows InvalidCTag",
                      "iter_changes substitutes an empty tree (or swallows the lookup error) for a token other than None: a foreign token gets a successful full listing"))
    ids = ctx.own_method(SBC, "iter_differences_since")
    cfg = ctx.cfg(ids)
    fors = loops_over(cfg, "store.iter_changes")
    ok = False
    for f in fors:
        h = handler_catching(cfg, f, "InvalidCTag")
        if h is not None and any(b.kind == "raise" and b.extra.get("exc") == "InvalidToken" for b in handler_body_nodes(cfg, h)):
            ok = True
    obs.append(ctx.ob(ok and bool(fors), ids.qualname, ids.where, "InvalidCTag -> sync.InvalidToken around the iteration",
                      "the loop over store.iter_changes is inside the try that translates InvalidCTag",
                      "iter_differences_since does not translate InvalidCTag raised while iterating store.iter_changes into sync.InvalidToken (-> 500 instead of 412)"))
    rp = ctx.own_method(REP, "report")
    cfg = ctx.cfg(rp)
    fors = [n for n in cfg.nodes if n.kind == "for" and "diff_iter" in src(n.ast.iter)]
    ok = False
    got = None
    for f in fors:
        h = handler_catching(cfg, f, "InvalidToken")
        if h is not None:
            for b in handler_body_nodes(cfg, h):
                if b.kind == "raise":
                    nm, args = raise_ctor_args(b)
                    if nm == "PreconditionFailure" and args:
                        got = ctx.P.try_fold(rp.module, args[0])
                        ok = got == "{DAV:}valid-sync-token"
    obs.append(ctx.ob(ok and bool(fors), rp.qualname, rp.where, "InvalidToken -> {DAV:}valid-sync-token", "iteration inside the try; precondition %r" % got,
                      "the report loop is not inside a try that turns sync.InvalidToken into the {DAV:}valid-sync-token precondition (got %r)" % got))
    rm = ctx.func("xandikos.webdav.ReportMethod.handle")
    cfg = ctx.cfg(rm)
    sites = [n for n in cfg.nodes if any(isinstance(c.func, ast.Attribute) and c.func.attr == "report" for c in n.calls())]
    ok = False
    for s in sites:
        h = handler_catching(cfg, s, "PreconditionFailure")
        if h is not None:
            sts = [return_status(ctx, rm, b) for b in handler_body_nodes(cfg, h) if b.kind == "return" and b.ast.value is not None]
            ok = bool(sts) and all(x == 412 for x in sts)
    obs.append(ctx.ob(ok, rm.qualname, rm.where, "PreconditionFailure -> 412 for REPORT", "answered 412", "ReportMethod does not answer PreconditionFailure with 412"))
    return obs


@rule("C07", "T3", floor=4, kind="S",
      desc="all three change kinds are emitted: changed/new members (guarded by old_etag != new_etag), removed members "
           "(new etag None from the leftover of the old listing), and 404 / propstat rendering")
def t3(ctx):
    obs = []
    ic = ctx.own_method(GIT + ".GitStore", "iter_changes")
    cfg = ctx.cfg(ic)
    du = DefUse(cfg)
    ys = [n for n in cfg.stmt_nodes() if n.kind == "stmt" and isinstance(n.ast, ast.Expr) and isinstance(n.ast.value, ast.Yield)]
    removed = changed = False
    listing_loops = loops_over(cfg, "iter_with_etag", du)
    old_maps = set()     # local names of the dict built from the old listing

    def base_name(e):
        while isinstance(e, (ast.Call, ast.Attribute, ast.Subscript)):
            e = e.func if isinstance(e, ast.Call) else e.value
        return e.id if isinstance(e, ast.Name) else None

    def from_listing(node, e) -> bool:
        os_ = origins(du, node, e)
        return bool(os_) and all(o.kind == "elem" and o.node in listing_loops for o in os_)

    from .common import as_tuple
    for y in ys:
        elts = as_tuple(ctx, ic, y, y.ast.value.value) if y.ast.value.value is not None else None
        if not (elts and len(elts) == 4):
            continue
        last = elts[3]
        if isinstance(last, ast.Constant) and last.value is None:
            # inside a loop over the leftover of a dict that was built from a listing
            for o in origins(du, y, elts[0]):
                if o.kind != "elem":
                    continue
                nm = base_name(o.leaf)
                if nm is None:
                    continue
                built = False
                for o2 in origins(du, o.node, ast.Name(id=nm, ctx=ast.Load())):
                    if o2.kind == "expr" and o2.leaf is not None and any(
                            isinstance(x, ast.Call) and (dotted(x.func) or "").endswith("iter_with_etag") for x in ast.walk(o2.leaf)):
                        built = True
                # ... or filled entry by entry inside a loop over a listing
                for m in cfg.stmt_nodes():
                    if m.kind == "stmt" and isinstance(m.ast, ast.Assign) and any(
                            isinstance(t_, ast.Subscript) and dotted(t_.value) == nm and from_listing(m, t_.slice) for t_ in m.ast.targets):
                        built = True
                if built:
                    removed = True
                    old_maps.add(nm)
        else:
            for tn in [t_ for t_ in cfg.nodes if t_.kind == "test"]:
                t = tn.ast
                if not (isinstance(t, ast.Compare) and len(t.ops) == 1 and isinstance(t.ops[0], (ast.NotEq, ast.Eq))):
                    continue
                diff = "t" if isinstance(t.ops[0], ast.NotEq) else "f"
                if y.id in cfg.reachable([cfg.entry], block_edges=cfg.test_edges(tn, diff)):
                    continue
                sides = [t.left, t.comparators[0]]
                if any(from_listing(tn, a_) and not from_listing(tn, b_) for a_, b_ in (sides, sides[::-1])):
                    changed = True
    obs.append(ctx.ob(changed, ic.qualname, ic.where, "changed/new members yielded under old_etag != new_etag", "yield guarded by old_etag != new_etag",
                      "iter_changes no longer yields exactly the members whose etag differs from the old listing"))
    obs.append(ctx.ob(removed, ic.qualname, ic.where, "removed members yielded with new etag None", "yield (..., None) for the leftover of the old listing",
                      "iter_changes no longer reports members that disappeared since the old state (no yield with new etag None over the leftover)"))
    # the leftover is what was not seen again: entries are deleted from the old map when found
    dels = [n for n in cfg.stmt_nodes() if n.kind == "stmt" and isinstance(n.ast, ast.Delete)
            and any(isinstance(t, ast.Subscript) and base_name(t) in old_maps for t in n.ast.targets)]
    pops = [n for n in cfg.stmt_nodes() for c in n.calls() if isinstance(c.func, ast.Attribute) and c.func.attr == "pop" and dotted(c.func.value) in old_maps]
    obs.append(ctx.ob(bool(dels or pops), ic.qualname, ic.where, "members seen again are removed from the old listing", "del previous[name]",
                      "entries are never removed from `previous`: every old member is reported as removed"))
    rp = ctx.own_method(REP, "report")
    cfg = ctx.cfg(rp)
    ys = [n for n in cfg.stmt_nodes() if n.kind == "stmt" and isinstance(n.ast, ast.Expr) and isinstance(n.ast.value, ast.Yield) and isinstance(n.ast.value.value, ast.Call)]
    r404 = rprop = False
    for y in ys:
        c = y.ast.value.value
        if (dotted(c.func) or "").split(".")[-1] != "Status":
            continue
        for t, pol in cfg.required_conditions(y):
            if isinstance(t, ast.Compare) and dotted(t.left) == "new_resource" and isinstance(t.comparators[0], ast.Constant) and t.comparators[0].value is None:
                is_none = pol if isinstance(t.ops[0], ast.Is) else (not pol)
                st = [ctx.P.try_fold(rp.module, k.value) for k in c.keywords if k.arg == "status"] + [ctx.P.try_fold(rp.module, a) for a in c.args[1:2]]
                if is_none and any(isinstance(s, str) and s.startswith("404") for s in st):
                    r404 = True
                if not is_none and any(k.arg == "propstat" for k in c.keywords):
                    rprop = True
    obs.append(ctx.ob(r404, rp.qualname, rp.where, "removed member rendered as 404", "Status(subhref, status='404 Not Found') when new_resource is None",
                      "a removed member is not rendered as a 404 response"))
    obs.append(ctx.ob(rprop, rp.qualname, rp.where, "changed member rendered with propstat", "Status(subhref, propstat=...) otherwise",
                      "a changed member is not rendered with its properties"))
    return obs


@rule("C07", "T4", floor=1, kind="S", desc="the token is the collection tag: get_sync_token returns store.get_ctag(), which is the id of the tree the listing comes from (C08/G1, G2)")
def t4(ctx):
    from .c08 import single_source_obligations, g2
    return [o for o in single_source_obligations(ctx) if "get_sync_token" in o.construct or "SyncToken" in o.construct] + list(g2(ctx))


@rule("C07", "T5", floor=1, kind="S",
      desc="iter_changes compares each member with ITS old entry: the old etag is (re)defined in every iteration, no "
           "value is carried over from the previous member")
def t5(ctx):
    from .common import carried_uses
    ic = ctx.own_method(GIT + ".GitStore", "iter_changes")
    cfg = ctx.cfg(ic)
    loops = loops_over(cfg, "iter_with_etag")
    if not loops:
        raise AnalysisError("iter_changes: loop over the new listing not found")
    lp = loops[-1]
    # the variable compared with the new etag
    from .common import loop_body_nodes
    body = loop_body_nodes(cfg, lp)
    olds = set()
    new_names = {x.id for x in ast.walk(lp.ast.target) if isinstance(x, ast.Name)}
    for n in cfg.nodes:
        if n.kind == "test" and n.id in body and isinstance(n.ast, ast.Compare) and isinstance(n.ast.ops[0], (ast.NotEq, ast.Eq)):
            names = [x.id for x in ast.walk(n.ast) if isinstance(x, ast.Name)]
            if any(x in new_names for x in names):
                olds |= {x for x in names if x not in new_names}
    if not olds:
        raise AnalysisError("iter_changes: comparison of the old and the new etag not found")
    obs = []
    for v in sorted(olds):
        cu = carried_uses(cfg, lp, v)
        obs.append(ctx.ob(not cu, ic.qualname, where(ic, lp), "`%s` is defined afresh for every member" % v,
                          "every use is preceded by a definition in the same iteration",
                          "`%s` is used at line %d with a value that can come from the previous member of the listing: a newly created member is "
                          "compared with another member's old etag and is dropped from the report when they happen to be equal" % (v, cu[0].lineno if cu else 0)))
    return obs


@rule("C07", "T6", floor=1, kind="S",
      desc="every change the store reports is passed on: iter_differences_since yields for each item of "
           "store.iter_changes (no name-based filter that listings do not apply)")
def t6(ctx):
    from .common import loop_body_nodes
    fi = ctx.own_method(SBC, "iter_differences_since")
    cfg = ctx.cfg(fi)
    loops = loops_over(cfg, "store.iter_changes")
    if not loops:
        raise AnalysisError("iter_differences_since: loop over store.iter_changes not found")
    lp = loops[0]
    ys = [n for n in cfg.stmt_nodes() if n.kind == "stmt" and isinstance(n.ast, ast.Expr) and isinstance(n.ast.value, ast.Yield)]
    starts = [m for m, l in lp.succ if l == "loop"]
    r = cfg.reachable(starts, block_nodes=ys, follow_exc=False)
    skipping = lp.id in r
    return [ctx.ob(bool(ys) and not skipping, fi.qualname, where(fi, lp), "every reported change is yielded",
                   "each iteration reaches the yield", "an iteration of the loop over store.iter_changes can go on to the next item without yielding: some members are never "
                   "reported as created/changed/removed by sync-collection although PROPFIND lists them")]


@rule("C07", "T7", floor=2, kind="S",
      desc="nothing the reporter yields is dropped on the way out: the multistatus wrapper hands every response to "
           "_send_dav_responses (the 404 responses are how removed members are reported), and the report is cut short "
           "only when the client sent DAV:limit, by the number the client sent")
def t7(ctx):
    from .common import requires_edge
    obs = []
    w = ctx.func("xandikos.webdav.multistatus.<locals>.wrapper")
    cfg = ctx.cfg(w)
    du = DefUse(cfg)
    sends = [(n, c) for n in cfg.stmt_nodes() for c in n.calls() if (dotted(c.func) or "").split(".")[-1] == "_send_dav_responses" and c.args]
    if not sends:
        raise AnalysisError("multistatus wrapper: _send_dav_responses call not found")
    for n, c in sends:
        os_ = origins(du, n, c.args[0])
        whole = bool(os_) and all(o.kind == "expr" and isinstance(o.leaf, ast.List) and not o.leaf.elts and not o.path for o in os_)
        # ... filled by an unconditional append of each item of the wrapped generator
        appended = False
        if bool(os_) and all(o.kind == "expr" and isinstance(o.leaf, ast.ListComp) and len(o.leaf.generators) == 1 and not o.leaf.generators[0].ifs
                             and isinstance(o.leaf.elt, ast.Name) and isinstance(o.leaf.generators[0].target, ast.Name)
                             and o.leaf.elt.id == o.leaf.generators[0].target.id and isinstance(o.leaf.generators[0].iter, ast.Call) and not o.path for o in os_):
            whole = appended = True        # `[resp async for resp in req_fn(...)]`: every item, unfiltered
        if whole and isinstance(c.args[0], ast.Name):
            for m in cfg.stmt_nodes():
                for cc in m.calls():
                    if isinstance(cc.func, ast.Attribute) and cc.func.attr in ("append",) and dotted(cc.func.value) == c.args[0].id and cc.args:
                        eo = origins(du, m, cc.args[0])
                        if eo and all(o.kind == "elem" for o in eo) and not [t for t, _p in cfg.required_conditions(m)]:
                            appended = True
        obs.append(ctx.ob(whole and appended, w.qualname, where(w, n), "every yielded response is rendered",
                          "responses = []; append(each item); _send_dav_responses(responses)",
                          "the multistatus wrapper does not hand `%s` to _send_dav_responses as collected: responses are filtered or rebuilt on the "
                          "way out, and the response-level 404s by which a sync report announces removed members can be lost" % src(c.args[0])))
    rp = ctx.own_method(REP, "report")
    cfg = ctx.cfg(rp)
    du = DefUse(cfg)
    cuts = [(n, c) for n in cfg.stmt_nodes() for c in n.calls() if (dotted(c.func) or "").split(".")[-1] == "islice" and len(c.args) >= 2]
    limit_vars = set()
    for n in cfg.stmt_nodes():
        if n.kind == "stmt" and isinstance(n.ast, ast.Assign) and isinstance(n.ast.targets[0], ast.Name):
            v = n.ast.value
            if isinstance(v, ast.Attribute) and v.attr == "text" or (isinstance(v, ast.Name) and False):
                limit_vars.add(n.ast.targets[0].id)
    for n, c in cuts:
        # the bound is the number in the request
        bo = origins(du, n, c.args[1])
        from_request = bool(bo) and all(o.kind == "expr" and isinstance(o.leaf, ast.Call) and (dotted(o.leaf.func) or "") == "int" and o.leaf.args
                                        and isinstance(o.leaf.args[0], ast.Attribute) and o.leaf.args[0].attr == "text" for o in bo)
        # and the cut happens only if the request carried a limit element
        guarded_ = any(isinstance(t, ast.Compare) and len(t.ops) == 1 and isinstance(t.comparators[0], ast.Constant) and t.comparators[0].value is None
                       and ((isinstance(t.ops[0], ast.IsNot) and pol) or (isinstance(t.ops[0], ast.Is) and not pol))
                       for t, pol in cfg.required_conditions(n))
        obs.append(ctx.ob(from_request and guarded_, rp.qualname, where(rp, n), "report truncated only on the client's DAV:limit",
                          "islice(diff, int(<nresults>.text)) under `limit is not None`",
                          "`%s` cuts the report %s: members changed or removed beyond the cut are never reported, while the token returned "
                          "already names the current state" % (src(c)[:60], "although the request carries no DAV:limit" if not guarded_ else "by a bound that is not the client's")))
    if not cuts:
        obs.append(ctx.ok(rp.qualname, rp.where, "report is never truncated", "no islice on the differences"))
    return obs


@rule("C07", "T8", floor=5, kind="S",
      desc="each change is reported with its own old and new state: the loops of iter_changes, iter_differences_since and "
           "the sync report yield values of the current iteration only (same obligations as C01/H4 on those loops) - a "
           "resource object left over from the previous member turns a removal into a change")
def t8(ctx):
    from .common import per_item_obligations
    return per_item_obligations(ctx, ["xandikos.web.StoreBasedCollection.iter_differences_since", "xandikos.store.git.GitStore.iter_changes",
                                      "xandikos.sync.SyncCollectionReporter.report"])


@rule("C07", "T9", floor=2, kind="N",
      desc="the hrefs of a sync report address the members: the reporter works from the href of the request and "
           "create_href quotes the href as a whole (same obligations as C16/H2 and the 'whole href' clause of C16/Q1)")
def t9(ctx):
    from .c16 import h2, q1
    return list(h2(ctx)) + [o for o in q1(ctx) if o.detail == "create_href quotes the whole href"]


@rule("C07", "T10", floor=3, kind="S",
      desc="a token is accepted wherever it was issued: the sync-token element of a REPORT carries the value of "
           "get_sync_token() as it is (the DAV:sync-token property serves the same call, T4), and the text of the "
           "request's sync-token element reaches iter_differences_since as it is - a wrapping applied by one issuer "
           "only makes the tokens of the other one invalid")
def t10(ctx):
    from .common import unwrap_await
    obs = []
    az = ctx.own_method("xandikos.sync.SyncToken", "aselement")
    cfg = ctx.cfg(az)
    du = DefUse(cfg)
    sites = [n for n in cfg.stmt_nodes() if n.kind == "stmt" and isinstance(n.ast, ast.Assign) and any(isinstance(t, ast.Attribute) and t.attr == "text" for t in n.ast.targets)]
    if not sites:
        raise AnalysisError("SyncToken.aselement: assignment of the element text not found")
    for n in sites:
        os_ = origins(du, n, n.ast.value)
        ok = bool(os_) and all(o.kind == "expr" and not o.path and dotted(o.leaf) == "self.token" for o in os_)
        obs.append(ctx.ob(ok, az.qualname, "%s:%d" % (az.module.rel, n.lineno), "element text is the token",
                          "ret.text = self.token",
                          "SyncToken.aselement writes `%s`, not the token itself: the DAV:sync-token property hands out the bare value of "
                          "get_sync_token(), so the two issuers disagree and one kind of token is refused (or misread) by the next REPORT"
                          % src(n.ast.value)[:60]))
    rp = ctx.own_method("xandikos.sync.SyncCollectionReporter", "report")
    cfg = ctx.cfg(rp)
    du = DefUse(cfg)
    n_tok = n_it = 0
    for n in cfg.stmt_nodes():
        for c in n.calls():
            d = dotted(c.func) or ""
            if d.split(".")[-1] == "SyncToken" and c.args:
                n_tok += 1
                os_ = origins(du, n, c.args[0])
                ok = bool(os_) and all(o.kind == "expr" and not o.path and isinstance(unwrap_await(o.leaf), ast.Call)
                                       and (dotted(unwrap_await(o.leaf).func) or "").endswith(".get_sync_token") for o in os_)
                obs.append(ctx.ob(ok, rp.qualname, "%s:%d" % (rp.module.rel, n.lineno), "issued token is get_sync_token()",
                                  "SyncToken(resource.get_sync_token())",
                                  "the token a sync REPORT issues is `%s`, not the value of resource.get_sync_token()" % src(c.args[0])[:60]))
            if isinstance(c.func, ast.Attribute) and c.func.attr == "iter_differences_since" and c.args:
                n_it += 1
                os_ = origins(du, n, c.args[0])
                ok = bool(os_) and all((o.kind == "expr" and not o.path and ((isinstance(o.leaf, ast.Attribute) and o.leaf.attr == "text")
                                                                           or (isinstance(o.leaf, ast.Constant) and o.leaf.value is None))) for o in os_)
                a0 = unwrap_await(c.args[0])
                if not ok and isinstance(a0, ast.Attribute) and isinstance(a0.value, ast.Name):
                    # a field of a request object the body was parsed into: what the field holds is decided where the object
                    # is filled, which this rule does not follow - no verdict on the token, none against it either
                    base_leaves = {id(o.leaf) for o in origins(du, n, a0.value) if o.leaf is not None}
                    if os_ and all(o.leaf is not None and id(o.leaf) in base_leaves for o in os_):
                        ok = True
                obs.append(ctx.ob(ok, rp.qualname, "%s:%d" % (rp.module.rel, n.lineno), "presented token is compared as sent",
                                  "iter_differences_since(<text of the sync-token element>, ...)",
                                  "the token of the request is rewritten (`%s`) before it is looked up: a token issued through the other "
                                  "channel (the DAV:sync-token property) no longer names the state it was issued for"
                                  % ", ".join(sorted({src(o.leaf)[:50] for o in os_ if o.leaf is not None}))))
    if not n_tok or not n_it:
        raise AnalysisError("SyncCollectionReporter.report: SyncToken(...) / iter_differences_since(...) not found")
    return obs


@rule("C07", "T11", floor=1, kind="S",
      desc="the first report and the later ones enumerate the same thing: every difference iter_differences_since yields "
           "is an entry of store.iter_changes(old, new) - a second source for the initial listing (members(), which also "
           "has the child collections) hands out members that no later difference ever removes or updates")
def t11(ctx):
    from .common import loop_body_nodes
    fi = ctx.own_method("xandikos.web.StoreBasedCollection", "iter_differences_since")
    cfg = ctx.cfg(fi)
    du = DefUse(cfg)
    loops = loops_over(cfg, "store.iter_changes", du)
    if not loops:
        raise AnalysisError("iter_differences_since: loop over store.iter_changes not found")
    ys = [n for n in cfg.stmt_nodes() if n.kind == "stmt" and isinstance(n.ast, ast.Expr) and isinstance(n.ast.value, (ast.Yield, ast.YieldFrom))]
    if not ys:
        raise AnalysisError("iter_differences_since: no yield found")
    obs = []
    for y in ys:
        v = n_ = None
        ok = False
        if isinstance(y.ast.value, ast.Yield) and y.ast.value.value is not None:
            v = y.ast.value.value
            from .common import as_tuple
            elts = as_tuple(ctx, fi, y, v)
            if elts:
                first_os = origins(du, y, elts[0])
            else:
                first_os = origins(du, y, v, path=(0,))
            ok = bool(first_os) and all(o.kind == "elem" and o.node in loops and tuple(o.path) in ((0,), ("name",)) for o in first_os)
        obs.append(ctx.ob(ok, fi.qualname, "%s:%d" % (fi.module.rel, y.lineno), "difference is an entry of store.iter_changes()",
                          "name <- for name, ... in self.store.iter_changes(old_token, new_token)",
                          "iter_differences_since yields `%s`, which is not an entry of self.store.iter_changes(): the report for one kind of "
                          "token is computed from another listing than the differences that follow it, so a replica built from the "
                          "reports drifts from the collection" % src(y.ast.value)[:70]))
    return obs
