"""C04 — a crash during a write leaves the old or the new state."""

from __future__ import annotations

import ast

from ..cfg import WithCtx
from ..core import rule
from ..dataflow import DefUse, origins, depends_on
from ..program import AnalysisError, dotted, src
from ..core import walk_local  # inline-aware
from .common import where
from .storelib import STORE_MODULES, expr_is_tmp_path, facts, is_write_open, node_desc
from .c09 import BARE, TREE, _commit_nodes, in_locked_index

VDIR = "xandikos.store.vdir.VdirStore"


def write_open_sites(ctx, fi):
    """(with_enter node or stmt node, call, path expr) for every write-mode open() in fi."""
    cfg = ctx.cfg(fi)
    out = []
    for n in cfg.stmt_nodes():
        for c in n.calls():
            if is_write_open(c) and c.args:
                out.append((n, c, c.args[0]))
    return out


def _closed_before(cfg, n, reps) -> bool:
    """The write-open at *n* (a with_enter node) is closed before each rename in *reps* runs."""
    if n.kind != "with_enter":
        return False
    wexits = [m for m in cfg.nodes if m.kind == "with_exit" and m.ast is n.ast]
    from ..cfg import WithCtx
    for r in reps:
        if any(isinstance(c, WithCtx) and c.stmt is n.ast for c in r.ctx):
            return False      # the rename is inside the `with` block: the data may still sit in the buffer
        if not cfg.normal_completion_dominates(wexits, r):
            return False
    return True


def _replace_after(cfg, du, n, path_expr):
    """os.replace(<same tmp expr>, X) nodes that post-dominate the write at n (every normal path from the
    end of the with block to the function exit passes one)."""
    reps = []
    for m in cfg.stmt_nodes():
        for c in m.calls():
            if dotted(c.func) in ("os.replace", "os.rename") and len(c.args) >= 2 and src(c.args[0]) == src(path_expr):
                reps.append(m)
    return reps


@rule("C04", "A1", floor=3, kind="S",
      desc="vdir: a member file is only ever replaced atomically (write to <member>.tmp, then os.replace) or unlinked")
def a1(ctx):
    obs = []
    facts(ctx)
    fi = ctx.own_method(VDIR, "import_one")
    cfg = ctx.cfg(fi)
    du = DefUse(cfg)
    sites = write_open_sites(ctx, fi)
    if not sites:
        raise AnalysisError("VdirStore.import_one: no write-mode open found")
    for n, c, p in sites:
        tmp = expr_is_tmp_path(du, n, p)
        obs.append(ctx.ob(tmp, fi.qualname, where(fi, n), "member bytes are written to a temporary name",
                          "`%s` targets a .tmp path" % src(c)[:60],
                          "`%s` writes the member file in place: a crash in the middle leaves a truncated member" % src(c)[:80]))
        reps = _replace_after(cfg, du, n, p)
        # the replace must be on every normal path from the write to the exit
        wexit = [m for m in cfg.nodes if m.kind == "with_exit" and m.ast is n.ast and m.extra.get("via") == "fallthrough"] if n.kind == "with_enter" else [n]
        ok = bool(reps)
        if ok:
            after = cfg.reachable([x for w in wexit for x, l in w.succ if l != "exc"], block_nodes=reps, follow_exc=False)
            ok = cfg.exit.id not in after
        obs.append(ctx.ob(bool(reps) and _closed_before(cfg, n, reps), fi.qualname, where(fi, n), "temporary file is closed before it is renamed",
                          "os.replace runs after the `with open(tmp)` block", "os.replace(%s, ...) runs while the temporary file is still open (inside the `with` block): "
                          "the member is replaced before the data is flushed; a failing flush or a crash leaves a truncated member" % src(p)))
        obs.append(ctx.ob(ok, fi.qualname, where(fi, n), "temporary file is renamed onto the member",
                          "os.replace(%s, ...) follows on every normal path" % src(p),
                          "after writing `%s` there is a normal path to the exit that does not os.replace() it onto the member" % src(p)))
        for r in reps:
            c2 = [cc for cc in r.calls() if dotted(cc.func) in ("os.replace", "os.rename")][0]
            dst = c2.args[1]
            from ..dataflow import depends_on
            deps = {x for x in depends_on(du, r, dst) if not x.startswith(("self.", "<call:"))} - {"self", "content_type"}
            obs.append(ctx.ob(deps == {"name"} and not expr_is_tmp_path(du, r, dst), fi.qualname, where(fi, r), "rename target is the member path",
                              "os.replace(tmp, join(self.path, name))", "the rename target `%s` is not the member path built from `name`" % src(dst)))
    # nothing else in VdirStore member API writes a member in place
    for nm in ("delete_one",):
        f = ctx.own_method(VDIR, nm)
        s2 = write_open_sites(ctx, f)
        obs.append(ctx.ob(not s2, f.qualname, f.where, "no in-place write in %s" % nm, "no write-mode open", "%s opens a file for writing" % f.short))
    return obs


@rule("C04", "A2", floor=3, kind="S",
      desc="every write-mode open() in the store layer is of the tmp-then-replace form (the git working-tree copy, "
           "which no reader uses, is the one exception)")
def a2(ctx):
    obs = []
    facts(ctx)
    exceptions = {"xandikos.store.git.TreeGitStore._import_one": "working-tree copy; readers use index + object store (B2)"}
    n = 0
    for m in STORE_MODULES + ("xandikos.store.config", "xandikos.store", "xandikos.store.index"):
        for fi in ctx.P.funcs_in_module(m):
            if ctx.absorbed(fi):
                continue
            sites = write_open_sites(ctx, fi)
            if not sites:
                continue
            cfg = ctx.cfg(fi)
            du = DefUse(cfg)
            for node, c, p in sites:
                n += 1
                if fi.qualname in exceptions:
                    obs.append(ctx.ok(fi.qualname, where(fi, node), "write-open (exempt)", exceptions[fi.qualname]))
                    continue
                tmp = expr_is_tmp_path(du, node, p)
                reps = _replace_after(cfg, du, node, p) if tmp else []
                if tmp and reps:
                    obs.append(ctx.ob(_closed_before(cfg, node, reps), fi.qualname, where(fi, node), "temporary file closed before rename",
                                      "os.replace follows the `with` block", "os.replace(%s, ...) runs inside the `with open(...)` block: the file is renamed into place "
                                      "before its contents are flushed, so a crash in between leaves an empty/partial file under the final name" % src(p)))
                obs.append(ctx.ob(tmp and bool(reps), fi.qualname, where(fi, node), "write-open is tmp-then-replace",
                                  "writes %s then os.replace" % src(p),
                                  "`%s` truncates and rewrites `%s` in place: a crash in between leaves a partial file%s"
                                  % (src(c)[:70], src(p)[:60],
                                     " that configparser cannot parse - the collection no longer opens" if "CONFIG_FILENAME" in src(p) or "CONFIG_FILENAME" in ast.dump(fi.node) else "")))
    if n < 3:
        raise AnalysisError("only %d write-mode opens found in the store layer (confirmed: 4)" % n)
    return obs


@rule("C04", "B1", floor=4, kind="S",
      desc="git: objects are added to the object store before the index entry / ref that names them")
def b1(ctx):
    obs = []
    for nm in ("_import_one", "delete_one"):
        fi = ctx.own_method(BARE, nm)
        cfg = ctx.cfg(fi)
        commits = _commit_nodes(cfg)
        if not commits:
            raise AnalysisError("%s.%s: no _commit_tree" % (BARE, nm))
        for cnode in commits:
            c = [c for c in cnode.calls() if (dotted(c.func) or "").endswith("_commit_tree")][0]
            a = c.args[0] if c.args else None
            if isinstance(a, ast.Name):
                # the id taken into a local first (`new_tree_id = tree.id`)
                _os = [o for o in origins(DefUse(cfg), cnode, a)]
                if len(_os) == 1 and _os[0].kind == "expr" and not _os[0].path and isinstance(_os[0].leaf, ast.Attribute):
                    a = _os[0].leaf
            tv = dotted(a.value) if isinstance(a, ast.Attribute) else None
            adds = []
            for m in cfg.stmt_nodes():
                for cc in m.calls():
                    d = dotted(cc.func) or ""
                    if d.endswith("object_store.add_objects") or d.endswith("object_store.add_object"):
                        names = {x.id for x in ast.walk(cc) if isinstance(x, ast.Name)}
                        adds.append((m, names))
            have_tree = [m for m, names in adds if tv in names]
            ok = bool(have_tree) and cfg.normal_completion_dominates(have_tree, cnode)
            obs.append(ctx.ob(ok, fi.qualname, where(fi, cnode), "tree object stored before the ref moves",
                              "add_objects([... %s ...]) completes before _commit_tree" % tv,
                              "`%s` can run before the tree `%s` is in the object store: a crash leaves a commit naming a missing tree" % (node_desc(cnode), tv)))
        if nm == "_import_one":
            # the blob named by the new tree entry is stored too
            blob_ok = False
            for m in cfg.stmt_nodes():
                if m.kind == "stmt" and isinstance(m.ast, ast.Assign) and isinstance(m.ast.targets[0], ast.Subscript):
                    # the entry value, also when it was built in a local first (`new_entry = (mode, b.id)`)
                    vals = [m.ast.value] + [o.leaf for o in origins(DefUse(cfg), m, m.ast.value) if o.kind == "expr" and o.leaf is not None]
                    ids = [dotted(x.value) for v_ in vals for x in ast.walk(v_) if isinstance(x, ast.Attribute) and x.attr == "id"]
                    for bv in ids:
                        have = [mm for mm, names in adds if bv in names]
                        if have and all(cfg.normal_completion_dominates(have, cn) for cn in commits):
                            blob_ok = True
            obs.append(ctx.ob(blob_ok, fi.qualname, fi.where, "blob stored before the ref moves",
                              "the blob whose id enters the tree is added before _commit_tree",
                              "the blob referenced by the new tree entry is not added to the object store before the commit"))
    fi = ctx.own_method(TREE, "_import_one")
    cfg = ctx.cfg(fi)
    adds = [m for m in cfg.stmt_nodes() for cc in m.calls() if (dotted(cc.func) or "").endswith("object_store.add_object")]
    idx = [m for m in cfg.stmt_nodes() if m.kind == "stmt" and isinstance(m.ast, ast.Assign) and isinstance(m.ast.targets[0], ast.Subscript) and in_locked_index(m)]
    commits = _commit_nodes(cfg)
    if not idx or not commits:
        raise AnalysisError("TreeGitStore._import_one: index assignment / commit not found")
    for m in idx + commits:
        ok = bool(adds) and cfg.normal_completion_dominates(adds, m)
        obs.append(ctx.ob(ok, fi.qualname, where(fi, m), "blob stored before `%s`" % ("index entry" if m in idx else "commit"),
                          "object_store.add_object(blob) completes first",
                          "`%s` can run before the blob is in the object store: index/commit would reference a missing object" % node_desc(m)))
    return obs


FS_READS = {"open", "os.listdir", "os.stat", "os.lstat", "os.path.exists", "os.path.isfile", "os.path.getsize",
            "os.scandir", "os.walk", "os.path.isdir", "os.readlink"}


@rule("C04", "B2", floor=5, kind="S",
      desc="tree store: the read API never goes through the working-tree file (only index + object store)")
def b2(ctx):
    S = ctx.summaries

    def fs_local(fi, n, call, ext):
        if ext in FS_READS:
            return ext
        return None

    stop = lambda f: not f.module.name.startswith("xandikos.store")
    table = S.effects("fs-read", fs_local, stop=None)
    obs = []
    tree = ctx.P.cls(TREE)
    for nm in ("_get_raw", "_get_etag", "_iterblobs", "get_ctag", "iter_with_etag", "get_file", "iter_changes", "_scan_uids"):
        f = ctx.P.lookup_method(tree, nm)
        if f is None:
            raise AnalysisError("TreeGitStore.%s not found" % nm)
        ctx.functions_analysed.add(f.qualname)
        # restrict dispatch on self to the TreeGitStore MRO
        reads = set()
        seen = set()
        todo = [f]
        while todo:
            g = todo.pop()
            if g.qualname in seen:
                continue
            seen.add(g.qualname)
            for (n, c, targets, ext) in S.calls_of(g):
                if ext in FS_READS:
                    reads.add("%s in %s" % (ext, g.short))
                for t in targets:
                    if t.cls is not None and t.cls.qualname.startswith("xandikos.store") and t.cls is not tree \
                            and t.cls not in tree.mro:
                        continue  # sibling store class, not reachable from a TreeGitStore instance
                    if isinstance(c, ast.Call) and dotted(c.func) and dotted(c.func).startswith("self."):
                        m = ctx.P.lookup_method(tree, t.name)
                        if m is not None and m is not t and t.cls in tree.mro:
                            continue  # overridden in TreeGitStore
                    if t.module.name.startswith("xandikos.store"):
                        todo.append(t)
        obs.append(ctx.ob(not reads, TREE + "." + nm, f.where, "read API %s avoids the working tree" % nm,
                          "reaches only repo.open_index()/object_store (%d store functions followed)" % len(seen),
                          "read path %s touches the file system directly (%s): a reader can observe a half-written working-tree file"
                          % (nm, ", ".join(sorted(reads)))))
    return obs


@rule("C04", "B3", floor=5, kind="S",
      desc="tree store: the index is rewritten only under its lock file, and the lock is aborted on the error path")
def b3(ctx):
    obs = []
    GITQ = "xandikos.store.git.locked_index"
    if GITQ not in ctx.P.classes and ctx.P.has_func(GITQ) and {"contextmanager", "contextlib.contextmanager"} & set(ctx.func(GITQ).decorators):
        return obs + _b3_generator(ctx, ctx.func(GITQ)) + _b3_sites(ctx)
    li = ctx.P.cls(GITQ)
    en = ctx.own_method(li.qualname, "__enter__")
    ex = ctx.own_method(li.qualname, "__exit__")
    # __enter__ takes the lock (GitFile(path, 'wb'))
    gf = [n for n in walk_local(en.node) if isinstance(n, ast.Call) and (dotted(n.func) or "").split(".")[-1] == "GitFile"]
    ok = bool(gf) and any(isinstance(a, ast.Constant) and isinstance(a.value, str) and "w" in a.value for c in gf for a in c.args[1:2])
    obs.append(ctx.ob(ok, en.qualname, en.where, "__enter__ opens the lock file", "GitFile(path, 'wb') takes <index>.lock",
                      "locked_index.__enter__ no longer opens the index through GitFile(..., 'wb'): no lock is taken"))
    cfg = ctx.cfg(ex)
    excvar = ex.params[1] if len(ex.params) > 1 else "exc_type"
    tests = [n for n in cfg.nodes if n.kind == "test" and excvar in {x.id for x in ast.walk(n.ast) if isinstance(x, ast.Name)}]
    writes = [n for n in cfg.stmt_nodes() for c in n.calls() if (dotted(c.func) or "").split(".")[-1] in ("write_index_dict", "write_index", "close")]
    aborts = [n for n in cfg.stmt_nodes() for c in n.calls() if (dotted(c.func) or "").endswith(".abort")]
    if not tests:
        obs.append(ctx.bad(ex.qualname, ex.where, "__exit__ distinguishes the error path", "locked_index.__exit__ does not test %s" % excvar))
    else:
        from .common import test_polarity_absent
        lab = test_polarity_absent(tests[0].ast, excvar)
        err_label = {"f": "t", "t": "f"}.get(lab, "t")
        starts = [m for m, l in tests[0].succ if l == err_label]
        r = cfg.reachable(starts)
        if any(w.id in r for w in writes):
            # locals that record what happened (`writer = None ... if writer is None: abort`): follow the error
            # path with constant propagation, the test on the exception argument decided as 'an exception is pending'
            from .common import const_walk

            def decide(t_, _v=excvar, _lab=lab):
                l_ = test_polarity_absent(t_, _v)
                if l_ is None:
                    return None
                return l_ == "f"      # absent is the f edge  <=>  the test is False when no exception... inverted below
            # test_polarity_absent gives the edge taken when the exception argument is None; on the error path the other one
            def decide_err(t_):
                l_ = test_polarity_absent(t_, excvar)
                if l_ is None:
                    return None
                return l_ == "f"      # error pending: take the edge opposite to 'absent' (absent=f -> test True)
            try:
                r = set(const_walk(cfg, [cfg.entry], {}, decide=decide_err))
            except AnalysisError:
                pass
        wr = [w for w in writes if w.id in r]
        ab = [a for a in aborts if a.id in r]
        obs.append(ctx.ob(not wr and bool(ab), ex.qualname, where(ex, tests[0]), "error path aborts and does not write",
                          "on an exception the lock file is aborted, the index is not written",
                          "on the exception path locked_index.__exit__ %s" % ("writes the index" if wr else "does not abort the lock file")))
    # a failing write aborts too
    wnodes = [n for n in cfg.stmt_nodes() for c in n.calls() if (dotted(c.func) or "").split(".")[-1] == "write_index_dict"]
    ok = False
    for w in wnodes:
        for m, l in w.succ:
            if l == "exc":
                r = cfg.reachable([m])
                if any(a.id in r for a in aborts):
                    ok = True
    obs.append(ctx.ob(ok, ex.qualname, ex.where, "failed index write aborts the lock", "exception in write_index_dict -> abort()",
                      "an exception while writing the index does not abort the lock file (a partial index.lock could be renamed)"))
    # the write goes through the locked file
    through = any(isinstance(n, ast.Call) and (dotted(n.func) or "").split(".")[-1] == "SHA1Writer" and n.args and dotted(n.args[0]) == "self._file"
                  for n in walk_local(ex.node))
    obs.append(ctx.ob(through, ex.qualname, ex.where, "index is written through the lock file", "SHA1Writer(self._file)",
                      "the index is not written through the GitFile that holds the lock"))
    return obs + _b3_sites(ctx)


def _b3_generator(ctx, fi):
    """B3 for ``locked_index`` written as a ``contextlib.contextmanager`` generator: the part before the ``yield``
    is __enter__, an exception at the ``yield`` is the error path, what follows the ``yield`` is the normal exit."""
    obs = []
    cfg = ctx.cfg(fi)
    du = DefUse(cfg)
    from ..dataflow import origins
    ys = [n for n in cfg.stmt_nodes() if n.kind == "stmt" and isinstance(n.ast, ast.Expr) and isinstance(n.ast.value, ast.Yield)]
    if len(ys) != 1:
        raise AnalysisError("locked_index (generator form): expected exactly one yield, found %d" % len(ys))
    y = ys[0]
    gf_nodes = [n for n in cfg.stmt_nodes() for c in n.calls() if (dotted(c.func) or "").split(".")[-1] == "GitFile"
                and any(isinstance(a, ast.Constant) and isinstance(a.value, str) and "w" in a.value for a in c.args[1:2])]
    ok = bool(gf_nodes) and cfg.normal_completion_dominates(gf_nodes, y)
    obs.append(ctx.ob(ok, fi.qualname, fi.where, "__enter__ opens the lock file", "GitFile(path, 'wb') takes <index>.lock before the yield",
                      "locked_index no longer opens the index through GitFile(..., 'wb') before yielding: no lock is taken"))
    writes = [n for n in cfg.stmt_nodes() for c in n.calls() if (dotted(c.func) or "").split(".")[-1] in ("write_index_dict", "write_index", "close")]
    aborts = [n for n in cfg.stmt_nodes() for c in n.calls() if (dotted(c.func) or "").endswith(".abort")]
    # error path: what is reachable from the exceptional successors of the yield, up to leaving the function
    r = cfg.reachable([m for m, l in y.succ if l == "exc"])
    wr = [w for w in writes if w.id in r]
    ab = [a for a in aborts if a.id in r]
    leaves_by_raise = cfg.exit.id not in r or bool(ab)
    obs.append(ctx.ob(not wr and bool(ab) and leaves_by_raise, fi.qualname, where(fi, y), "error path aborts and does not write",
                      "on an exception the lock file is aborted, the index is not written",
                      "on the exception path locked_index %s" % ("writes the index" if wr else "does not abort the lock file")))
    wnodes = [n for n in cfg.stmt_nodes() for c in n.calls() if (dotted(c.func) or "").split(".")[-1] == "write_index_dict"]
    ok = False
    for w in wnodes:
        for m, l in w.succ:
            if l == "exc" and any(a.id in cfg.reachable([m]) for a in aborts):
                ok = True
    obs.append(ctx.ob(ok, fi.qualname, fi.where, "failed index write aborts the lock", "exception in write_index_dict -> abort()",
                      "an exception while writing the index does not abort the lock file (a partial index.lock could be renamed)"))
    through = False
    for n in cfg.stmt_nodes():
        for c in n.calls():
            if (dotted(c.func) or "").split(".")[-1] == "SHA1Writer" and c.args:
                ao = origins(du, n, c.args[0])
                if ao and all(o.kind == "expr" and isinstance(o.leaf, ast.Call) and (dotted(o.leaf.func) or "").split(".")[-1] == "GitFile" for o in ao):
                    through = True
    obs.append(ctx.ob(through, fi.qualname, fi.where, "index is written through the lock file", "SHA1Writer(<the GitFile>)",
                      "the index is not written through the GitFile that holds the lock"))
    return obs


def _b3_sites(ctx):
    obs = []
    # index mutations only under the lock
    tree = ctx.P.cls(TREE)
    nsites = 0
    for f in tree.methods.values():
        if ctx.absorbed(f):
            continue
        cfgf = ctx.cfg(f)
        du = DefUse(cfgf)
        for n in cfgf.stmt_nodes():
            a = n.ast
            tg = []
            if n.kind == "stmt" and isinstance(a, ast.Assign):
                tg = [t for t in a.targets if isinstance(t, ast.Subscript)]
            if n.kind == "stmt" and isinstance(a, ast.Delete):
                tg = [t for t in a.targets if isinstance(t, ast.Subscript)]
            for t in tg:
                base = dotted(t.value)
                if base is None:
                    continue
                from ..dataflow import origins as _orig
                bo = _orig(du, n, ast.Name(id=base.split(".")[0], ctx=ast.Load()))
                is_index = any(o.kind == "with" and isinstance(o.leaf, ast.Call) and (dotted(o.leaf.func) or "").endswith("locked_index") for o in bo) \
                    or any(o.leaf is not None and "open_index" in src(o.leaf) for o in bo)
                if not is_index:
                    continue
                nsites += 1
                locked = in_locked_index(n) and all(o.kind == "with" for o in bo)
                obs.append(ctx.ob(locked, f.qualname, where(f, n), "index mutation under locked_index",
                                  "`%s` is inside `with locked_index(...)`" % node_desc(n),
                                  "`%s` mutates the git index outside `with locked_index(...)`" % node_desc(n)))
            for c in n.calls():
                if isinstance(c.func, ast.Attribute) and c.func.attr == "write" and "index" in (dotted(c.func.value) or ""):
                    nsites += 1
                    obs.append(ctx.bad(f.qualname, where(f, n), "index written outside locked_index", "`%s` writes the index directly" % node_desc(n)))
    if nsites < 2:
        raise AnalysisError("only %d index mutation sites found in TreeGitStore (confirmed: 2)" % nsites)
    return obs


@rule("C04", "A3", floor=2, kind="S",
      desc="vdir: the temporary names the writers use are names every lister hides (writer/lister agreement), so the "
           "leftover of a crashed write is never served as a member")
def a3(ctx):
    from .c01 import LISTERS, _yield_nodes, hiding_predicates
    lf = ctx.own_method(VDIR, "iter_with_etag")
    hidden = set()
    for y in _yield_nodes(ctx.cfg(lf)):
        hidden |= {v for k, v in hiding_predicates(ctx, lf, y) if k == "endswith"}
    obs = []
    n = 0
    facts(ctx)
    for f in ctx.P.cls(VDIR).methods.values():
        for fn in [f] + list(f.locals.values()):
            cfg = ctx.cfg(fn)
            du = DefUse(cfg)
            for node, c, p in write_open_sites(ctx, fn):
                if not expr_is_tmp_path(du, node, p):
                    continue
                n += 1
                # shape of the temporary name: <something> + CONST  (suffix)
                exprs = [p]
                if isinstance(p, ast.Name):
                    exprs = [d.value for d in du.reaching(node, p.id) if d.value is not None]
                ok = False
                shape = "?"
                for e in exprs:
                    for x in ast.walk(e):
                        if isinstance(x, ast.BinOp) and isinstance(x.op, ast.Add):
                            rv = x.right.value if isinstance(x.right, ast.Constant) else ctx.P.try_fold(fn.module, x.right)
                            if isinstance(rv, str):
                                shape = "<name> + %r" % rv
                                if rv in hidden:
                                    ok = True
                        if isinstance(x, ast.BinOp) and isinstance(x.op, ast.Add) and isinstance(x.left, ast.Constant) and isinstance(x.left.value, str) and x.left.value not in ("",):
                            if not isinstance(x.right, ast.Constant):
                                shape = "%r + <name>" % x.left.value
                obs.append(ctx.ob(ok, fn.qualname, where(fn, node), "temporary name is hidden by the lister",
                                  "temporary name %s; lister hides names ending in %s" % (shape, sorted(hidden)),
                                  "the writer's temporary file is named %s, but iter_with_etag only hides names ending in %s: the leftover of an interrupted "
                                  "write is listed (and parsed, and its UID registered) as a member" % (shape, sorted(hidden))))
    if n < 2:
        raise AnalysisError("vdir: fewer than 2 temporary-file writers found")
    return obs


@rule("C04", "B4", floor=4, kind="S",
      desc="every view reads the structure the writer updates last: the tree store's collection tag is computed from "
           "the index, like the listing (same obligations as C08/G2) - a tag taken from HEAD shows the new state after a "
           "crash between the ref update and the index rename while listing and GET still show the old one")
def b4(ctx):
    from .c08 import g2
    return g2(ctx)


@rule("C04", "B5", floor=2, kind="N",
      desc="a write is acknowledged only after it was published: _import_one returns normally only through the commit "
           "or the 'unchanged' side of an object-id comparison (same obligations as C01/W2) - a shortcut that trusts "
           "the working copy acknowledges a write that a crash left unpublished")
def b5(ctx):
    from .c01 import w2
    return w2(ctx)


@rule("C04", "A4", floor=8, kind="S",
      desc="debris of an interrupted write hides nothing else: the listers skip an odd entry and go on (no break / return "
           "inside a listing loop), and a failed removal is reported (no ignore_errors on the rmtree fallback)")
def a4(ctx):
    from .common import total_loop_obligations
    obs = list(total_loop_obligations(ctx))
    n = 0
    for mname in ("xandikos.web", "xandikos.store.git", "xandikos.store.vdir", "xandikos.store"):
        for fi in ctx.P.funcs_in_module(mname):
            for c in walk_local(fi.node):
                if isinstance(c, ast.Call) and (dotted(c.func) or "").endswith("rmtree"):
                    n += 1
                    sw = [k for k in c.keywords if k.arg in ("ignore_errors", "onerror", "onexc") and not (isinstance(k.value, ast.Constant) and k.value.value in (False, None))]
                    sw += [a for a in c.args[1:2] if not (isinstance(a, ast.Constant) and a.value in (False, None))]
                    obs.append(ctx.ob(not sw, fi.qualname, "%s:%d" % (fi.module.rel, c.lineno), "rmtree failures surface", "shutil.rmtree(path)",
                                      "`%s` swallows errors: a removal that did not happen is acknowledged as done" % src(c)[:60]))
    if n < 2:
        raise AnalysisError("only %d rmtree sites found (confirmed: 4)" % n)
    return obs


@rule("C04", "B6", floor=2, kind="N",
      desc="a restart never treats existing data as new: creating a store refuses an existing directory (same obligations "
           "as C18/S7) - a create that quietly opens what is there makes the start-up code re-run its first-time "
           "initialisation writes on every start, against whatever a crash left behind")
def b6(ctx):
    from .c18 import s7
    return s7(ctx)


@rule("C04", "B7", floor=14, kind="N",
      desc="a write that did not happen is never acknowledged: a held index lock surfaces as LockedError from every "
           "tree-store write (same obligations as C05/L0), and what a write returns is the id of the blob it recorded "
           "(same obligations as C02/E3) - a refusal signalled through the return value is dropped by the callers that "
           "ignore it (property setters), which then answer success")
def b7(ctx):
    from .c05 import l0
    from .c02 import e3
    return list(l0(ctx)) + list(e3(ctx))


READERS = ("_get_raw", "_get_etag", "_iterblobs", "_get_current_tree", "get_ctag", "iter_with_etag", "get_file", "iter_changes",
           "subdirectories", "get_type", "get_description", "get_displayname", "get_color", "get_comment")


def reader_purity_obligations(ctx):
    """The read API of the stores keeps nothing between calls: no reader assigns an attribute of the store object
    (or an element of one).  A parsed index / tree / type remembered on the object is only as fresh as whatever
    invalidates it - a commit that moves HEAD before the index file is written, a directory removed and
    re-created by the web layer - and every view built on the reader then serves the remembered state."""
    obs = []
    for cq in (TREE, "xandikos.store.git.BareGitStore", "xandikos.store.vdir.VdirStore"):
        ci = ctx.P.cls(cq)
        for nm in READERS:
            if ctx.P.lookup_method(ci, nm) is None:
                continue
            f = ctx.home_method(cq, nm)
            try:
                cfg = ctx.cfg(f)
            except AnalysisError:
                continue
            me = f.params[0] if f.params else "self"
            # a reader that is handed a content id (etag / ctag: git object ids, md5 of the file) may memoise what belongs
            # to that id - content-addressed data never changes; the write must then be keyed by / built from the id
            idp = {p_ for p_ in f.params[1:] if p_ in ("etag", "ctag", "old_ctag", "new_ctag", "sha", "object_id", "tree_id")}
            du = None
            writes = []
            for n in cfg.stmt_nodes():
                a = n.ast
                if n.kind != "stmt" or not isinstance(a, (ast.Assign, ast.AugAssign, ast.AnnAssign)):
                    continue
                if isinstance(a, ast.AnnAssign) and a.value is None:
                    continue
                for t in (a.targets if isinstance(a, ast.Assign) else [a.target]):
                    for tt in (t.elts if isinstance(t, (ast.Tuple, ast.List)) else [t]):
                        base = tt.value if isinstance(tt, ast.Subscript) else tt
                        d = dotted(base) or ""
                        if isinstance(base, ast.Attribute) and d.startswith(me + ".") and not d.split(".")[1].startswith("__fo_"):
                            if idp:
                                du = du or DefUse(cfg)
                                deps = set(depends_on(du, n, a.value))
                                if isinstance(tt, ast.Subscript):
                                    deps |= set(depends_on(du, n, tt.slice))
                                if deps & idp:
                                    continue
                            writes.append((n, d))
            obs.append(ctx.ob(not writes, "%s.%s" % (cq, nm), f.where, "reader %s keeps nothing on the store object" % nm,
                              "no assignment to an attribute of self",
                              "%s.%s remembers state on the store object (`%s`, line %d): later calls answer from what was remembered, not "
                              "from the repository - after a write that moves HEAD before the index file is replaced, or after the collection "
                              "was removed and re-created, listings, lookups and reports keep serving the old state"
                              % (ci.name, nm, src(writes[0][0].ast)[:60] if writes else "", writes[0][0].lineno if writes else 0)))
    if len(obs) < 20:
        raise AnalysisError("only %d store readers found (confirmed: >= 20)" % len(obs))
    return obs


@rule("C04", "B8", floor=20, kind="S",
      desc="what a reader answers after a restart is what it answers before: the read API of the stores keeps no state "
           "on the store object between calls (no hand-made cache of the parsed index, tree, tag or type)")
def b8(ctx):
    return reader_purity_obligations(ctx)
