"""C14 — only well-formed data is stored (validation dominates the write)."""

from __future__ import annotations

import ast

from ..core import rule
from ..dataflow import DefUse, origins
from ..program import AnalysisError, dotted, src
from ..core import walk_local  # inline-aware
from .common import handler_catching, handler_body_nodes, raise_ctor_args, raise_targets, translation, where
from .storelib import facts, node_desc
from .c01 import response_status, return_status

IMPORTERS = [("xandikos.store.git.GitStore", "import_one"), ("xandikos.store.vdir.VdirStore", "import_one")]
OPENERS = ("open_by_extension", "open_by_content_type")


def _file_keys(du, node, e):
    """Identity of the File object(s) *e* denotes at *node*: the open_by_*(data, ...) call sites it originates from
    (None if some origin is not such a call on the uploaded `data`)."""
    keys = set()
    os_ = origins(du, node, e)
    if not os_:
        return None
    for o in os_:
        v = o.leaf
        if o.kind != "expr" or o.path or not (isinstance(v, ast.Call) and (dotted(v.func) or "").split(".")[-1] in OPENERS and v.args):
            return None
        a0 = origins(du, o.node, v.args[0])
        if not (a0 and all(x.kind == "param" and x.name == "data" and not x.path for x in a0)):
            return None
        keys.add(id(v))
    return keys


def file_var_of_validate(cfg, du):
    """[(node, text, ok, keys)] for every `<obj>.validate()` call; ok iff obj is built by open_by_* from the `data` parameter."""
    out = []
    for n in cfg.stmt_nodes():
        for c in n.calls():
            if isinstance(c.func, ast.Attribute) and c.func.attr == "validate" and not c.args:
                keys = _file_keys(du, n, c.func.value)
                if keys is None and not isinstance(c.func.value, (ast.Name, ast.Attribute)):
                    continue
                out.append((n, src(c.func.value), keys is not None, keys or set()))
    return out


@rule("C14", "V1", floor=6, kind="N",
      desc="validate() of the File object built from the uploaded data completes normally before every visible "
           "mutation in import_one, and what is written is that object's normalized() form")
def v1(ctx):
    F = facts(ctx)
    obs = []
    for cq, nm in IMPORTERS:
        fi = ctx.own_method(cq, nm)
        cfg = ctx.cfg(fi)
        du = DefUse(cfg)
        vals = file_var_of_validate(cfg, du)
        muts = [n for n in cfg.stmt_nodes() if F.node_mutations(fi, n)]
        if not muts:
            raise AnalysisError("%s.%s: no mutation" % (cq, nm))
        good = [n for n, var, ok, _k in vals if ok]
        fvars = {var for n, var, ok, _k in vals if ok}
        fkeys = set().union(*[k for n, var, ok, k in vals if ok]) if good else set()
        obs.append(ctx.ob(bool(good), fi.qualname, fi.where, "validates the File built from `data`",
                          "`%s.validate()` is called on open_by_*(data, ...)" % "/".join(sorted(fvars)),
                          "%s no longer calls validate() on the File object built from the uploaded `data`" % fi.short))
        for m in muts:
            dom = cfg.normal_completion_dominates(good, m) if good else False
            obs.append(ctx.ob(dom, fi.qualname, where(fi, m), "validate() dominates %s" % "/".join(F.callee_names(fi, m)[:2] or [m.kind]),
                              "every path to `%s` has completed validate()" % node_desc(m),
                              "`%s` can be reached without validate() having completed normally: unvalidated data can be stored" % node_desc(m)))
        # what is stored is fi.normalized()
        stored_ok = None
        for n in cfg.stmt_nodes():
            for c in n.calls():
                d = dotted(c.func) or ""
                if d == "self._import_one":
                    arg = c.args[1] if len(c.args) > 1 else None
                    for k in c.keywords:
                        if k.arg == "data":
                            arg = k.value
                    stored_ok = _is_normalized_of(du, n, arg, fkeys)
                    obs.append(ctx.ob(stored_ok, fi.qualname, where(fi, n), "_import_one stores normalized()",
                                      "data argument is `%s`" % (src(arg) if arg is not None else "?"),
                                      "_import_one is given `%s`, not the validated object's normalized() form" % (src(arg) if arg is not None else "?")))
                if isinstance(c.func, ast.Attribute) and c.func.attr in ("write", "writelines") and c.args:
                    stored_ok = _is_normalized_of(du, n, c.args[0], fkeys)
                    obs.append(ctx.ob(stored_ok, fi.qualname, where(fi, n), "file write stores normalized()",
                                      "written value `%s` iterates normalized()" % src(c.args[0]),
                                      "`%s` writes something other than the validated object's normalized() form" % node_desc(n)))
        if stored_ok is None:
            raise AnalysisError("%s.%s: the statement that hands the bytes to storage was not found" % (cq, nm))
    return obs


def _is_normalized_of(du, n, e, fkeys, depth=0) -> bool:
    """*e* is `<validated File>.normalized()` (through local names / an iteration over it)."""
    if e is None or not fkeys:
        return False
    os_ = origins(du, n, e)
    if not os_:
        return False
    for o in os_:
        v = o.leaf
        if o.kind not in ("expr", "elem") or o.path or not (isinstance(v, ast.Call) and isinstance(v.func, ast.Attribute) and v.func.attr == "normalized"):
            return False
        k = _file_keys(du, o.node, v.func.value)
        if not k or not k <= fkeys:
            return False
    return True


@rule("C14", "V2", floor=7, kind="S",
      desc="the validators are the ones in use: handlers registered on every opened store; ICalendarFile/VCardFile "
           "validate() raise on the documented conditions; parse errors become InvalidFileContents")
def v2(ctx):
    obs = []
    S = ctx.summaries
    # registration
    fi = ctx.func("xandikos.web.open_store_from_path")
    cfg = ctx.cfg(fi)
    rets = [n for n in cfg.nodes if n.kind == "return"]
    for cls in ("ICalendarFile", "VCardFile"):
        regs = [n for n in cfg.stmt_nodes() for c in n.calls()
                if isinstance(c.func, ast.Attribute) and c.func.attr == "load_extra_file_handler"
                and c.args and (dotted(c.args[0]) or "").split(".")[-1] == cls]
        ok = bool(regs) and all(cfg.normal_completion_dominates(regs, r) for r in rets)
        obs.append(ctx.ob(ok, fi.qualname, fi.where, "registers %s" % cls,
                          "load_extra_file_handler(%s) completes before the store is returned" % cls,
                          "a store can be returned without %s registered: File.validate() is a no-op for that media type" % cls))
    # get_resource uses that opener
    gr = ctx.own_method("xandikos.web.XandikosBackend", "get_resource")
    uses = any(isinstance(n, ast.Call) and (dotted(n.func) or "") == "open_store_from_path" for n in walk_local(gr.node))
    direct = [src(n) for n in walk_local(gr.node) if isinstance(n, ast.Call) and (dotted(n.func) or "").endswith(("open_from_path", "GitStore.open", "VdirStore"))]
    obs.append(ctx.ob(uses and not direct, gr.qualname, gr.where, "stores are opened through open_store_from_path",
                      "get_resource opens stores only via open_store_from_path", "get_resource opens a store without the registered file handlers: %s" % direct))
    # handler keys agree with the MIME table
    for cq, ct in (("xandikos.icalendar.ICalendarFile", "text/calendar"), ("xandikos.vcard.VCardFile", "text/vcard")):
        ci = ctx.P.cls(cq)
        v = ctx.P.try_fold(ci.module, ci.attrs["content_type"]) if "content_type" in ci.attrs else None
        obs.append(ctx.ob(v == ct, cq, "%s:%d" % (ci.module.rel, ci.node.lineno), "content_type == %s" % ct,
                          "handler key is %r" % v, "%s.content_type is %r; uploads of %s are handled by the no-op File class" % (ci.name, v, ct)))
    # the handler is looked up by the bare media type: parameters (charset=...) are stripped
    ob = ctx.func("xandikos.store.open_by_content_type")
    gets = [n for n in walk_local(ob.node) if isinstance(n, ast.Call) and isinstance(n.func, ast.Attribute) and n.func.attr == "get"
            and "extra_file_handlers" in (dotted(n.func.value) or "")]
    subs = [n for n in walk_local(ob.node) if isinstance(n, ast.Subscript) and (dotted(n.value) or "").endswith("extra_file_handlers")]
    if not gets and not subs:
        raise AnalysisError("open_by_content_type: handler lookup not found")
    from ..dataflow import DefUse as _DU
    cfgo = ctx.cfg(ob)
    duo = _DU(cfgo)

    def strips_params(e, node, depth=0):
        """The lookup key is the media type without its parameters: `<ct>.split(';')[0]` / `.partition(';')[0]`
        (also through tuple unpacking / local names) or the result of a header parser."""
        def leaf_ok(v, path):
            if isinstance(v, ast.Call) and isinstance(v.func, ast.Attribute) and v.func.attr in ("split", "partition") \
                    and v.args and ctx.P.try_fold(ob.module, v.args[0]) == ";" and tuple(path) == (0,):
                return True
            if isinstance(v, ast.Call) and (dotted(v.func) or "").split(".")[-1] in ("parse_type", "parse_header", "parse_options_header"):
                return True
            return False
        os_ = origins(duo, node, e)
        if os_ and all(o.kind == "expr" and o.leaf is not None and leaf_ok(o.leaf, o.path) for o in os_):
            return True
        for x in ast.walk(e):
            if isinstance(x, ast.Subscript) and ctx.P.try_fold(ob.module, x.slice) == 0 and leaf_ok(x.value, (0,)):
                return True
            if isinstance(x, ast.Call) and leaf_ok(x, ()):
                return True
        return False
    for g in gets + subs:
        node = [n for n in cfgo.stmt_nodes() if any(g is x for e in n.exprs() for x in ast.walk(e))]
        key = g.args[0] if isinstance(g, ast.Call) else g.slice
        ok = bool(node) and strips_params(key, node[0])
        obs.append(ctx.ob(ok, ob.qualname, ob.where, "handler looked up by the bare media type", "key is content_type.split(';')[0]",
                          "open_by_content_type looks the handler up with `%s`, parameters included: an upload with 'text/calendar; charset=utf-8' gets the generic "
                          "File class, which neither validates nor normalises" % src(key)))
    # ICalendarFile.validate
    f = ctx.own_method("xandikos.icalendar.ICalendarFile", "validate")
    cfg = ctx.cfg(f)
    du = DefUse(cfg)
    raises = [n for n in cfg.nodes if n.kind == "raise" and n.extra.get("exc") == "InvalidFileContents"]
    on_errors = False
    on_validate = False
    for r in raises:
        for t, pol in cfg.required_conditions(r):
            if pol and isinstance(t, ast.Attribute) and t.attr == "errors":
                on_errors = True
            if pol and isinstance(t, ast.Name):
                from ..dataflow import origins as _orig
                for o in _orig(du, r, t):
                    if o.leaf is not None and any(isinstance(x, ast.Call) and (dotted(x.func) or "").split(".")[-1] == "validate_calendar"
                                                  for x in ast.walk(o.leaf)):
                        on_validate = True
    obs.append(ctx.ob(on_errors, f.qualname, f.where, "raises on cal.errors",
                      "InvalidFileContents is raised when the parsed calendar reports errors",
                      "ICalendarFile.validate no longer refuses a calendar whose parser reported errors (cal.errors)"))
    obs.append(ctx.ob(on_validate, f.qualname, f.where, "raises on validate_calendar() findings",
                      "InvalidFileContents is raised when validate_calendar() yields an error",
                      "ICalendarFile.validate no longer refuses calendars with forbidden control characters (validate_calendar)"))
    # validate_component yields for every invalid control character
    vc = ctx.func("xandikos.icalendar.validate_component")
    cfgv = ctx.cfg(vc)
    ys = [n for n in cfgv.stmt_nodes() if n.kind == "stmt" and isinstance(n.ast, ast.Expr) and isinstance(n.ast.value, ast.Yield)]
    ctrl = False
    for y in ys:
        for t, pol in cfgv.required_conditions(y):
            if pol and isinstance(t, ast.Compare) and isinstance(t.ops[0], ast.In):
                ctrl = True
    from ..dataflow import iter_exprs as _iters
    duv = DefUse(cfgv)
    loops = [n for n in cfgv.nodes if n.kind == "for" and any("_INVALID_CONTROL_CHARACTERS" in src(it) for it in _iters(duv, n))]
    recurse = any(isinstance(n, ast.Call) and dotted(n.func) == "validate_component" for n in walk_local(vc.node))
    obs.append(ctx.ob(ctrl and bool(loops) and recurse, vc.qualname, vc.where, "control-character scan over all components",
                      "yields for each forbidden character in each text value, recursing into sub-components",
                      "validate_component no longer scans every text value of every (sub)component for the forbidden control characters"))
    # VCardFile.validate
    f = ctx.own_method("xandikos.vcard.VCardFile", "validate")
    cfg = ctx.cfg(f)
    frame = set()
    for n in cfg.nodes:
        if n is cfg.exit:
            for t, pol in cfg.required_conditions(n):
                if pol and isinstance(t, ast.Call) and isinstance(t.func, ast.Attribute) and t.func.attr in ("startswith", "endswith"):
                    v = ctx.P.try_fold(f.module, t.args[0]) if t.args else None
                    vs = v if isinstance(v, tuple) else (v,)
                    if t.func.attr == "startswith" and all(isinstance(x, bytes) and x.startswith(b"BEGIN:VCARD") for x in vs):
                        frame.add("begin")
                    if t.func.attr == "endswith" and all(isinstance(x, bytes) and x.rstrip().endswith(b"END:VCARD") for x in vs):
                        frame.add("end")
                # the slice idiom for the same tests: X[:len(T)] == T  /  X[-len(T):] == T
                if isinstance(t, ast.Compare) and len(t.ops) == 1 and isinstance(t.ops[0], (ast.Eq, ast.NotEq)) and pol == isinstance(t.ops[0], ast.Eq):
                    for a_, b_ in ((t.left, t.comparators[0]), (t.comparators[0], t.left)):
                        tv = ctx.P.try_fold(f.module, b_)
                        if not (isinstance(a_, ast.Subscript) and isinstance(a_.slice, ast.Slice) and isinstance(tv, bytes) and a_.slice.step is None):
                            continue

                        def bound(x):
                            if x is None:
                                return None
                            if isinstance(x, ast.UnaryOp) and isinstance(x.op, ast.USub):
                                inner = bound(x.operand)
                                return -inner if isinstance(inner, int) else "?"
                            if isinstance(x, ast.Call) and dotted(x.func) == "len" and len(x.args) == 1:
                                lv = ctx.P.try_fold(f.module, x.args[0])
                                return len(lv) if isinstance(lv, (bytes, str)) else "?"
                            c_ = ctx.P.try_fold(f.module, x)
                            return c_ if isinstance(c_, int) else "?"
                        lo, hi = bound(a_.slice.lower), bound(a_.slice.upper)
                        if lo in (None, 0) and hi == len(tv) and tv.startswith(b"BEGIN:VCARD"):
                            frame.add("begin")
                        if lo == -len(tv) and hi is None and tv.rstrip().endswith(b"END:VCARD"):
                            frame.add("end")
    obs.append(ctx.ob(frame == {"begin", "end"}, f.qualname, f.where, "BEGIN/END frame required",
                      "a normal return requires startswith(BEGIN:VCARD) and endswith(END:VCARD)",
                      "VCardFile.validate can return normally for a body without the BEGIN:VCARD/END:VCARD frame (missing: %s)"
                      % sorted({"begin", "end"} - frame)))
    # parse errors translated
    for cq, prop, exc in (("xandikos.icalendar.ICalendarFile", "calendar", "ValueError"),
                          ("xandikos.vcard.VCardFile", "addressbook", "ParseError")):
        f = ctx.own_method(cq, prop)
        cfg = ctx.cfg(f)
        ok = False
        for h in cfg.handlers:
            if h.types and exc in h.types:
                body = handler_body_nodes(cfg, h)
                if any(b.kind == "raise" and b.extra.get("exc") == "InvalidFileContents" for b in body):
                    ok = True
        obs.append(ctx.ob(ok, f.qualname, f.where, "%s -> InvalidFileContents" % exc,
                          "parser %s is translated to InvalidFileContents" % exc,
                          "%s.%s no longer translates the parser's %s into InvalidFileContents: an unparseable body is a 500, not a refusal" % (cq.split(".")[-1], prop, exc)))
    return obs


WEB_IMPORT_SITES = [("xandikos.web.ObjectResource", "set_body"), ("xandikos.web.StoreBasedCollection", "create_member")]


def import_call_nodes(ctx, fi):
    cfg = ctx.cfg(fi)
    out = []
    for n in cfg.stmt_nodes():
        for c in n.calls():
            names = [dotted(c.func) or ""] + [dotted(a) or "" for a in c.args]
            if any(x.endswith("store.import_one") for x in names):
                out.append(n)
    return out


def mapping_obligations(ctx, exc: str, precondition_suffix: str):
    """Shared by C14/V3 and C06/U3."""
    obs = []
    for cq, nm in WEB_IMPORT_SITES:
        fi = ctx.own_method(cq, nm)
        nodes = import_call_nodes(ctx, fi)
        if not nodes:
            raise AnalysisError("%s.%s no longer calls store.import_one" % (cq, nm))
        for n in nodes:
            h, raises, rets = translation(ctx, fi, n, exc)
            ok = False
            got = None
            for r in raises:
                tgs = raise_targets(r, exc)
                good = bool(tgs)
                for name, args in tgs:
                    g1 = None
                    if name == "PreconditionFailure" and args:
                        g1 = ctx.P.try_fold(fi.module, args[0])
                        got = g1 if got is None or not isinstance(g1, str) else got
                    if not (isinstance(g1, str) and g1.endswith(precondition_suffix) and g1.startswith("{urn:ietf:params:xml:ns:caldav}")):
                        good = False
                    else:
                        got = g1
                if good:
                    ok = True
            obs.append(ctx.ob(ok, fi.qualname, where(fi, n), "%s -> %s" % (exc, precondition_suffix),
                              "store %s is answered with precondition %s" % (exc, got),
                              "%s raised by store.import_one in %s is %s" % (
                                  exc, fi.short, "not caught (500)" if h is None else "not translated to the CALDAV:%s precondition (got %r)" % (precondition_suffix, got))))
    for q in ("xandikos.webdav.PutMethod.handle", "xandikos.webdav.PostMethod.handle"):
        fi = ctx.func(q)
        cfg = ctx.cfg(fi)
        sites = [n for n in cfg.stmt_nodes() for c in n.calls()
                 if isinstance(c.func, ast.Attribute) and c.func.attr in ("set_body", "create_member")]
        if not sites:
            raise AnalysisError("%s: no set_body/create_member call" % q)
        for n in sites:
            h, raises, rets = translation(ctx, fi, n, "PreconditionFailure")
            sts = [return_status(ctx, fi, r) for r in rets if r.ast.value is not None]
            ok = h is not None and bool(sts) and all(s == 412 for s in sts)
            obs.append(ctx.ob(ok, q, where(fi, n), "PreconditionFailure -> 412 at %s" % "/".join(c.func.attr for c in n.calls() if isinstance(c.func, ast.Attribute) and c.func.attr in ("set_body", "create_member")),
                              "PreconditionFailure is answered 412", "PreconditionFailure from `%s` is %s" % (node_desc(n), "not caught" if h is None else "answered with %s" % sts)))
    return obs


@rule("C14", "V3", floor=5, kind="S",
      desc="InvalidFileContents -> CALDAV:valid-calendar-data precondition -> 412 at both import_one call sites")
def v3(ctx):
    return mapping_obligations(ctx, "InvalidFileContents", "valid-calendar-data")


@rule("C14", "V4", floor=2, kind="N",
      desc="no-op detection exists: a commit is made only when the tree/blob differs (shared with C09/K1)")
def v4(ctx):
    from .c09 import commit_guard_obligations
    return commit_guard_obligations(ctx)


MEMOISERS = ("lru_cache", "cache", "cached", "memoize", "memoized")


@rule("C14", "V5", floor=2, kind="S",
      desc="every File object parses its own bytes into its own object tree: the parse result kept in "
           "ICalendarFile._calendar / VCardFile._addressbook does not come from a memoising function (a shared "
           "parse tree is edited by expansion / normalisation of one request and then stored by another)")
def v5(ctx):
    obs = []
    for cq, prop, attr in (("xandikos.icalendar.ICalendarFile", "calendar", "self._calendar"),
                           ("xandikos.vcard.VCardFile", "addressbook", "self._addressbook")):
        f = ctx.own_method(cq, prop)
        cfg = ctx.cfg(f)
        du = DefUse(cfg)
        stores = [n for n in cfg.stmt_nodes() if n.kind == "stmt" and isinstance(n.ast, (ast.Assign, ast.AnnAssign)) and n.ast.value is not None
                  and any(dotted(t) == attr for t in (n.ast.targets if isinstance(n.ast, ast.Assign) else [n.ast.target]))
                  and not (isinstance(n.ast.value, ast.Constant) and n.ast.value.value is None)]
        if not stores:
            raise AnalysisError("%s.%s: assignment of %s not found" % (cq, prop, attr))
        for n in stores:
            memo = []
            seen = set()
            todo = [(f, n, n.ast.value)]
            while todo:
                g, nd, e = todo.pop()
                dug = du if g is f else DefUse(ctx.cfg(g))
                for o in origins(dug, nd, e):
                    v = o.leaf
                    # a memoised helper whose body was spliced in here (helpers unknown to the reference tree are inlined)
                    q_in = o.node.extra.get("inlined_from") if o.node is not None else None
                    if q_in and q_in not in seen:
                        seen.add(q_in)
                        h = ctx.P.functions.get(q_in)
                        if h is not None and any(d.split(".")[-1] in MEMOISERS for d in h.decorators):
                            memo.append(h.short)
                    if o.kind != "expr" or not isinstance(v, ast.Call):
                        continue
                    res = ctx.P.resolve_call(g, v)
                    for t in res.targets:
                        if t.qualname in seen:
                            continue
                        seen.add(t.qualname)
                        if any(d.split(".")[-1] in MEMOISERS for d in t.decorators):
                            memo.append(t.short)
                        # what a helper returns
                        cfgt = ctx.cfg(t)
                        for r in [x for x in cfgt.nodes if x.kind == "return" and x.ast.value is not None]:
                            todo.append((t, r, r.ast.value))
            obs.append(ctx.ob(not memo, f.qualname, where(f, n), "%s holds a private parse result" % attr,
                              "parsed from the object's own content, no memoising function on the way",
                              "%s is filled from the memoising function %s: File objects with equal bytes share one mutable parse tree, so what one request "
                              "does to it (e.g. expanding recurrences strips RRULE) is what a later upload of the same bytes stores" % (attr, ", ".join(memo))))
    return obs


@rule("C14", "V6", floor=3, kind="S",
      desc="what is stored is the complete normalised form: the vdir member is written to a temporary file that is "
           "closed before it is renamed (same obligations as C04/A1) - a rename inside the `with` publishes an empty or "
           "truncated member")
def v6(ctx):
    from .c04 import a1
    return a1(ctx)


def normalized_obligations(ctx):
    """What a File class hands to the store is either the very bytes it validated (`self.content`) or the serialisation
    of the object it parsed from them, in a container that can be iterated more than once."""
    obs = []
    base = ctx.P.cls("xandikos.store.File")
    classes = [base] + base.all_subclasses()
    n = 0
    for ci in classes:
        if "normalized" not in ci.methods and ci is not base:
            continue
        f = ctx.own_method(ci.qualname, "normalized")
        cfg = ctx.cfg(f)
        du = DefUse(cfg)
        rets = [r for r in cfg.nodes if r.kind == "return"]
        is_gen = any(isinstance(x, (ast.Yield, ast.YieldFrom)) for x in ast.walk(f.node))
        problems = []
        if is_gen:
            problems.append("is a generator (can be consumed only once; the tree store iterates the data twice)")
        if not rets and not is_gen:
            raise AnalysisError("%s.normalized has no return" % ci.qualname)

        def serialised(node, e) -> bool:
            """`<self.parsed>.to_ical()` / `.serialize()`: the parsed object written out by its own library."""
            os_ = origins(du, node, e)
            return bool(os_) and all(o.kind == "expr" and isinstance(o.leaf, ast.Call) and isinstance(o.leaf.func, ast.Attribute)
                                     and o.leaf.func.attr in ("to_ical", "serialize") and not o.leaf.args
                                     and (dotted(o.leaf.func.value) or "").startswith("self.") for o in os_)

        for r in rets:
            v = r.ast.value
            if v is None:
                problems.append("returns None")
                continue
            for o in origins(du, r, v):
                lf = o.leaf
                if o.kind == "expr" and isinstance(lf, ast.Attribute) and dotted(lf) == "self.content" and not o.path:
                    continue
                if o.kind == "expr" and isinstance(lf, (ast.List, ast.Tuple)) and lf.elts and all(serialised(o.node or r, x) for x in lf.elts):
                    continue
                if o.kind == "expr" and isinstance(lf, (ast.GeneratorExp,)):
                    problems.append("returns a generator expression `%s` (can be consumed only once)" % src(lf)[:50])
                else:
                    problems.append("returns `%s`" % (src(lf)[:60] if lf is not None else o.kind))
        n += 1
        obs.append(ctx.ob(not problems, f.qualname, f.where, "normalized() is the validated content or its serialisation",
                          "returns self.content or [<parsed object>.to_ical()/serialize()]",
                          "%s.normalized %s: the bytes that are stored are neither the bytes validate() looked at nor the library's own "
                          "serialisation of the parsed object, so the stored member need not parse (or carry the UID that was checked), and "
                          "storing what GET serves need not give the same bytes" % (ci.name, "; ".join(problems))))
    if n < 2:
        raise AnalysisError("only %d normalized() implementations found" % n)
    return obs


@rule("C14", "V7", floor=2, kind="S",
      desc="what is stored is what was validated: File.normalized() returns the validated content itself or the parsed "
           "object's own serialisation, as a re-iterable container - no byte / text rewriting of its own")
def v7(ctx):
    return normalized_obligations(ctx)


@rule("C14", "V8", floor=1, kind="S",
      desc="the parser is given the uploaded bytes: Calendar.from_ical receives b''.join(self.content) - not decoded "
           "text (a one-line str is taken for a file name by the library and read from the server's disk)")
def v8(ctx):
    f = ctx.own_method("xandikos.icalendar.ICalendarFile", "calendar")
    cfg = ctx.cfg(f)
    du = DefUse(cfg)
    obs = []
    calls = [(n, c) for n in cfg.stmt_nodes() for c in n.calls() if (dotted(c.func) or "").endswith("Calendar.from_ical") and c.args]
    if not calls:
        raise AnalysisError("ICalendarFile.calendar: Calendar.from_ical call not found")
    for n, c in calls:
        os_ = origins(du, n, c.args[0])
        def is_bytes(lf):
            return (isinstance(lf, ast.Call) and isinstance(lf.func, ast.Attribute) and lf.func.attr == "join" and isinstance(lf.func.value, ast.Constant)
                    and isinstance(lf.func.value.value, bytes)) or (isinstance(lf, ast.Constant) and isinstance(lf.value, bytes)) \
                or (isinstance(lf, ast.Call) and isinstance(lf.func, ast.Attribute) and lf.func.attr == "encode")
        texty = [src(o.leaf)[:50] for o in os_ if o.leaf is not None and any(isinstance(x, ast.Call) and isinstance(x.func, ast.Attribute) and x.func.attr == "decode"
                                                                             or isinstance(x, ast.Call) and dotted(x.func) == "str" for x in ast.walk(o.leaf))]
        ok = bool(os_) and all(o.kind == "expr" and is_bytes(o.leaf) for o in os_)
        if not ok and not texty:
            raise AnalysisError("ICalendarFile.calendar: argument of from_ical `%s` not understood" % src(c.args[0])[:50])
        obs.append(ctx.ob(ok, f.qualname, where(f, n), "from_ical(<bytes of the upload>)", "b''.join(self.content)",
                          "Calendar.from_ical is given text (`%s`): the installed parser treats a str without line breaks as a path and "
                          "parses that file, so a body that is not calendar data at all is accepted and stored" % (texty[0] if texty else "")))
    return obs


@rule("C14", "V9", floor=3, kind="S",
      desc="describing a change does not change what is stored: the commit-message helpers (describe_calendar_delta, "
           "calendar_component_delta, calendar_prop_delta) only read the parsed calendars - no in-place sort / append / "
           "assignment on anything reached from their arguments (the same object is serialised by normalized() next)")
def v9(ctx):
    MUT = {"sort", "reverse", "append", "extend", "insert", "remove", "pop", "clear", "update", "add", "discard", "popitem", "setdefault", "__setitem__", "__delitem__"}
    obs = []
    from ..dataflow import depends_on
    for q in ("describe_calendar_delta", "calendar_component_delta", "calendar_prop_delta"):
        f = ctx.func("xandikos.icalendar." + q)
        cfg = ctx.cfg(f)
        du = DefUse(cfg)
        params = set(f.params)
        bad = []
        # locals that are fresh containers built here may be mutated; everything that stems from a parameter may not
        fresh = set()
        for d_ in du.all_defs:
            if d_.kind == "assign" and isinstance(d_.value, (ast.List, ast.Dict, ast.Set, ast.ListComp, ast.DictComp, ast.SetComp)) \
                    or (d_.kind == "assign" and isinstance(d_.value, ast.Call) and dotted(d_.value.func) in ("list", "dict", "set", "sorted")):
                fresh.add(d_.name)
        for n in cfg.stmt_nodes():
            for c in n.calls():
                if isinstance(c.func, ast.Attribute) and c.func.attr in MUT and isinstance(c.func.value, (ast.Name, ast.Attribute, ast.Subscript)):
                    base = c.func.value
                    root = base
                    while isinstance(root, (ast.Attribute, ast.Subscript)):
                        root = root.value
                    if isinstance(root, ast.Name) and root.id in fresh and isinstance(base, ast.Name):
                        continue
                    if params & depends_on(du, n, base):
                        bad.append((n, src(c)[:50]))
            if n.kind == "stmt" and isinstance(n.ast, (ast.Assign, ast.AugAssign, ast.Delete)):
                for t in (n.ast.targets if not isinstance(n.ast, ast.AugAssign) else [n.ast.target]):
                    if isinstance(t, (ast.Subscript, ast.Attribute)) and params & depends_on(du, n, t.value):
                        root = t.value
                        while isinstance(root, (ast.Attribute, ast.Subscript)):
                            root = root.value
                        if isinstance(root, ast.Name) and root.id in fresh:
                            continue
                        bad.append((n, src(n.ast)[:50]))
        obs.append(ctx.ob(not bad, f.qualname, where(f, bad[0][0]) if bad else f.where, "%s only reads its arguments" % q, "no in-place mutation",
                          "%s modifies the calendar it is given (`%s`): the object that is serialised and stored next is not the one that was "
                          "uploaded - re-uploading what GET serves gives different bytes" % (q, bad[0][1] if bad else "")))
    return obs


@rule("C14", "V10", floor=2, kind="N",
      desc="an upload is validated by the class its name selects everywhere: the content type the listing reports and the File "
           "class chosen to parse a member are both MIMETYPES.guess_type(name) (same obligations as C06/U7) - a case-sensitive "
           "table makes MEETING.ICS a plain file on update, and the PUT is stored unvalidated")
def v10(ctx):
    from .c06 import u7
    return u7(ctx)


@rule("C14", "V11", floor=3, kind="N",
      desc="uploading what is served changes nothing: the 'unchanged' comparison compares like with like (same obligations as "
           "C09/K6) - an object id (bytes) compared with an etag (str) is always different, and every re-upload adds a commit")
def v11(ctx):
    from .c09 import k6
    return k6(ctx)
