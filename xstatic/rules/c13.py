"""C13 — no request can touch the file system outside the data directory.

Interprocedural provenance analysis over a small lattice of path shapes.
"""

from __future__ import annotations

import ast
from typing import List

from ..core import rule
from ..prov import Analysis, BOT, Domain, flat, join
from ..program import AnalysisError, dotted, src
from ..core import walk_local  # inline-aware
from .common import where

A = lambda *xs: frozenset(xs)  # noqa: E731

REQUEST = {"RAW", "RAW_ABS", "RAWN", "SEGQ"}
LISTING_FUNCS = {"iter_with_etag", "iter_changes", "iter_with_filter", "_iterblobs", "subdirectories"}


def _no_dots(s: str) -> bool:
    return all(p not in ("..", ".") for p in s.split("/"))


class PathDomain(Domain):
    name = "path-shape"

    def const(self, v):
        if isinstance(v, bytes):
            try:
                v = v.decode("utf-8")
            except Exception:
                return self.OTHER
        if not isinstance(v, str):
            return self.OTHER
        if v == "":
            return A("SEG")
        if not _no_dots(v):
            return A("SEGQ") if "/" not in v else A("RAW")
        if "/" not in v:
            return A("SEG")
        if v.startswith("/"):
            return A("NORM")
        return A("RELNORM")

    def source(self, an, fi, d):
        root = d.split(".")[0].split("[")[0]
        if root == "request" and d != "request":
            return A("RAW")
        if d.startswith("environ["):
            return A("CONFIG") if "SCRIPT_NAME" in d else A("RAW")
        if d.startswith("self._environ[") or d.startswith("self._environ."):
            return A("RAW")
        if root == "options" and d != "options":
            return A("CONFIG")
        if d.startswith("os.environ"):
            return A("CONFIG")
        if d.endswith("store.path") or d.endswith("repo.path") or d in ("self.store.repo.path",):
            return A("STOREPATH")
        if d in ("request", "environ", "app", "self", "cls"):
            return self.OBJ
        return None

    def entry_param(self, fi, name):
        if fi.name in ("main", "run_simple_server", "add_parser") or fi.qualname.endswith("<module>"):
            return A("CONFIG")
        if name in ("request", "environ", "app", "start_response"):
            return self.OBJ
        # closed world: a function nobody in the program calls contributes no values
        return BOT

    def top(self):
        return A("RAW")

    def unknown(self, vals):
        atoms = set()
        for v in vals:
            atoms |= flat(v)
        if atoms & REQUEST:
            return A("RAW")
        if "CONFIG" in atoms:
            return A("CONFIG")
        return self.OTHER

    fstring_is_concat = True

    def fstring(self, parts):
        return self.unknown(parts)

    def relevant_test(self, t, name):
        return isinstance(t, ast.Call) and isinstance(t.func, ast.Attribute) and t.func.attr == "startswith" \
            and isinstance(t.func.value, ast.Name) and t.func.value.id == name and t.args \
            and isinstance(t.args[0], ast.Constant) and t.args[0].value == "/"

    def refine(self, v, test, pol, name):
        if not pol:
            return v
        m = {"RAW": "RAW_ABS", "RAWN": "NORM"}
        if isinstance(v, tuple):
            return v
        return frozenset(m.get(a, a) for a in v)

    # ---- transfer functions
    def _join_paths(self, vals: List[frozenset], fs: bool) -> frozenset:
        # strict in BOT: no value has arrived yet (fixed-point iteration is monotone)
        cur = flat(vals[0])
        if not cur:
            return BOT
        for b in vals[1:]:
            b = flat(b)
            if not b:
                continue
            out = set()
            for x in cur:
                for y in b:
                    out.add(self._join2(x, y))
            cur = frozenset(out)
        return cur

    @staticmethod
    def _join2(a: str, b: str) -> str:
        if b in ("NORM", "RAW_ABS"):
            return b
        if b == "CONFIG":
            return "CONFIG" if a in ("CONFIG", "SEG", "RELNORM", "NORM", "OTHER", "FSPATH", "STOREPATH") else "RAW"
        if b in ("RAW", "RAWN"):
            return "RAW"
        if b in ("SEG", "RELNORM"):
            if a in ("NORM", "CONFIG", "FSPATH", "STOREPATH", "RAW_ABS", "RAW", "OTHER"):
                return a
            if a in ("SEG", "RELNORM"):
                return "RELNORM"
            if a in ("SEGQ", "RAWN"):
                return "RAW"
            return "OTHER"
        if b == "SEGQ":
            if a == "NORM":
                return "RAW_ABS"
            if a in ("FSPATH", "STOREPATH"):
                return a + "_DOT"
            return "RAW"
        if b in ("FSPATH", "STOREPATH", "FSPATH_DOT", "STOREPATH_DOT"):
            return b
        if b in ("NONE", "OBJ", "OTHER"):
            return "OTHER" if a not in REQUEST else "RAW"
        return "RAW"

    def call(self, an, fi, n, c, d, args, recv):
        last = d.split(".")[-1]
        if d.startswith("os.environ") or d == "os.getenv":
            return A("CONFIG")
        if d in ("posixpath.normpath", "os.path.normpath"):
            m = {"RAW_ABS": "NORM", "RAW": "RAWN"}
            return frozenset(m.get(a, a) for a in flat(args[0]) if a != "NONE") if args else self.OTHER
        if d in ("posixpath.join", "os.path.join"):
            if not args:
                return self.OTHER
            return self._join_paths([flat(a) - {"NONE"} for a in args], d.startswith("os."))
        if d in ("posixpath.split", "os.path.split"):
            v = (flat(args[0]) - {"NONE"}) if args else BOT
            heads, tails = set(), set()
            for a in v:
                if a == "NORM":
                    heads.add("NORM"); tails.add("SEG")
                elif a in ("SEG",):
                    heads.add("SEG"); tails.add("SEG")
                elif a == "RELNORM":
                    heads.add("RELNORM"); tails.add("SEG")
                elif a == "CONFIG":
                    heads.add("CONFIG"); tails.add("SEG")
                elif a in ("RAW_ABS",):
                    heads.add("RAW_ABS"); tails.add("SEGQ")
                elif a in REQUEST:
                    heads.add("RAW"); tails.add("SEGQ")
                else:
                    heads.add(a); tails.add("OTHER")
            return (frozenset(heads), frozenset(tails))
        if d in ("posixpath.basename", "os.path.basename"):
            v = self.call(an, fi, n, c, "posixpath.split", args, recv)
            return v[1]
        if d in ("posixpath.dirname", "os.path.dirname"):
            v = self.call(an, fi, n, c, "posixpath.split", args, recv)
            return v[0]
        if d in ("os.path.abspath", "os.path.realpath", "os.path.expanduser"):
            return flat(args[0]) if args else self.OTHER
        if d == "os.listdir":
            return A("SEG")
        if d in ("str", "bytes") and args:
            inner = c.args[0]
            if isinstance(inner, ast.Call) and (dotted(inner.func) or "").startswith("uuid."):
                return A("SEG")
            return flat(args[0])
        if d.startswith("uuid."):
            return A("SEG")
        if last == "guess_extension":
            return A("SEG")
        if last == "_map_to_file_path" and (d.endswith("XandikosBackend._map_to_file_path") or "." in d):
            return A("FSPATH")
        if d in ("urllib.parse.unquote", "urllib.parse.quote", "urllib.parse.urljoin", "urllib.parse.urlsplit",
                 "urllib.parse.urlparse", "wsgiref.util.request_uri"):
            vals = list(args)
            return self.unknown(vals) if any(flat(v) & REQUEST for v in vals) else (A("RAW") if d.endswith("request_uri") else self.unknown(vals))
        if d in ("xandikos.webdav.path_from_environ",):
            return None  # analysed (returns normpath of environ[...])
        if d in ("len", "int", "bool", "isinstance", "hasattr", "sum", "sorted", "print", "repr", "type"):
            return self.OTHER
        if d in ("list", "set", "tuple", "iter", "reversed", "frozenset") and len(args) == 1:
            return args[0]      # an iterable is represented by its elements: structure kept
        if d in ("list", "set", "tuple", "iter", "reversed", "filter", "dict"):
            out = BOT
            for v in args:
                out = join(out, flat(v))
            return out
        if last == "takewhile" or last == "chain" or last == "islice":
            out = BOT
            for v in args:
                out = join(out, flat(v))
            return frozenset(a for a in out if a != "OBJ") or self.OTHER
        return None

    def method(self, an, fi, n, c, attr, recv, args):
        r = (flat(recv) - {"NONE"}) if recv is not None else BOT
        if attr == "lstrip" and c.args and isinstance(c.args[0], ast.Constant) and c.args[0].value == "/":
            m = {"NORM": "RELNORM", "RAW_ABS": "RAW"}
            return frozenset(m.get(a, a) for a in r)
        if attr in ("rstrip", "strip") and c.args and isinstance(c.args[0], ast.Constant) and c.args[0].value == "/":
            if attr == "strip":
                m = {"NORM": "RELNORM", "RAW_ABS": "RAW"}
                return frozenset(m.get(a, a) for a in r)
            return r
        if attr in ("encode", "decode", "lower", "upper", "strip", "rstrip", "lstrip", "format", "title"):
            return r if not (attr in ("strip", "lstrip") and not c.args) else r
        if attr == "split":
            if r & REQUEST:
                return A("SEGQ")
            if r & {"NORM", "RELNORM"}:
                return A("SEG")
            return r
        if attr in ("get", "pop", "setdefault") and recv is not None:
            return r
        if attr in ("keys", "values", "items"):
            return r
        if attr in ("startswith", "endswith", "isdigit"):
            return self.OTHER
        if attr in ("iteritems", "iterobjects"):
            return (A("SEG"), self.OTHER, self.OTHER)      # the iterable, represented by its element
        return None

    def add(self, l, r, le=None, re_=None):
        l, r = flat(l) - {"NONE"}, flat(r) - {"NONE"}
        # "/" + x
        if isinstance(le, ast.Constant) and le.value == "/":
            m = {"SEG": "NORM", "RELNORM": "NORM", "SEGQ": "RAW_ABS", "RAW": "RAW_ABS", "RAWN": "RAW_ABS", "NORM": "NORM",
                 "RAW_ABS": "RAW_ABS", "CONFIG": "CONFIG"}
            return frozenset(m.get(a, "OTHER") for a in r)
        # x + "<suffix without slash / dots>"
        if isinstance(re_, ast.Constant) and isinstance(re_.value, str) and "/" not in re_.value and ".." not in re_.value:
            m = {"SEGQ": "SEG"} if re_.value else {}
            return frozenset(m.get(a, a) for a in l)
        if isinstance(re_, ast.Constant) and re_.value == "/":
            return l
        if r <= {"SEG"} and l <= {"SEG"}:
            return A("SEG")
        if r <= {"SEG", "NONE"} and l <= {"SEG", "SEGQ"}:
            return l
        if (l | r) & REQUEST:
            return A("RAW")
        if "CONFIG" in (l | r):
            return A("CONFIG")
        return self.unknown([l, r])

    def iter_elem(self, an, fi, n, iter_expr, v):
        if isinstance(iter_expr, ast.Call):
            d = dotted(iter_expr.func) or ""
            last = d.split(".")[-1]
            if d == "os.listdir":
                return A("SEG")
            if last in ("iteritems", "iterobjects"):
                return (A("SEG"), self.OTHER, self.OTHER)
            if last == "items":
                if isinstance(v, tuple) and len(v) == 2:
                    return v            # the engine modelled the mapping: (keys, values)
                fv = flat(v)
                return (fv, fv)
        return v

    def subscript(self, an, fi, n, e, v, key):
        fv = flat(v)
        if isinstance(e.slice, ast.Slice):
            # a slice of a request-derived string is request-derived and may lose its leading slash
            return frozenset({"RAW_ABS": "RAW"}.get(a, a) for a in fv)
        return fv

    def attr(self, an, fi, n, e, base):
        if e.attr == "path" and "RAW" in flat(base):
            return A("RAW")
        return None


_CACHE = {}


def analysis(ctx) -> Analysis:
    a = getattr(ctx, "_path_analysis", None)      # cached on the context itself (object ids are reused)
    if a is None:
        a = Analysis(ctx, PathDomain())
        ctx._path_analysis = a
        ctx.note("path provenance: %d functions, fixed point after %d rounds" % (len(a.funcs), a.rounds))
    return a


def _sites_of(ctx, qual: str):
    S = ctx.summaries
    out = []
    for fi in ctx.P.all_funcs():
        if ctx.absorbed(fi):
            continue
        for (n, c, targets, ext) in S.calls_of(fi):
            if isinstance(c, ast.Call) and any(t.qualname == qual for t in targets):
                out.append((fi, n, c))
    return out


P1_OK = {"NORM", "CONFIG"}


@rule("C13", "P1", floor=9, kind="S",
      desc="every value reaching XandikosBackend._map_to_file_path is a normalised absolute path (or operator "
           "configuration), and inside it the component joined onto the root is relative")
def p1(ctx):
    an = analysis(ctx)
    target = "xandikos.web.XandikosBackend._map_to_file_path"
    ctx.func(target)
    sites = _sites_of(ctx, target)
    obs = []
    for fi, n, c in sites:
        if not c.args:
            continue
        v = flat(an.ev(fi, n, c.args[0]))
        bad = v - P1_OK - {"NONE"}
        if not v:
            bad = {"(no value reaches this call)"}
        path = an.explain(fi, n, c.args[0], set(bad)) if bad else []
        obs.append(ctx.ob(not bad, fi.qualname, where(fi, n), "_map_to_file_path(%s)" % src(c.args[0]),
                          "argument provenance %s" % sorted(v),
                          "sink XandikosBackend._map_to_file_path(%s) reached with provenance %s (needs NORM|CONFIG): a request path "
                          "that was not normalised selects the file-system location" % (src(c.args[0]), sorted(bad)),
                          path=path))
    # inside: os.path.join(self.path, <relative>)
    f = ctx.func(target)
    cfg = ctx.cfg(f)
    joins = [(n, c) for n in cfg.stmt_nodes() for c in n.calls() if dotted(c.func) == "os.path.join"]
    if not joins:
        raise AnalysisError("_map_to_file_path no longer uses os.path.join")
    for n, c in joins:
        base = flat(an.ev(f, n, c.args[0]))
        # evaluate the component under the assumption that the parameter is NORM (what P1 guarantees)
        saved = an.param.get((f.qualname, f.params[1]))
        an.param[(f.qualname, f.params[1])] = A("NORM")
        an._cond_cache.clear()
        comp = flat(an.ev(f, n, c.args[1])) if len(c.args) > 1 else BOT
        if saved is not None:
            an.param[(f.qualname, f.params[1])] = saved
        ok = comp <= {"RELNORM", "SEG"} and base <= {"CONFIG"}
        obs.append(ctx.ob(ok, f.qualname, where(f, n), "root-relative join",
                          "os.path.join(%s, %s): base %s, component %s" % (src(c.args[0]), src(c.args[1]) if len(c.args) > 1 else "?", sorted(base), sorted(comp)),
                          "os.path.join(self.path, %s): for a normalised absolute relpath the component is %s - an absolute component makes "
                          "os.path.join discard the root" % (src(c.args[1]) if len(c.args) > 1 else "?", sorted(comp))))
    return obs


P2_OK = {"SEG", "SEGQ", "NONE"}


@rule("C13", "P2", floor=8, kind="S",
      desc="a member name joined onto a store directory is a single path segment; the relpath field of every "
           "resource class is only ever initialised with a normalised path")
def p2(ctx):
    an = analysis(ctx)
    obs = []
    mods = ("xandikos.store.git", "xandikos.store.vdir", "xandikos.web")
    nsites = 0
    for fi in ctx.P.all_funcs():
        if ctx.absorbed(fi):
            continue
        if fi.module.name not in mods:
            continue
        cfg = ctx.cfg(fi)
        for n in cfg.stmt_nodes():
            for c in n.calls():
                if dotted(c.func) != "os.path.join" or len(c.args) < 2:
                    continue
                base = dotted(c.args[0]) or ""
                if not (base in ("self.path", "self.repo.path", "self.store.path", "self.store.repo.path")):
                    continue
                if fi.cls is not None and fi.cls.qualname == "xandikos.web.XandikosBackend":
                    continue
                nsites += 1
                for a in c.args[1:]:
                    v = flat(an.ev_at(fi, n, a))
                    bad = v - P2_OK
                    path = an.explain(fi, n, a, set(bad)) if bad else []
                    obs.append(ctx.ob(not bad, fi.qualname, where(fi, n), "os.path.join(%s, %s)" % (base, src(a)),
                                      "member name provenance %s" % sorted(v),
                                      "os.path.join(%s, %s): the name has provenance %s - it may contain a '/' or be absolute, so the "
                                      "operation can address a file outside the collection directory" % (base, src(a), sorted(bad)),
                                      path=path))
    if nsites < 8:
        raise AnalysisError("only %d store-directory joins found (confirmed: 13)" % nsites)
    # relpath fields
    for cq in ("xandikos.web.StoreBasedCollection", "xandikos.web.CollectionSetResource"):
        v = flat(an.field.get((cq, "relpath"), BOT))
        bad = v - {"NORM", "CONFIG"}
        init = ctx.own_method(cq, "__init__")
        path = []
        if bad:
            # which constructor call sites bring the bad atoms
            for g, m, c in _sites_all_ctor(ctx, an, cq):
                if len(c.args) > 1:
                    av = flat(an.ev(g, m, c.args[1]))
                    if av & bad:
                        path.append("%s:%d %s: `%s` %s" % (g.module.rel, m.lineno, g.short, src(c)[:70], sorted(av & bad)))
        obs.append(ctx.ob(not bad and bool(v), init.qualname, init.where, "relpath field is normalised",
                          "self.relpath provenance %s" % sorted(v),
                          "%s.relpath can hold %s: resources are constructed with a path that was not normalised" % (cq.split(".")[-1], sorted(bad)),
                          path=path[:8]))
    return obs


def _sites_all_ctor(ctx, an, cq):
    ci = ctx.P.cls(cq)
    family = {c.qualname for c in [ci] + ci.all_subclasses()}
    out = []
    S = ctx.summaries
    for g in an.funcs:
        for (m, c, targets, ext) in S.calls_of(g):
            if isinstance(c, ast.Call) and any(t.name == "__init__" and t.cls is not None and t.cls.qualname in family | {x.qualname for x in ci.mro} for t in targets):
                out.append((g, m, c))
    return out


FS_CALLS = {"os.path.isdir", "os.listdir", "os.makedirs", "os.mkdir", "shutil.rmtree", "open", "os.path.exists",
            "os.unlink", "os.remove", "os.rename", "os.replace", "os.stat", "os.lstat", "os.path.isfile", "os.rmdir",
            "os.walk", "os.scandir", "shutil.copy", "shutil.move", "os.chmod"}
P3_OK = {"FSPATH", "STOREPATH", "CONFIG", "NORM_CONST"}


@rule("C13", "P3", floor=8, kind="S",
      desc="who-may-touch-the-file-system: every os.*/shutil.*/open call in the web layer takes its path from "
           "_map_to_file_path, from a store attribute or from operator configuration")
def p3(ctx):
    an = analysis(ctx)
    obs = []
    mods = ("xandikos.web", "xandikos.webdav", "xandikos.caldav", "xandikos.carddav", "xandikos.sync", "xandikos.davcommon",
            "xandikos.scheduling", "xandikos.infit", "xandikos.access", "xandikos.quota", "xandikos.wsgi", "xandikos.wsgi_helpers",
            "xandikos.timezones", "xandikos.xmpp", "xandikos.apache", "xandikos.server_info", "xandikos.__main__")
    n_sites = 0
    for fi in ctx.P.all_funcs():
        if ctx.absorbed(fi):
            continue
        if fi.module.name not in mods:
            continue
        cfg = ctx.cfg(fi)
        for n in cfg.stmt_nodes():
            for c in n.calls():
                d = dotted(c.func) or ""
                if d not in FS_CALLS or not c.args:
                    continue
                n_sites += 1
                v = flat(an.ev(fi, n, c.args[0]))
                # a constant path (templates dir) is fine
                cv = ctx.P.try_fold(fi.module, c.args[0])
                if isinstance(cv, str):
                    v = frozenset({"NORM_CONST"})
                bad = v - P3_OK
                path = an.explain(fi, n, c.args[0], set(bad)) if bad else []
                obs.append(ctx.ob(not bad and bool(v), fi.qualname, where(fi, n), "%s(%s)" % (d, src(c.args[0])),
                                  "path provenance %s" % sorted(v),
                                  "%s(%s): path provenance %s - not derived from _map_to_file_path / a store path / configuration"
                                  % (d, src(c.args[0]), sorted(bad) or "(nothing)"), path=path))
    if n_sites < 8:
        raise AnalysisError("only %d file-system calls found in the web layer (confirmed: 15)" % n_sites)
    return obs


_SAME_DIR = {"str", "fspath", "fsdecode", "fsencode", "abspath", "normpath", "realpath", "expanduser"}
_OTHER_DIR = {"dirname": "the parent directory", "split": "a component of the path", "basename": "the last component only",
              "commonpath": "a common ancestor", "getcwd": "the working directory"}


def _same_directory(ctx, fi, call, arg):
    """"" when *arg* is a parameter of the function, unchanged (or through an identity-like wrapper); a description when it is
    visibly another directory; None when the argument is not derived from a parameter at all (repositories created for other
    purposes); AnalysisError for a transformation that is not modelled."""
    from ..dataflow import DefUse, origins
    cfg = ctx.cfg(fi)
    du = DefUse(cfg)
    node = next((n for n in cfg.stmt_nodes() if any(c is call for c in n.calls())), None)
    if node is None:
        return None
    verdicts = []

    def walk(n, e, depth=0):
        for o in origins(du, n, e):
            if o.kind == "param":
                verdicts.append("")
                continue
            leaf = o.leaf
            if o.kind == "expr" and isinstance(leaf, ast.Call):
                last = (dotted(leaf.func) or "").split(".")[-1]
                if last in _SAME_DIR and leaf.args and depth < 6:
                    walk(o.node or n, leaf.args[0], depth + 1)
                    continue
                if last in _OTHER_DIR:
                    verdicts.append(_OTHER_DIR[last])
                    continue
                if last == "join" and leaf.args and all(isinstance(a, ast.Constant) and a.value in ("", ".") for a in leaf.args[1:]) and depth < 6:
                    walk(o.node or n, leaf.args[0], depth + 1)
                    continue
                if last == "join" and any(isinstance(a, ast.Constant) and isinstance(a.value, str) and ".." in a.value.split("/") for a in leaf.args[1:]):
                    verdicts.append("a directory above it")
                    continue
            if o.kind == "expr" and isinstance(leaf, ast.Attribute) and leaf.attr == "parent":
                verdicts.append("the parent directory")
                continue
            verdicts.append(None)

    walk(node, arg)
    if any(v for v in verdicts):
        return next(v for v in verdicts if v)
    if verdicts and all(v == "" for v in verdicts):
        return ""
    if any(v == "" for v in verdicts):
        raise AnalysisError("%s: `%s` mixes the mapped path with a value that is not modelled" % (fi.qualname, src(arg)[:60]))
    return None


@rule("C13", "P4", floor=2, kind="S",
      desc="a store is opened at exactly the directory that was mapped from the request: no upward search for an "
           "enclosing repository (Repo.discover) - a data directory inside some work tree would serve that tree")
def p4(ctx):
    obs = []
    n = 0
    for mname in ("xandikos.store.git", "xandikos.store.vdir", "xandikos.store", "xandikos.web"):
        for fi in ctx.P.funcs_in_module(mname):
            if ctx.absorbed(fi):
                continue
            for c in walk_local(fi.node):
                if not isinstance(c, ast.Call):
                    continue
                d = dotted(c.func) or ""
                last = d.split(".")[-1]
                if last in ("Repo", "init", "init_bare") and ("repo" in d.lower() or last == "Repo"):
                    n += 1
                    obs.append(ctx.ok(fi.qualname, "%s:%d" % (fi.module.rel, c.lineno), "repository opened by path: %s" % last, "`%s`" % src(c)[:60]))
                    if mname == "xandikos.store.git" and c.args:
                        verdict = _same_directory(ctx, fi, c, c.args[0])
                        if verdict is not None:
                            obs.append(ctx.ob(verdict == "", fi.qualname, "%s:%d" % (fi.module.rel, c.lineno), "repository path is the path the caller mapped",
                                              "`%s`" % src(c.args[0])[:60],
                                              "`%s` opens %s instead of the directory the request was mapped to: the collection at one path is served "
                                              "from (and written to) the repository of another" % (src(c)[:70], verdict)))
                if last in ("discover", "find_root", "controldir_from_path") or (last == "Repo" and any(k.arg == "search_parent_directories" for k in c.keywords)):
                    obs.append(ctx.bad(fi.qualname, "%s:%d" % (fi.module.rel, c.lineno), "no upward repository search",
                                       "`%s` searches the parent directories for a repository: a request path that names a plain directory below "
                                       "the data root is served from whatever repository encloses the data root" % src(c)[:70]))
    if n < 2:
        raise AnalysisError("only %d repository open/init sites found" % n)
    return obs


_OWN_DIR = {"self.path", "self.repo.path", "self.repo", "path", "cls.path"}


@rule("C13", "P5", floor=8, kind="S",
      desc="the stores create and open files only inside their own directory: the location of every open() in the store "
           "layer is derived from self.path / self.repo.path (or the directory create() was given), and a temporary file is "
           "made with dir= such a location - tempfile's default directory is outside the root, and user data staged there "
           "stays behind whenever the rename fails or the process dies")
def p5(ctx):
    from ..dataflow import DefUse, depends_on
    from .storelib import STORE_MODULES
    obs = []
    inl = ctx.cfgs.inliner
    def helper_in_own_dir(fi_, call, depth=0):
        """`self._item_path(name)`: a method of the store whose every result is located under the store directory."""
        if depth > 2 or not (isinstance(call, ast.Call) and isinstance(call.func, ast.Attribute) and isinstance(call.func.value, ast.Name)
                             and call.func.value.id in ("self", "cls") and fi_.cls is not None):
            return False
        g = ctx.P.lookup_method(fi_.cls, call.func.attr)
        if g is None:
            return False
        try:
            gc = ctx.cfg(g)
        except AnalysisError:
            return False
        gdu = DefUse(gc)
        rets = [r for r in gc.nodes if r.kind == "return"]
        if not rets:
            return False
        for r in rets:
            v = r.ast.value if isinstance(r.ast, ast.Return) else r.ast
            if v is None:
                return False
            dv = depends_on(gdu, r, v)
            if not (dv & _OWN_DIR) and not any(helper_in_own_dir(g, x, depth + 1) for x in ast.walk(v)):
                return False
        return True

    for m in sorted(mn for mn in ctx.P.modules if mn.startswith("xandikos.store.") and not mn.startswith("xandikos.store.tests")):
        for fi in ctx.P.funcs_in_module(m):
            if inl.is_new(fi):
                continue
            try:
                cfg = ctx.cfg(fi)
            except AnalysisError:
                continue
            du = None
            for n in cfg.stmt_nodes():
                for c in n.calls():
                    d = dotted(c.func) or ""
                    loc = None
                    what = None
                    if d in ("open", "io.open", "os.open") and c.args:
                        loc, what = c.args[0], "open"
                    elif d.startswith("tempfile.") and d.split(".")[-1] in ("NamedTemporaryFile", "TemporaryFile", "SpooledTemporaryFile", "mkstemp",
                                                                              "mkdtemp", "TemporaryDirectory", "mktemp"):
                        what = d
                        kw = [k.value for k in c.keywords if k.arg == "dir"]
                        loc = kw[0] if kw else None
                    elif d in ("tempfile.gettempdir", "tempfile.gettempdirb"):
                        what = d
                    else:
                        continue
                    du = du or DefUse(cfg)
                    deps = depends_on(du, n, loc) if loc is not None else set()
                    ok = bool(deps & _OWN_DIR) and not (isinstance(loc, ast.Constant) and loc.value is None)
                    if not ok and loc is not None:
                        ok = any(helper_in_own_dir(fi, x) for x in ast.walk(loc))
                    obs.append(ctx.ob(ok, fi.qualname, "%s:%d" % (fi.module.rel, n.lineno), "%s inside the store directory" % what.split(".")[-1],
                                      "location derives from %s" % ", ".join(sorted(deps & _OWN_DIR)),
                                      "%s: `%s` %s - the file is created outside the directory of the collection (for tempfile: the system "
                                      "temporary directory, outside the served root), where user data is left behind when the write does not complete"
                                      % (fi.short, src(c)[:70], "has no dir= argument" if (what != "open" and loc is None) else "is not located under self.path / self.repo.path")))
    return obs
