"""Helpers shared by several rule modules."""

from __future__ import annotations

import ast
from typing import Callable, Iterable, List, Optional, Sequence, Set, Tuple

from ..cfg import CFG, HandlerInfo, Node, TryCtx
from ..dataflow import DefUse
from ..program import AnalysisError, FuncInfo, dotted, src


def where(fi: FuncInfo, n) -> str:
    ln = n.lineno if hasattr(n, "lineno") else fi.node.lineno
    return "%s:%d" % (fi.module.rel, ln)


def call_name(c: ast.AST) -> str:
    if isinstance(c, ast.Call):
        return (dotted(c.func) or src(c.func)).split(".")[-1]
    return ""


def nodes_calling(cfg: CFG, pred: Callable[[ast.Call], bool]) -> List[Tuple[Node, ast.Call]]:
    out = []
    for n in cfg.stmt_nodes():
        for c in n.calls():
            if pred(c):
                out.append((n, c))
    return out


def attr_call(name: str) -> Callable[[ast.Call], bool]:
    return lambda c: isinstance(c.func, ast.Attribute) and c.func.attr == name


def _opaque_cm(cfg: CFG, wstmt) -> Optional[str]:
    """Name of a program-defined context manager (a class with __exit__, or a @contextmanager function that was
    not inlined) entered by with-statement *wstmt*: its exit code may translate or swallow exceptions."""
    P = getattr(getattr(cfg, "inliner", None), "P", None)
    if P is None:
        return None
    for it in getattr(wstmt, "items", []):
        c = it.context_expr
        if not isinstance(c, ast.Call):
            continue
        d = dotted(c.func)
        if not d:
            continue
        try:
            kind, obj = P.resolve_dotted(cfg.fi.module, d, getattr(cfg.fi, "inherited_from", None) or cfg.fi)
        except Exception:
            continue
        if kind == "class" and P.lookup_method(obj, "__exit__") is not None and obj.qualname != "xandikos.store.git.locked_index":
            return obj.qualname
        if kind == "func" and {"contextmanager", "contextlib.contextmanager"} & set(obj.decorators) and obj.qualname != "xandikos.store.git.locked_index":
            return obj.qualname
    return None


def handler_catching(cfg: CFG, n: Node, exc: str) -> Optional[HandlerInfo]:
    """The handler that certainly catches *exc* raised at *n* (innermost first).

    If no handler is found but the node sits inside a program-defined context manager whose exit code the
    analyser could not put in line, the answer is unknown: AnalysisError (exit 2), not 'uncaught'."""
    from ..cfg import WithCtx
    opaque = None
    for c in reversed(n.ctx):
        if isinstance(c, TryCtx):
            for h in c.handlers:
                if cfg.hier.match(exc, h.types) == "yes":
                    if opaque:
                        raise AnalysisError("%s: %s raised inside `with %s(...)` - what its __exit__ does with the exception is not modelled"
                                            % (cfg.fi.qualname, exc, opaque))
                    return h
        elif isinstance(c, WithCtx) and opaque is None:
            opaque = _opaque_cm(cfg, c.stmt)
    if opaque:
        raise AnalysisError("%s: %s raised inside `with %s(...)` - what its __exit__ does with the exception is not modelled"
                            % (cfg.fi.qualname, exc, opaque))
    return None


def handler_body_nodes(cfg: CFG, h: HandlerInfo) -> List[Node]:
    """Nodes reachable from the handler entry before leaving the try statement (approximation:
    all nodes whose innermost handler is h, plus nested)."""
    out = []
    for n in cfg.nodes:
        hh = n.handler
        if hh is h and n is not h.entry:
            out.append(n)
    return out


def translation(ctx, fi: FuncInfo, n: Node, exc: str) -> Tuple[Optional[HandlerInfo], List[Node], List[Node]]:
    """(handler, raise nodes, return nodes) for exception *exc* raised at node *n*.

    A handler shared by several exception classes that dispatches with ``isinstance(e, T)`` (directly or in a
    helper it hands the exception to) is followed for *exc* only: tests on the class of the caught object are
    decided from the class hierarchy."""
    cfg = ctx.cfg(fi)
    h = handler_catching(cfg, n, exc)
    if h is None:
        return None, [], []
    body = handler_body_nodes(cfg, h)
    if len(h.types or []) > 1 or any(isinstance(b.ast, ast.Call) and dotted(b.ast.func) == "isinstance" for b in body if b.kind == "test"):
        from ..dataflow import DefUse as _DU, origins as _orig
        du = _DU(cfg)
        hier = cfg.hier

        def decide(t):
            if not (isinstance(t, ast.Call) and dotted(t.func) == "isinstance" and len(t.args) == 2):
                return None
            os_ = _orig(du, h.entry, t.args[0]) if False else None
            # the tested object must be the caught exception
            tested = t.args[0]
            node_of_test = [b for b in cfg.nodes if b.kind == "test" and b.ast is t]
            if not node_of_test:
                return None
            os_ = _orig(du, node_of_test[0], tested)
            if not (os_ and all(o.node is h.entry for o in os_)):
                return None
            types = t.args[1].elts if isinstance(t.args[1], ast.Tuple) else [t.args[1]]
            names = [(dotted(x) or "").split(".")[-1] for x in types]
            if any(hier.is_sub(exc, nm) for nm in names if nm):
                return True
            if all(nm and not hier.is_sub(nm, exc) for nm in names):
                return False
            return None

        try:
            reached = const_walk(cfg, [m for m, l in h.entry.succ if l != "exc"], {}, decide=decide)
            body = [b for b in body if b.id in reached]
        except AnalysisError:
            pass
    raises = [b for b in body if b.kind == "raise"]
    # `raise helper(exc)` where the helper (unknown to the reference tree, hence spliced in) builds the exception:
    # what is raised for *exc* is what the name holds on the paths that are feasible for *exc*
    live = {b.id for b in body}
    for r in raises:
        e = r.ast.exc
        if isinstance(e, ast.Name):
            from ..dataflow import DefUse as _DU2, origins as _orig2
            du2 = _DU2(cfg)
            tg = []
            for o in _orig2(du2, r, e):
                if o.node is not None and o.node.id not in live:
                    continue
                if o.kind == "expr" and isinstance(o.leaf, ast.Call):
                    tg.append(((dotted(o.leaf.func) or "").split(".")[-1], list(o.leaf.args)))
                else:
                    tg.append((None, []))
            r.extra.setdefault("targets", {})[exc] = tg
    return h, raises, [b for b in body if b.kind == "return"]


def raise_targets(n: Node, exc: Optional[str] = None) -> List[Tuple[Optional[str], List[ast.AST]]]:
    """[(exception class name, constructor arguments)] a raise node can raise (for the translated exception *exc*
    when the node was returned by translation())."""
    t = n.extra.get("targets", {}).get(exc) if exc is not None else None
    if t is not None:
        return t
    return [raise_ctor_args(n)]


def raise_ctor_args(n: Node) -> Tuple[Optional[str], List[ast.AST]]:
    e = n.ast.exc
    if isinstance(e, ast.Call):
        return (dotted(e.func) or "").split(".")[-1], list(e.args)
    if e is not None:
        return (dotted(e) or "").split(".")[-1], []
    return None, []


# ---------------------------------------------------------------- pure string evaluation

class NotPure(Exception):
    pass


def eval_str_expr(e: ast.AST, env: dict):
    """Evaluate an expression built from a whitelist of pure ``str`` operations."""
    if isinstance(e, ast.Constant):
        return e.value
    if isinstance(e, ast.Name):
        if e.id in env:
            return env[e.id]
        raise NotPure(e.id)
    if isinstance(e, ast.Subscript):
        v = eval_str_expr(e.value, env)
        s = e.slice
        if isinstance(s, ast.Slice):
            lo = eval_str_expr(s.lower, env) if s.lower is not None else None
            hi = eval_str_expr(s.upper, env) if s.upper is not None else None
            st = eval_str_expr(s.step, env) if s.step is not None else None
            return v[lo:hi:st]
        return v[eval_str_expr(s, env)]
    if isinstance(e, ast.UnaryOp) and isinstance(e.op, ast.USub):
        return -eval_str_expr(e.operand, env)
    if isinstance(e, ast.BinOp) and isinstance(e.op, ast.Add):
        return eval_str_expr(e.left, env) + eval_str_expr(e.right, env)
    if isinstance(e, ast.Call) and isinstance(e.func, ast.Attribute) and not e.keywords:
        recv = eval_str_expr(e.func.value, env)
        args = [eval_str_expr(a, env) for a in e.args]
        m = e.func.attr
        if isinstance(recv, str) and m in ("replace", "lower", "upper", "title", "capitalize", "strip", "lstrip",
                                           "rstrip", "removeprefix", "removesuffix", "casefold", "swapcase"):
            return getattr(recv, m)(*args)
        raise NotPure(m)
    if isinstance(e, ast.Call) and isinstance(e.func, ast.Name) and e.func.id == "len" and len(e.args) == 1:
        return len(eval_str_expr(e.args[0], env))
    if isinstance(e, ast.JoinedStr):
        out = ""
        for v in e.values:
            if isinstance(v, ast.Constant):
                out += str(v.value)
            elif isinstance(v, ast.FormattedValue) and v.format_spec is None and v.conversion == -1:
                out += str(eval_str_expr(v.value, env))
            else:
                raise NotPure("fstring")
        return out
    raise NotPure(type(e).__name__)


# ---------------------------------------------------------------- guard checks

def test_polarity_absent(t: ast.AST, var: str) -> Optional[str]:
    """For a test atom about *var* being present, the edge label taken when it is ABSENT."""
    if isinstance(t, ast.Name) and t.id == var:
        return "f"
    if isinstance(t, ast.Compare) and len(t.ops) == 1 and isinstance(t.left, ast.Name) and t.left.id == var \
            and isinstance(t.comparators[0], ast.Constant) and t.comparators[0].value is None:
        if isinstance(t.ops[0], ast.IsNot) or isinstance(t.ops[0], ast.NotEq):
            return "f"
        if isinstance(t.ops[0], ast.Is) or isinstance(t.ops[0], ast.Eq):
            return "t"
    return None


def guarded(cfg: CFG, effects: Sequence[Node], match_tests: Sequence[Node], fail_label: str,
            bypass_edges: Sequence[Tuple[Node, str]]) -> Tuple[bool, bool]:
    """(covered, blocked):
    covered  - every path entry->effect passes a match test or a legitimate bypass edge;
    blocked  - no effect is reachable from the failing edge of a match test."""
    blocked_edges = []
    for t, lab in bypass_edges:
        for m, l in t.succ:
            if l == lab:
                blocked_edges.append((t, m, l))
    r = cfg.reachable([cfg.entry], block_nodes=list(match_tests), block_edges=blocked_edges)
    covered = not any(e.id in r for e in effects)
    starts = []
    for t in match_tests:
        for m, l in t.succ:
            if l == fail_label:
                starts.append(m)
    r2 = cfg.reachable(starts)
    blocked = not any(e.id in r2 for e in effects)
    return covered, blocked


def first_returns_from(cfg: CFG, starts: Iterable[Node]) -> List[Node]:
    """Return nodes reachable from *starts* following normal edges only, stopping at returns."""
    seen, out, todo = set(), [], list(starts)
    while todo:
        n = todo.pop()
        if n.id in seen:
            continue
        seen.add(n.id)
        if n.kind == "return":
            out.append(n)
            continue
        for m, l in n.succ:
            if l != "exc":
                todo.append(m)
    return out


def single_def_value(du: DefUse, n: Node, name: str) -> Optional[ast.AST]:
    ds = du.reaching(n, name)
    if len(ds) == 1 and ds[0].kind == "assign" and not ds[0].index:
        return ds[0].value
    return None


def unwrap_await(e: Optional[ast.AST]) -> Optional[ast.AST]:
    while isinstance(e, ast.Await):
        e = e.value
    return e


# ---------------------------------------------------------------- loops

def loop_body_nodes(cfg: CFG, head: Node) -> Set[int]:
    """Ids of the nodes of one iteration of the loop headed by *head* (reachable from its 'loop' edge
    without passing the head again)."""
    starts = [m for m, l in head.succ if l in ("loop", "t")]
    return cfg.reachable(starts, block_nodes=[head], follow_exc=True)


def loop_can_iterate_twice(cfg: CFG, head: Node) -> bool:
    """Is there a path from the loop body back to the loop head?"""
    starts = [m for m, l in head.succ if l in ("loop", "t")]
    seen, todo = set(), list(starts)
    while todo:
        n = todo.pop()
        if n.id in seen:
            continue
        seen.add(n.id)
        for m, l in n.succ:
            if m is head:
                return True
            todo.append(m)
    return False


def carried_uses(cfg: CFG, head: Node, var: str) -> List[Node]:
    """Uses of *var* inside the loop body that can be reached from the loop head without passing a
    definition of *var* inside the body - i.e. that can see a value from a previous iteration or
    from before the loop."""
    body = loop_body_nodes(cfg, head)
    defs = []
    for n in cfg.nodes:
        if n.id not in body:
            continue
        a = n.ast
        names = set()
        if n.kind == "stmt" and isinstance(a, (ast.Assign, ast.AnnAssign, ast.AugAssign)):
            tgts = a.targets if isinstance(a, ast.Assign) else [a.target]
            for t in tgts:
                for x in ast.walk(t):
                    if isinstance(x, ast.Name) and isinstance(x.ctx, ast.Store):
                        names.add(x.id)
        if n.kind == "for":
            for x in ast.walk(a.target):
                if isinstance(x, ast.Name):
                    names.add(x.id)
        if var in names:
            defs.append(n)
    starts = [m for m, l in head.succ if l in ("loop", "t")]
    # a definition takes effect on its normal completion only
    blocked = [(d, m, l) for d in defs for m, l in d.succ if l != "exc"]
    r = cfg.reachable(starts, block_nodes=[head], block_edges=blocked)
    out = []
    for n in cfg.nodes:
        if n.id in r and n.id in body:
            used = False
            for e in n.exprs():
                if n in defs and n.kind == "stmt" and isinstance(n.ast, ast.Assign):
                    e = n.ast.value
                for x in ast.walk(e):
                    if isinstance(x, ast.Name) and x.id == var and isinstance(x.ctx, ast.Load):
                        used = True
            if used:
                out.append(n)
    return out


def guarded_not_none(cfg: CFG, n: Node, e: ast.AST) -> bool:
    """Reaching *n* implies ``e is not None`` (``e`` a plain name), by a test on the way."""
    if not isinstance(e, ast.Name):
        return False
    for t, pol in cfg.required_conditions(n):
        if isinstance(t, ast.Compare) and len(t.ops) == 1 and isinstance(t.left, ast.Name) and t.left.id == e.id \
                and isinstance(t.comparators[0], ast.Constant) and t.comparators[0].value is None:
            if (isinstance(t.ops[0], ast.IsNot) and pol) or (isinstance(t.ops[0], ast.Is) and not pol):
                return True
        if isinstance(t, ast.Name) and t.id == e.id and pol:
            return True
    return False


def drop_none(cfg: CFG, n: Node, e: ast.AST, origs):
    """Origins of *e* at *n* without the literal None ones when a guard on the way excludes None."""
    if guarded_not_none(cfg, n, e):
        return [o for o in origs if not (o.kind == "expr" and isinstance(o.leaf, ast.Constant) and o.leaf.value is None and not o.path)]
    return origs


def param_compare_tests(cfg: CFG, du: DefUse, param: str) -> List[Node]:
    """Equality tests in which exactly one side is derived from parameter *param* (directly or through
    local assignments such as ``x = param.encode()``) and the other side is not the constant None."""
    from ..dataflow import depends_on
    out = []
    for n in cfg.nodes:
        t = n.ast
        if n.kind != "test" or not (isinstance(t, ast.Compare) and len(t.ops) == 1 and isinstance(t.ops[0], (ast.Eq, ast.NotEq))):
            continue
        sides = [t.left, t.comparators[0]]
        if any(isinstance(x, ast.Constant) and x.value is None for x in sides):
            continue
        dep = [param in depends_on(du, n, x) for x in sides]
        if dep[0] != dep[1]:
            out.append(n)
    return out


def loops_over(cfg: CFG, suffix, du: Optional[DefUse] = None, exact: bool = False, no_args: bool = False) -> List[Node]:
    """``for`` nodes iterating over a call whose dotted callee ends with *suffix* (a str or tuple of str),
    directly or through a local name (``it = f(); for x in it``)."""
    from ..dataflow import iter_exprs
    sufs = (suffix,) if isinstance(suffix, str) else tuple(suffix)
    du = du or DefUse(cfg)
    out = []
    for n in cfg.nodes:
        if n.kind != "for":
            continue
        for it in iter_exprs(du, n):
            if isinstance(it, ast.Await):
                it = it.value
            if not isinstance(it, ast.Call):
                continue
            d = dotted(it.func) or ""
            if (d in sufs if exact else d.endswith(sufs)) and not (no_args and (it.args or it.keywords)):
                out.append(n)
                break
    return out


# ---------------------------------------------------------------- path-sensitive constant propagation

_UNKNOWN = object()


def _cval(e: ast.AST, env: dict, fold=None):
    if isinstance(e, ast.Constant):
        return e.value
    if isinstance(e, ast.Attribute):
        d = dotted(e)
        if d is not None and d in env:
            return env[d]
    if isinstance(e, ast.Subscript) and fold is not None:
        # TABLE[key] with a constant table and a known key
        base = fold(e.value)
        key = _cval(e.slice, env, fold)
        if isinstance(base, dict) and key is not _UNKNOWN and not isinstance(key, _Sym):
            try:
                return base[key] if key in base else _UNKNOWN
            except TypeError:
                return _UNKNOWN
    if isinstance(e, ast.Name):
        if e.id in env:
            return env[e.id]
        if fold is not None:
            v = fold(e)
            if v is not None:
                return v
        return _UNKNOWN
    if fold is not None:
        v = fold(e)
        if v is not None:
            return v
    return _UNKNOWN


class _Sym:
    """A boolean expression bound to a local name (`flag = a == b`), evaluated lazily at the test."""

    def __init__(self, expr):
        self.expr = expr

    def __repr__(self):
        return "Sym(%s)" % src(self.expr)


def eval_test_const(t: ast.AST, env: dict, fold=None, decide=None):
    """True / False / None (undecided) for test expression *t* under the constant environment *env*.
    *decide(atom)* may settle atoms the environment cannot (an oracle for 'assume this comparison holds')."""
    if isinstance(t, ast.BoolOp):
        vals = [eval_test_const(v, env, fold, decide) for v in t.values]
        if isinstance(t.op, ast.And):
            if any(v is False for v in vals):
                return False
            return True if all(v is True for v in vals) else None
        if any(v is True for v in vals):
            return True
        return False if all(v is False for v in vals) else None
    if isinstance(t, ast.UnaryOp) and isinstance(t.op, ast.Not):
        v = eval_test_const(t.operand, env, fold, decide)
        return None if v is None else (not v)
    if decide is not None:
        d = decide(t)
        if d is not None:
            return d
    if isinstance(t, ast.Name):
        v = _cval(t, env, fold)
        if isinstance(v, _Sym):
            return eval_test_const(v.expr, env, fold, decide)
        return None if v is _UNKNOWN else bool(v)
    if isinstance(t, ast.Compare) and len(t.ops) == 1:
        l, r = _cval(t.left, env, fold), _cval(t.comparators[0], env, fold)
        if l is _UNKNOWN or r is _UNKNOWN or isinstance(l, _Sym) or isinstance(r, _Sym):
            return None
        op = t.ops[0]
        try:
            if isinstance(op, ast.Eq):
                return l == r
            if isinstance(op, ast.NotEq):
                return l != r
            if isinstance(op, ast.Is):
                return l is r if (l is None or r is None) else l == r
            if isinstance(op, ast.IsNot):
                return not (l is r if (l is None or r is None) else l == r)
            if isinstance(op, ast.In):
                return l in r
            if isinstance(op, ast.NotIn):
                return l not in r
        except TypeError:
            return None
    return None


def const_walk(cfg: CFG, starts: Iterable[Node], env0: dict, stop_nodes: Iterable[Node] = (), fold=None, limit: int = 4000,
               block_edges: Iterable[Tuple[Node, Node, str]] = (), follow_exc: bool = False, decide=None):
    """Explore the CFG from *starts* carrying a constant environment (names -> constants): assignments of
    constants / known names update it, any other assignment forgets the name, decidable tests prune the walk.
    Returns {node id: [environments with which the node is reached]}.  Exceptional edges are not followed."""
    stop = {n.id for n in stop_nodes}
    blocked = {(a.id, b.id, l) for a, b, l in block_edges}
    seen = set()
    out = {}
    todo = [(n, dict(env0)) for n in starts]
    steps = 0
    from ..dataflow import _targets
    while todo:
        n, env = todo.pop()
        key = (n.id, tuple(sorted((k, repr(v)) for k, v in env.items())))
        if key in seen:
            continue
        seen.add(key)
        steps += 1
        if steps > limit:
            raise AnalysisError("constant walk in %s exceeds %d states" % (cfg.fi.qualname, limit))
        out.setdefault(n.id, []).append(env)
        if n.id in stop:
            continue
        env2 = env
        a = n.ast
        if n.kind == "stmt" and isinstance(a, (ast.Assign, ast.AnnAssign, ast.AugAssign)):
            env2 = dict(env)
            tgts = a.targets if isinstance(a, ast.Assign) else [a.target]
            val = getattr(a, "value", None)
            for t in tgts:
                if isinstance(t, ast.Name) and isinstance(a, (ast.Assign, ast.AnnAssign)) and val is not None:
                    v = _cval(val, env, fold)
                    if v is _UNKNOWN and isinstance(val, (ast.Compare, ast.BoolOp)) or (
                            v is _UNKNOWN and isinstance(val, ast.UnaryOp) and isinstance(val.op, ast.Not)):
                        # a boolean temporary: remembered symbolically while its operands are not reassigned
                        if t.id not in {x.id for x in ast.walk(val) if isinstance(x, ast.Name)}:
                            v = _Sym(val)
                    if v is _UNKNOWN:
                        env2.pop(t.id, None)
                    else:
                        env2[t.id] = v
                    # a symbolic value goes stale when one of its operands is reassigned
                    for k_ in [k_ for k_, sv in env2.items() if isinstance(sv, _Sym) and k_ != t.id
                               and t.id in {x.id for x in ast.walk(sv.expr) if isinstance(x, ast.Name)}]:
                        env2.pop(k_, None)
                else:
                    for nm, _i in _targets(t):
                        env2.pop(nm, None)
        elif n.kind in ("for", "with_enter", "handler"):
            env2 = dict(env)
            tg = []
            if n.kind == "for":
                tg = _targets(a.target)
            elif n.kind == "with_enter":
                tg = [x for it in a.items if it.optional_vars is not None for x in _targets(it.optional_vars)]
            elif a.name:
                tg = [(a.name, ())]
            for nm, _i in tg:
                env2.pop(nm, None)
        if n.kind == "test":
            d = eval_test_const(a, env, fold, decide)
            for m, l in n.succ:
                if (l == "exc" and not follow_exc) or (n.id, m.id, l) in blocked:
                    continue
                if l == "exc":
                    todo.append((m, env))
                elif d is None or (d and l == "t") or (not d and l == "f") or l not in ("t", "f"):
                    todo.append((m, env2))
            continue
        for m, l in n.succ:
            if (n.id, m.id, l) in blocked or (l == "exc" and not follow_exc):
                continue
            todo.append((m, env if l == "exc" else env2))
    return out


def requires_edge(cfg: CFG, target: Node, test: Node, label: str, fold=None) -> bool:
    """Reaching *target* from the entry requires taking the *label* edge of *test*, up to constant
    propagation of locals (a `x = None` ... `if x is not None` pair prunes the infeasible path)."""
    edges = cfg.test_edges(test, label)
    if target.id not in cfg.reachable([cfg.entry], block_edges=edges, follow_exc=True):
        return True
    try:
        r = const_walk(cfg, [cfg.entry], {}, fold=fold, block_edges=edges, follow_exc=True)
    except AnalysisError:
        return False
    return target.id not in r


def const_at(ctx, fi: FuncInfo, du: DefUse, node: Node, e: ast.AST):
    """Constant value of *e* at *node*: folded directly, or through local names / parameters bound by an inlined call
    (all reaching definitions must agree)."""
    from ..dataflow import origins
    v = ctx.P.try_fold(fi.module, e)
    if v is not None:
        return v
    if isinstance(e, ast.Name):
        vals = []
        for o in origins(du, node, e):
            if o.kind != "expr" or o.leaf is None or o.path:
                return None
            c = ctx.P.try_fold(fi.module, o.leaf)
            if c is None:
                return None
            if c not in vals:
                vals.append(c)
        if len(vals) == 1:
            return vals[0]
    return None


def metadata_savers(ctx):
    """[(function, call, callback FuncInfo | None)] for every ``FileBasedCollectionMetadata(parser, save=<callback>)``
    built in the store layer; the callback may be a nested function, a module-level function or a bound method."""
    from ..core import walk_local as _wl
    out = []
    for fi in ctx.P.all_funcs():
        if ctx.absorbed(fi):
            continue
        if not fi.module.name.startswith("xandikos.store") or (fi.cls is not None and fi.cls.qualname.endswith("FileBasedCollectionMetadata")):
            continue
        for n in _wl(fi.node):
            if isinstance(n, ast.Call) and (dotted(n.func) or "").split(".")[-1] == "FileBasedCollectionMetadata":
                cb = [k.value for k in n.keywords if k.arg == "save"] + list(n.args[1:2])
                target = None
                if cb:
                    e = cb[0]
                    if isinstance(e, ast.Name):
                        kind, obj = ctx.P.resolve_dotted(fi.module, e.id, fi)
                        if kind == "func":
                            target = obj
                    elif isinstance(e, ast.Attribute) and dotted(e.value) in ("self", "cls"):
                        owner = fi.cls
                        f_ = fi
                        while owner is None and f_.parent is not None:
                            f_ = f_.parent
                            owner = f_.cls
                        if owner is not None:
                            target = ctx.P.lookup_method(owner, e.attr)
                out.append((fi, n, target))
    return out


def folder(ctx, fi: FuncInfo):
    """A fold callback for const_walk: module-level constants, including dict displays of constants."""
    def fold(e):
        v = ctx.P.try_fold(fi.module, e)
        if v is not None:
            return v
        d = ctx.P.dict_literal(fi, e) if isinstance(e, (ast.Name, ast.Attribute, ast.Dict)) else None
        if d is not None:
            out = {}
            for k, val in zip(d.keys, d.values):
                if k is None:
                    return None
                kv = ctx.P.try_fold(fi.module, k)
                vv = ctx.P.try_fold(fi.module, val)
                if kv is None or (vv is None and not (isinstance(val, ast.Constant) and val.value is None)):
                    return None
                out[kv] = vv
            return out
        return None
    return fold


def as_tuple(ctx, fi, node, e: ast.AST) -> Optional[List[ast.AST]]:
    """Component expressions of *e* if it is a tuple display or the construction of a record (NamedTuple / dataclass)
    of the program - `ItemChange(name, ct, old, new)` is the tuple `(name, ct, old, new)` to every rule."""
    if isinstance(e, ast.Tuple) and not any(isinstance(x, ast.Starred) for x in e.elts):
        return list(e.elts)
    if isinstance(e, ast.Call) and not any(isinstance(a, ast.Starred) for a in e.args):
        fields = ctx._record_fields(fi, node, e)
        if fields:
            by = {k.arg: k.value for k in e.keywords if k.arg}
            out = []
            for i, f_ in enumerate(fields):
                if i < len(e.args):
                    out.append(e.args[i])
                elif f_ in by:
                    out.append(by[f_])
                else:
                    return None
            return out
    return None


def call_arg(ctx, fi, call: ast.Call, pname: str, ref_pos: Optional[int] = None) -> Optional[ast.AST]:
    """The argument expression *call* passes for parameter *pname* of the program function it calls - whether it is
    passed by position or by keyword, and wherever the parameter sits in today's signature.  Falls back to position
    *ref_pos* (the position in the reference tree) when the callee is not resolved."""
    for k in call.keywords:
        if k.arg == pname:
            return k.value
    try:
        res = ctx.P.resolve_call(fi, call)
    except Exception:
        res = None
    if res is not None and len(res.targets) == 1:
        t = res.targets[0]
        a = t.node.args
        pos = [x.arg for x in a.posonlyargs + a.args]
        if t.cls is not None and "staticmethod" not in t.decorators and pos and pos[0] in ("self", "cls"):
            pos = pos[1:]
        if pname in pos:
            i = pos.index(pname)
            return call.args[i] if i < len(call.args) and not any(isinstance(x, ast.Starred) for x in call.args[:i + 1]) else None
        if pname in [x.arg for x in a.kwonlyargs]:
            return None
    if ref_pos is not None and ref_pos < len(call.args):
        return call.args[ref_pos]
    return None


def per_item_obligations(ctx, quals) -> List:
    """What a loop hands out for the current item was computed for the current item: in each `for` loop of the given
    generator functions, a variable that is assigned inside the loop body and used in a `yield` of that body is assigned on
    every path from the loop head to that yield (no value left over from the previous item, no pre-loop default standing in
    for it)."""
    obs = []
    for q in quals:
        cq, _, m = q.rpartition(".")
        try:
            fi = ctx.own_method(cq, m) if cq in ctx.P.classes else ctx.func(q)
        except AnalysisError:
            fi = ctx.func(q)
        cfg = ctx.cfg(fi)
        heads = [n for n in cfg.nodes if n.kind == "for"]
        n_y = 0
        for head in heads:
            body = loop_body_nodes(cfg, head)
            # names assigned somewhere in the body
            assigned = set()
            for n in cfg.nodes:
                if n.id not in body:
                    continue
                a = n.ast
                if n.kind == "stmt" and isinstance(a, (ast.Assign, ast.AnnAssign)):
                    for t in (a.targets if isinstance(a, ast.Assign) else [a.target]):
                        for x in ast.walk(t):
                            if isinstance(x, ast.Name) and isinstance(x.ctx, ast.Store):
                                assigned.add(x.id)
            for y in [n for n in cfg.nodes if n.id in body and n.kind == "stmt" and isinstance(n.ast, ast.Expr) and isinstance(n.ast.value, ast.Yield)
                      and n.ast.value.value is not None]:
                # the innermost loop the yield belongs to decides
                inner = [h for h in heads if h is not head and h.id in body and y.id in loop_body_nodes(cfg, h)]
                if inner:
                    continue
                n_y += 1
                used = {x.id for x in ast.walk(y.ast.value.value) if isinstance(x, ast.Name) and isinstance(x.ctx, ast.Load)}
                stale = sorted(v for v in used & assigned if y in carried_uses(cfg, head, v))
                obs.append(ctx.ob(not stale, fi.qualname, where(fi, y), "yield uses values of the current iteration",
                                  "`%s`: every variable assigned in the loop is assigned before the yield" % src(y.ast.value.value)[:50],
                                  "`%s` can hand out `%s` as it was left by an earlier iteration (or by the default set before the loop): the "
                                  "answer for one member carries data that belongs to another" % (src(y.ast.value)[:60], ", ".join(stale))))
    return obs


LISTER_FUNCS = ["xandikos.store.git.GitStore.iter_with_etag", "xandikos.store.vdir.VdirStore.iter_with_etag",
                "xandikos.store.git.BareGitStore._iterblobs", "xandikos.store.git.TreeGitStore._iterblobs",
                "xandikos.store.git.TreeGitStore.subdirectories", "xandikos.store.vdir.VdirStore.subdirectories",
                "xandikos.web.StoreBasedCollection.members", "xandikos.web.CollectionSetResource.members"]


def total_loop_obligations(ctx, quals=None, scan=("xandikos.store.Store.get_type",)) -> List:
    """Listing loops run to the end: no `break` and no `return` inside the loops of the listers (one odd entry - a
    leftover temporary file, a foreign file - must not hide the entries after it).  In a scanning loop that looks for
    something (*scan*), leaving early is allowed only under a test that says it was found."""
    obs = []
    for q in list(quals or LISTER_FUNCS) + list(scan):
        cq, _, m = q.rpartition(".")
        fi = ctx.own_method(cq, m) if cq in ctx.P.classes else ctx.func(q)
        cfg = ctx.cfg(fi)
        heads = [n for n in cfg.nodes if n.kind == "for"]
        bad = []
        for head in heads:
            body = loop_body_nodes(cfg, head)
            for n in cfg.nodes:
                if n.id not in body:
                    continue
                is_break = n.kind == "stmt" and isinstance(n.ast, ast.Break)
                is_ret = n.kind == "return"
                if not (is_break or is_ret):
                    continue
                # a break that belongs to an inner loop is that loop's business
                inner = [h for h in heads if h is not head and h.id in body and n.id in loop_body_nodes(cfg, h)]
                if inner and is_break:
                    continue
                if q in scan:
                    conds = [t for t, pol in cfg.required_conditions(n) if pol and isinstance(t, ast.Compare)]
                    if conds:
                        continue
                bad.append(n)
        obs.append(ctx.ob(not bad, fi.qualname, where(fi, bad[0]) if bad else fi.where, "loop runs over every entry",
                          "no break / return inside the loop" if q not in scan else "early exit only when found",
                          "%s leaves its loop early (`%s` at line %d)%s: the entries after that point are not looked at - they are missing from "
                          "the listing, or do not count for the result" % (fi.short, src(bad[0].ast)[:30] if bad and bad[0].ast is not None else "", bad[0].lineno if bad else 0,
                                                                        "" if q not in scan else " without having found what it looks for")))
    return obs



def served_text(ctx, cls_q: str):
    """The expressions whose value a live property class writes to ``el.text`` in the ``get_value`` its instances
    run (awaits unwrapped, local names and new helpers / template-method hooks followed):
    ``(fi, [(leaf expression, node)])``."""
    from ..dataflow import origins
    fi = ctx.home_method(cls_q, "get_value")
    cfg = ctx.cfg(fi)
    du = DefUse(cfg)
    el = fi.params[3] if len(fi.params) > 3 else "el"
    out = []
    for n in cfg.stmt_nodes():
        a = n.ast
        if n.kind == "stmt" and isinstance(a, ast.Assign) and any(dotted(t) == el + ".text" for t in a.targets):
            for o in origins(du, n, unwrap_await(a.value)):
                leaf = unwrap_await(o.leaf) if o.leaf is not None else None
                out.append((leaf if o.kind in ("expr", "elem") else None, n))
    return fi, out


def serves_resource_call(ctx, cls_q: str, getter: str):
    """(fi, ok): every value written to ``el.text`` by *cls_q*'s get_value is ``<resource param>.<getter>()``."""
    fi, vals = served_text(ctx, cls_q)
    rp = fi.params[2] if len(fi.params) > 2 else "resource"
    ok = bool(vals) and all(isinstance(v, ast.Call) and dotted(v.func) == "%s.%s" % (rp, getter) and not v.args and not v.keywords
                            for v, _n in vals)
    return fi, ok


def string_leaves(du, n, e, _depth: int = 0):
    """Origins of the pieces a string-valued expression is put together from: local names are followed, and so are the
    arguments of calls, f-strings, `+` / `%` - whatever function joins, quotes or pads them.  Leaves are parameters,
    attribute reads, and the calls whose result is destructured (tuple index path kept)."""
    from ..dataflow import origins
    out = []
    if e is None or _depth > 8:
        return out
    for o in origins(du, n, unwrap_await(e)):
        leaf = unwrap_await(o.leaf) if o.leaf is not None else None
        at = o.node or n
        if o.kind != "expr" or leaf is None or o.path:
            out.append(o)
        elif isinstance(leaf, ast.Call):
            parts = list(leaf.args) + [k.value for k in leaf.keywords]
            if isinstance(leaf.func, ast.Attribute) and not isinstance(leaf.func.value, ast.Name):
                parts.append(leaf.func.value)      # "..".join(x) / x.rstrip() on a computed receiver
            elif isinstance(leaf.func, ast.Attribute) and leaf.func.attr in ("format", "join", "rstrip", "lstrip", "strip", "removeprefix", "removesuffix", "replace"):
                parts.append(leaf.func.value)
            sub = []
            for a in parts:
                sub.extend(string_leaves(du, at, a, _depth + 1))
            out.extend(sub if parts else [o])
        elif isinstance(leaf, ast.BinOp):
            out.extend(string_leaves(du, at, leaf.left, _depth + 1) + string_leaves(du, at, leaf.right, _depth + 1))
        elif isinstance(leaf, ast.JoinedStr):
            for v in leaf.values:
                if isinstance(v, ast.FormattedValue):
                    out.extend(string_leaves(du, at, v.value, _depth + 1))
        elif isinstance(leaf, ast.Constant):
            pass
        else:
            out.append(o)
    return out
