"""C12 — addressbook-query returns exactly the contacts that match the filter."""

from __future__ import annotations

import ast
from typing import Set

from ..core import rule
from ..program import AnalysisError, dotted, src
from ..dataflow import DefUse, origins
from ..core import walk_local  # inline-aware
from .common import where

COLL = "xandikos.collation"
CARD = "xandikos.carddav"
MATCH_TYPES = ("equals", "contains", "starts-with", "ends-with")


@rule("C12", "A1", floor=5, kind="S",
      desc="match-type dispatch: _match has a branch for each RFC 6352 match type, raises otherwise, and the value "
           "returned in each branch references both operands")
def a1(ctx):
    from ..peval import PEval, Sym, Term, Raised
    fi = ctx.func(COLL + "._match")
    mod = fi.module
    pe = PEval(ctx.P, fi.short)
    A, B = Sym("value"), Sym("pattern")
    from ..peval import Closure
    f = Closure(fi.node, {}, mod)
    obs = []
    expect = {"equals": [Term("eq", A, B), Term("eq", B, A)], "contains": [Term("in", B, A)],
              "starts-with": [Term("startswith", A, B)], "ends-with": [Term("endswith", A, B)]}
    for mt in MATCH_TYPES:
        try:
            t = pe.apply(f, [A, B, mt], {}, fi.node)
            raised = None
        except Raised as r:
            t, raised = None, r.name
        obs.append(ctx.ob(raised is None and t is not None, fi.qualname, fi.where, "match type %s has a branch" % mt,
                          "_match(value, pattern, %r) = %r" % (mt, t),
                          "_match has no branch for match type %r (%s)" % (mt, "raises %s" % raised if raised else "returns nothing")))
        if t is None:
            continue
        from ..peval import mentions
        both = mentions(t, A) and mentions(t, B)
        obs.append(ctx.ob(both, fi.qualname, fi.where, "match type %s compares both operands" % mt, "%r" % (t,),
                          "for %r _match computes `%r`, which does not involve both operands: the result does not depend on the "
                          "text being matched" % (mt, t)))
        obs.append(ctx.ob(t in expect[mt], fi.qualname, fi.where, "match type %s uses the right primitive" % mt, "%r" % (t,),
                          "for %r _match computes `%r`; expected %r (value against pattern)" % (mt, t, expect[mt][0])))
    try:
        t = pe.apply(f, [A, B, "no-such-match-type"], {}, fi.node)
        other = False
    except Raised:
        other = True
    obs.append(ctx.ob(other, fi.qualname, fi.where, "unknown match type raises", "falls through to raise",
                      "_match no longer raises for an unknown match type"))
    return obs


@rule("C12", "A2", floor=3, kind="S",
      desc="no strict narrow codec on the evaluation path: collations do not encode/decode card text with a codec "
           "that cannot represent every str (ascii/latin-1 without errors=)")
def a2(ctx):
    obs = []
    m = ctx.P.module(COLL)
    e = m.const_exprs.get("collations")
    if not isinstance(e, ast.Dict):
        raise AnalysisError("collation.collations is no longer a dict literal")
    from ..peval import PEval, Sym, Term, Raised, subterms
    pe = PEval(ctx.P, "collation.collations")
    table = pe.ev(e, {}, m)
    NARROW = ("ascii", "usascii", "latin1", "iso88591", "cp1252")
    for kx, vx in zip(e.keys, e.values):
        name = ctx.P.try_fold(m, kx)
        bad = []
        fcoll = pe.dict_get(table, name)
        for mt in MATCH_TYPES:
            try:
                t = pe.apply(fcoll, [Sym("value"), Sym("pattern"), mt], {}, vx)
            except Raised:
                continue
            for x in subterms(t):
                if isinstance(x, Term) and x.op in ("encode", "decode"):
                    rest = list(x.args[1:])
                    kws = dict(a_ for a_ in rest if isinstance(a_, tuple) and len(a_) == 2 and isinstance(a_[0], str) and a_[0] in ("encoding", "errors"))
                    posl = [a_ for a_ in rest if not (isinstance(a_, tuple) and len(a_) == 2 and a_[0] in ("encoding", "errors"))]
                    codec = kws.get("encoding", posl[0] if posl else "utf-8")
                    errs = kws.get("errors", posl[1] if len(posl) > 1 else None)
                    if isinstance(codec, str) and codec.lower().replace("-", "").replace("_", "") in NARROW and errs is None:
                        if repr(x) not in bad:
                            bad.append(repr(x))
        obs.append(ctx.ob(not bad, COLL + ".collations[%r]" % name, "%s:%d" % (m.rel, vx.lineno), "collation %s handles any text" % name,
                          "no strict narrow codec", "collation %r applies %s: any non-ASCII character in a card (or in the pattern) raises "
                          "UnicodeError and the whole REPORT fails with 500" % (name, ", ".join(bad))))
    # the evaluation path in carddav has none either
    for q in (CARD + ".apply_text_match", CARD + ".apply_prop_filter", CARD + ".apply_param_filter", CARD + ".apply_filter"):
        f = ctx.func(q)
        bad = [src(n) for n in walk_local(f.node) if isinstance(n, ast.Call) and isinstance(n.func, ast.Attribute)
               and n.func.attr in ("encode", "decode") and n.args and ctx.P.try_fold(f.module, n.args[0]) in ("ascii", "latin-1", "latin1") and len(n.args) < 2 and not n.keywords]
        obs.append(ctx.ob(not bad, q, f.where, "no strict narrow codec", "none", "%s uses %s" % (f.short, bad)))
    return obs


@rule("C12", "A3", floor=6, kind="S",
      desc="collation table and combinators: the three collations exist; negate-condition negates; anyof/allof map to "
           "any/all with anyof as default; match-type defaults to contains")
def a3(ctx):
    obs = []
    m = ctx.P.module(COLL)
    e = m.const_exprs.get("collations")
    keys = {ctx.P.try_fold(m, k) for k in e.keys} if isinstance(e, ast.Dict) else set()
    for c in ("i;ascii-casemap", "i;octet", "i;unicode-casemap"):
        obs.append(ctx.ob(c in keys, COLL + ".collations", "%s:1" % m.rel, "collation %s registered" % c, "present", "collation %r is not registered" % c))
    tm = ctx.func(CARD + ".apply_text_match")
    cfg = ctx.cfg(tm)
    # negate
    du = DefUse(cfg)

    def is_yes_test(node, t) -> bool:
        """t (a test atom at node) is `<...> == "yes"`, directly or through a local name."""
        cands = [t]
        if isinstance(t, (ast.Name, ast.Attribute)):
            # a local, or a field of a record built from the element's attributes (`options.negate_condition`)
            cands = [o.leaf for o in origins(du, node, t) if o.kind == "expr" and o.leaf is not None and not o.path]
            if not cands:
                return False
        return all(isinstance(x, ast.Compare) and len(x.ops) == 1 and isinstance(x.ops[0], ast.Eq)
                   and "yes" in (ctx.P.try_fold(tm.module, x.comparators[0]), ctx.P.try_fold(tm.module, x.left)) for x in cands)

    neg_ok = False
    for r in [n for n in cfg.nodes if n.kind == "return"]:
        v = r.ast.value
        is_not = isinstance(v, ast.UnaryOp) and isinstance(v.op, ast.Not)
        for tn in [x for x in cfg.nodes if x.kind == "test"]:
            if not is_yes_test(tn, tn.ast):
                continue
            # the negated return is reached only through the 'yes' edge, the plain return only through the other
            only_t = r.id not in cfg.reachable([cfg.entry], block_edges=cfg.test_edges(tn, "t"))
            if only_t and is_not:
                neg_ok = True
    # ... and the un-negated result is not returned on the 'yes' side
    for r in [n for n in cfg.nodes if n.kind == "return"]:
        v = r.ast.value
        if isinstance(v, ast.UnaryOp) and isinstance(v.op, ast.Not):
            continue
        for tn in [x for x in cfg.nodes if x.kind == "test"]:
            if is_yes_test(tn, tn.ast) and r.id not in cfg.reachable([cfg.entry], block_edges=cfg.test_edges(tn, "t")):
                neg_ok = False
    obs.append(ctx.ob(neg_ok, tm.qualname, tm.where, "negate-condition=yes negates", "returns `not matches` under == 'yes'",
                      "apply_text_match does not return the negation exactly when negate-condition is 'yes'"))
    defaults = {}
    for nd_ in cfg.stmt_nodes():
        mod_ = ctx.module_at(tm, nd_)
        for n in nd_.calls():
            if isinstance(n.func, ast.Attribute) and n.func.attr == "get" and len(n.args) == 2:
                ro = origins(du, nd_, n.func.value)
                if ro and all(o.kind == "param" and o.name == tm.params[0] for o in ro):
                    defaults[ctx.P.try_fold(mod_, n.args[0])] = ctx.P.try_fold(mod_, n.args[1])
    obs.append(ctx.ob(defaults.get("match-type") == "contains", tm.qualname, tm.where, "match-type defaults to contains",
                      "default %r" % defaults.get("match-type"), "match-type default is %r, RFC 6352 says 'contains'" % defaults.get("match-type")))
    obs.append(ctx.ob(defaults.get("collation") == "i;ascii-casemap" or defaults.get("collation") == "i;unicode-casemap", tm.qualname, tm.where,
                      "collation default", "default %r" % defaults.get("collation"), "collation default is %r" % defaults.get("collation")))
    # the value is the first, the pattern the second operand
    call_ok = False
    p_el, p_value = (tm.params + ["el", "value"])[:2]
    for nd in cfg.stmt_nodes():
        for n in nd.calls():
            if len(n.args) != 3:
                continue
            fo = [n.func] if isinstance(n.func, ast.Subscript) else \
                [o.leaf for o in origins(du, nd, n.func) if o.kind == "expr" and o.leaf is not None and not o.path] if isinstance(n.func, ast.Name) else []
            if not fo or not all(isinstance(x, ast.Subscript) and (dotted(x.value) or "").endswith("collations") for x in fo):
                continue
            o0 = origins(du, nd, n.args[0])
            o1 = origins(du, nd, n.args[1])
            v_ok = bool(o0) and all(o.kind == "param" and o.name == p_value and not o.path for o in o0)
            def is_text(x):
                # exactly the element's text: `el.text` or `el.text or ""`
                if isinstance(x, ast.BoolOp) and isinstance(x.op, ast.Or) and len(x.values) == 2 and isinstance(x.values[1], ast.Constant) and x.values[1].value == "":
                    x = x.values[0]
                return dotted(x) == p_el + ".text"
            t_ok = bool(o1) and all(o.kind == "expr" and o.leaf is not None and not o.path and is_text(o.leaf) for o in o1)
            call_ok = call_ok or (v_ok and t_ok)
    obs.append(ctx.ob(call_ok, tm.qualname, tm.where, "collation(value, pattern, match_type)", "operands in the right order",
                      "apply_text_match does not call the collation as (card value, pattern text, match type)"))
    af = ctx.func(CARD + ".apply_filter")
    ok_map = False
    dflt = None
    for n in walk_local(af.node):
        tbl = n if isinstance(n, ast.Dict) else (ctx.P.dict_literal(af, n.value) if isinstance(n, ast.Subscript) else None)
        if tbl is not None:
            d = {}
            for k, v in zip(tbl.keys, tbl.values):
                d[ctx.P.try_fold(af.module, k)] = dotted(v)
            if d == {"allof": "all", "anyof": "any"}:
                ok_map = True
        if isinstance(n, ast.Call) and isinstance(n.func, ast.Attribute) and n.func.attr == "get" and n.args and ctx.P.try_fold(af.module, n.args[0]) == "test":
            dflt = ctx.P.try_fold(af.module, n.args[1]) if len(n.args) > 1 else None
    obs.append(ctx.ob(ok_map and dflt == "anyof", af.qualname, af.where, "test attribute: anyof->any, allof->all, default anyof",
                      "mapping ok, default %r" % dflt, "apply_filter maps the test attribute wrongly (mapping ok=%s, default=%r)" % (ok_map, dflt)))
    return obs


@rule("C12", "A4", floor=2, kind="S",
      desc="limit: the nresults test precedes every yield and the counter is incremented exactly once per response")
def a4(ctx):
    fi = ctx.own_method(CARD + ".AddressbookQueryReporter", "report")
    cfg = ctx.cfg(fi)
    obs = []
    ys = [n for n in cfg.stmt_nodes() if n.kind == "stmt" and isinstance(n.ast, ast.Expr) and isinstance(n.ast.value, ast.Yield)]
    tests = [n for n in cfg.nodes if n.kind == "test" and isinstance(n.ast, ast.Compare) and isinstance(n.ast.ops[0], (ast.GtE, ast.Gt))
             and "nresults" in {x.id for x in ast.walk(n.ast) if isinstance(x, ast.Name)}]
    if not ys:
        raise AnalysisError("AddressbookQueryReporter.report yields nothing")
    if not tests:
        obs.append(ctx.bad(fi.qualname, fi.where, "limit test before each response", "the report no longer compares the response count with nresults"))
        return obs
    t = tests[0]
    cnt = [x.id for x in ast.walk(t.ast) if isinstance(x, ast.Name) and x.id != "nresults"]
    ok_op = isinstance(t.ast.ops[0], ast.GtE)
    for y in ys:
        r = cfg.reachable([m for m, l in t.succ if l == "t"])
        blocked = y.id not in r
        # every path from the loop head to the yield passes the test or the nresults-is-None bypass
        from .common import test_polarity_absent
        byp = [(n, test_polarity_absent(n.ast, "nresults")) for n in cfg.nodes if n.kind == "test" and test_polarity_absent(n.ast, "nresults")]
        loops = [n for n in cfg.nodes if n.kind == "for" and any(m.id == y.id or y.id in cfg.reachable([m]) for m, l in n.succ if l == "loop")]
        head = loops[-1] if loops else cfg.entry
        be = [(n, m, l) for n, lab in byp for m, l in n.succ if l == lab]
        r2 = cfg.reachable([m for m, l in head.succ if l == "loop"], block_nodes=[t, head], block_edges=be)
        covered = y.id not in r2
        obs.append(ctx.ob(blocked and covered and ok_op, fi.qualname, where(fi, y), "nresults test guards the response",
                          "`%s` is evaluated before every yield and stops the loop" % src(t.ast),
                          "the response at line %d %s" % (y.lineno, "is reachable after the limit test succeeded" if not blocked else
                                                          "can be produced without evaluating the limit test" if not covered else "is limited with `%s` (off by one)" % src(t.ast))))
    # counter incremented once per yield, in the same iteration, after the yield
    incs = [n for n in cfg.stmt_nodes() if n.kind == "stmt" and isinstance(n.ast, ast.AugAssign) and isinstance(n.ast.target, ast.Name) and n.ast.target.id in cnt]
    ok = len(incs) == 1 and len(ys) == 1 and cfg.normal_completion_dominates(ys, incs[0]) and isinstance(incs[0].ast.op, ast.Add) \
        and isinstance(incs[0].ast.value, ast.Constant) and incs[0].ast.value.value == 1
    obs.append(ctx.ob(ok, fi.qualname, where(fi, incs[0]) if incs else fi.where, "counter incremented once per response",
                      "`%s` follows the yield" % (src(incs[0].ast) if incs else "?"),
                      "the response counter is not incremented exactly once (by 1) after each yield: %s" % [src(i.ast) for i in incs]))
    return obs


@rule("C12", "A5", floor=2, kind="S", desc="address-data is the stored card: AddressDataProperty serialises resource.get_body()")
def a5(ctx):
    from .c17 import data_from_body
    return data_from_body(ctx, "xandikos.carddav.AddressDataProperty", "xandikos.carddav.AddressbookQueryReporter")


@rule("C12", "A6", floor=3, kind="S",
      desc="quantifier shape: the loops over property instances / filter children in the vCard evaluators can reach a "
           "second iteration (a loop whose body always returns examines only the first element)")
def a6(ctx):
    from .common import loop_can_iterate_twice
    obs = []
    n = 0
    for q in (CARD + ".apply_prop_filter", CARD + ".apply_param_filter"):
        fi = ctx.func(q)
        cfg = ctx.cfg(fi)
        for lp in [x for x in cfg.nodes if x.kind == "for"]:
            n += 1
            ok = loop_can_iterate_twice(cfg, lp)
            obs.append(ctx.ob(ok, q, where(fi, lp), "loop `for %s in %s` is not cut after its first element" % (src(lp.ast.target), src(lp.ast.iter)),
                              "a second iteration is reachable",
                              "every path through the body of `for %s in %s` leaves the loop: only the first element is examined, so a card whose "
                              "matching value is a later instance of the property is not returned" % (src(lp.ast.target), src(lp.ast.iter))))
    # apply_prop_filter is existential over the instances: a `return True` inside the instance loop, `return False` after it
    fi = ctx.func(CARD + ".apply_prop_filter")
    cfg = ctx.cfg(fi)
    outer = [x for x in cfg.nodes if x.kind == "for" and isinstance(x.ast.iter, ast.Name)]
    ok = False
    if outer:
        from .common import loop_body_nodes
        body = loop_body_nodes(cfg, outer[0])
        rt = [x for x in cfg.nodes if x.kind == "return" and x.id in body and isinstance(x.ast.value, ast.Constant) and x.ast.value.value is True]
        rf_in = [x for x in cfg.nodes if x.kind == "return" and x.id in body and isinstance(x.ast.value, ast.Constant) and x.ast.value.value is False]
        rf_after = [x for x in cfg.nodes if x.kind == "return" and x.id not in body and isinstance(x.ast.value, ast.Constant) and x.ast.value.value is False
                    and x.id in cfg.reachable([m for m, l in outer[0].succ if l == "done"])]
        ok = bool(rt) and not rf_in and bool(rf_after)
    obs.append(ctx.ob(ok, fi.qualname, fi.where, "prop-filter is existential over the property's instances",
                      "True as soon as one instance matches, False only after all were tried",
                      "apply_prop_filter no longer answers 'some instance of the property matches': it returns False from inside the loop over the instances "
                      "or never returns True there"))
    if n < 2:
        raise AnalysisError("evaluator loops not found")
    return obs


@rule("C12", "A7", floor=1, kind="S",
      desc="i;ascii-casemap folds ASCII letters only: the case folding is applied to encoded bytes (bytes.upper/lower), "
           "never to str (str.upper is Unicode-aware: 'ß'->'SS', 'ë'->'Ë')")
def a7(ctx):
    from ..peval import PEval, Sym, Term, Raised, subterms
    m = ctx.P.module(COLL)
    e = m.const_exprs.get("collations")
    if not isinstance(e, ast.Dict):
        raise AnalysisError("collation.collations is no longer a dict literal")
    pe = PEval(ctx.P, "collation.collations")
    table = pe.ev(e, {}, m)
    obs = []
    FOLDS = ("upper", "lower", "casefold", "title", "swapcase", "capitalize")
    for kx, vx in zip(e.keys, e.values):
        if ctx.P.try_fold(m, kx) != "i;ascii-casemap":
            continue
        fcoll = pe.dict_get(table, "i;ascii-casemap")
        bad, folds = [], 0
        for mt in MATCH_TYPES:
            try:
                t = pe.apply(fcoll, [Sym("value"), Sym("pattern"), mt], {}, vx)
            except Raised:
                continue
            for x in subterms(t):
                if isinstance(x, Term) and x.op in FOLDS:
                    folds += 1
                    recv = x.args[0] if x.args else None
                    on_bytes = isinstance(recv, Term) and recv.op == "encode"
                    if x.op == "casefold" or not on_bytes:
                        if repr(x) not in bad:
                            bad.append(repr(x))
        if not folds:
            bad.append("no case folding at all")
        obs.append(ctx.ob(not bad, COLL + ".collations['i;ascii-casemap']", "%s:%d" % (m.rel, vx.lineno), "case folding on bytes",
                          "every fold is <str>.encode(...).upper()", "i;ascii-casemap folds case with %s on text: non-ASCII letters are folded too "
                          "(and 'ß' expands to 'SS'), so cards match that RFC 4790's ASCII casemap keeps apart" % ", ".join(bad)))
    if not obs:
        raise AnalysisError("i;ascii-casemap is not registered")
    return obs


@rule("C12", "A8", floor=1, kind="S",
      desc="text is matched by code points: neither the card text nor the search text is Unicode-normalised (or "
           "otherwise rewritten) on the way to the collation - normalising only one side makes a card unfindable by its own text")
def a8(ctx):
    obs = []
    n = 0
    mods = (CARD, COLL, "xandikos.vcard")
    for mname in mods:
        for fi in ctx.P.funcs_in_module(mname):
            if ctx.absorbed(fi):
                continue
            n += 1
            bad = [src(c) for c in walk_local(fi.node) if isinstance(c, ast.Call) and (dotted(c.func) or "").startswith("unicodedata.")]
            bad += [src(c) for c in walk_local(fi.node) if isinstance(c, ast.Call) and isinstance(c.func, ast.Attribute)
                    and c.func.attr in ("translate", "expandtabs")]
            if bad:
                obs.append(ctx.bad(fi.qualname, fi.where, "card / search text is not normalised",
                                   "%s applies %s: the text the filters see is no longer the stored text code point for code point, so a card "
                                   "holding decomposed characters is not found by them (and is found by text it does not contain)" % (fi.short, ", ".join(bad))))
    obs.append(ctx.ob(not obs, "xandikos.carddav", "xandikos/", "no Unicode normalisation on the vCard evaluation path",
                      "%d functions in %s, none normalises text" % (n, ", ".join(mods)), "text is normalised"))
    if n < 10:
        raise AnalysisError("vCard evaluation modules not found")
    return obs


@rule("C12", "A9", floor=3, kind="S",
      desc="a collation compares both operands after the same character-by-character mapping: every entry of the "
           "collation table applies one and the same chain of encode/upper/lower/casefold to the search text and to the "
           "value (title()/capitalize() depend on the position inside the word: 'mith' no longer matches 'Smith')")
def a9(ctx):
    PER_CHAR = {"encode", "upper", "lower", "casefold"}
    mod = ctx.P.modules["xandikos.collation"]
    table = mod.const_exprs.get("collations")
    if not isinstance(table, ast.Dict):
        raise AnalysisError("xandikos.collation.collations is no longer a dict display")
    obs = []
    _locals = {}

    def chain(e, param, depth=0):
        """method names applied to *param* in e (innermost first), looking through one-expression helper functions of the
        module (`_fold(a)` with `def _fold(t): return t.encode(...).upper()`); None if e is not such a chain."""
        if depth > 6:
            return None
        if isinstance(e, ast.Name):
            if e.id != param and e.id in _locals:
                return chain(_locals[e.id], param, depth + 1)     # `folded = _fold(a)` ... `_match(folded, ...)`
            return [] if e.id == param else None
        if isinstance(e, ast.Call) and isinstance(e.func, ast.Attribute):
            inner = chain(e.func.value, param, depth + 1)
            return None if inner is None else inner + [e.func.attr]
        if isinstance(e, ast.Call) and isinstance(e.func, ast.Name) and len(e.args) == 1 and not e.keywords:
            g = mod.functions.get(e.func.id)
            if g is None or isinstance(g.node, ast.Lambda) or len(g.node.args.args) != 1:
                return None
            body_ = [s_ for s_ in g.node.body if not (isinstance(s_, ast.Expr) and isinstance(s_.value, ast.Constant))]
            if len(body_) != 1 or not isinstance(body_[0], ast.Return) or body_[0].value is None:
                return None
            pre = chain(e.args[0], param, depth + 1)
            rest = chain(body_[0].value, g.node.args.args[0].arg, depth + 1)
            return None if pre is None or rest is None else pre + rest
        return None

    for k, v in zip(table.keys, table.values):
        name = k.value if isinstance(k, ast.Constant) else src(k)
        fn = v
        if isinstance(fn, ast.Name):
            f_ = mod.functions.get(fn.id)
            fn = f_.node if f_ is not None else fn
        if not isinstance(fn, (ast.Lambda, ast.FunctionDef)):
            raise AnalysisError("collation %s is not a lambda / function of the module" % name)
        params = [a.arg for a in fn.args.args]
        body = fn.body if isinstance(fn, ast.Lambda) else next((s_.value for s_ in fn.body if isinstance(s_, ast.Return)), None)
        _locals.clear()
        if isinstance(fn, ast.FunctionDef):
            cnt = {}
            for s_ in fn.body:
                if isinstance(s_, ast.Assign) and len(s_.targets) == 1 and isinstance(s_.targets[0], ast.Name):
                    cnt[s_.targets[0].id] = cnt.get(s_.targets[0].id, 0) + 1
                    _locals[s_.targets[0].id] = s_.value
            for k_ in [k_ for k_, c_ in cnt.items() if c_ != 1 or k_ in params]:
                _locals.pop(k_, None)
        problem = None
        if not (isinstance(body, ast.Call) and len(body.args) >= 2 and len(params) >= 2):
            raise AnalysisError("collation %s: body is not a call with the two operands (not modelled)" % name)
        ca, cb = chain(body.args[0], params[0]), chain(body.args[1], params[1])
        if ca is None or cb is None:
            problem = "operands are not `%s` / `%s` under a chain of str methods" % (params[0], params[1])
        elif ca != cb:
            problem = "the search text goes through %s, the value through %s" % (ca or "nothing", cb or "nothing")
        elif set(ca) - PER_CHAR:
            problem = "%s() is not a character-by-character mapping" % sorted(set(ca) - PER_CHAR)[0]
        obs.append(ctx.ob(problem is None, "xandikos.collation.collations[%r]" % name, "%s:%d" % (mod.rel, v.lineno),
                          "collation %s maps both operands alike, per character" % name, "chain %s" % (ca,),
                          "collation %s: %s, so whether a text matches depends on where in the value it occurs" % (name, problem)))
    return obs


@rule("C12", "A10", floor=1, kind="S",
      desc="a collation is given text: the property instance handed to apply_text_match is converted with str() "
           "(vobject values of N, ADR, ORG are objects / lists on which the collations fail)")
def a10(ctx):
    fi = ctx.func("xandikos.carddav.apply_prop_filter")
    cfg = ctx.cfg(fi)
    du = DefUse(cfg)
    obs = []
    for n in cfg.nodes:
        for c in n.calls():
            if (dotted(c.func) or "").split(".")[-1] == "apply_text_match" and len(c.args) >= 2:
                os_ = origins(du, n, c.args[1])
                ok = bool(os_) and all(o.kind == "expr" and (isinstance(o.leaf, ast.JoinedStr) or (isinstance(o.leaf, ast.Call) and (
                    dotted(o.leaf.func) == "str" or (isinstance(o.leaf.func, ast.Attribute) and o.leaf.func.attr in ("decode", "format", "join", "serialize"))))) for o in os_)
                obs.append(ctx.ob(ok, fi.qualname, where(fi, n), "text-match operates on str(<property>)", "apply_text_match(el, str(...))",
                                  "apply_text_match is given `%s`, which need not be a str (vobject Name / Address / list values): the "
                                  "collation raises and the whole report fails, or compares by list membership" % src(c.args[1])))
    if not obs:
        raise AnalysisError("apply_prop_filter: apply_text_match call not found")
    return obs


@rule("C12", "A11", floor=3, kind="S",
      desc="XML elements are not tested for truth: in the CardDAV filter functions no test is the result of "
           "`.find()` / an element itself (an ElementTree element without children is falsy: `if el.find(tag):` never sees "
           "an empty <is-not-defined/>)")
def a11(ctx):
    obs = []
    for q in (CARD + ".apply_param_filter", CARD + ".apply_prop_filter", CARD + ".apply_filter", CARD + ".apply_text_match"):
        f = ctx.func(q)
        cfg = ctx.cfg(f)
        du = DefUse(cfg)
        bad = []
        for n in cfg.nodes:
            if n.kind != "test":
                continue
            t = n.ast.operand if isinstance(n.ast, ast.UnaryOp) and isinstance(n.ast.op, ast.Not) else n.ast
            cands = [t]
            if isinstance(t, ast.Name):
                cands = [o.leaf for o in origins(du, n, t) if o.kind == "expr" and o.leaf is not None and not o.path]
            for x in cands:
                if isinstance(x, ast.Call) and isinstance(x.func, ast.Attribute) and x.func.attr in ("find", "findall", "iterfind"):
                    bad.append(n)
        obs.append(ctx.ob(not bad, f.qualname, where(f, bad[0]) if bad else f.where, "no element is tested for truth", "presence tests use `is not None` / len()",
                          "`%s` tests an ElementTree element for truth: an element without children and text is falsy, so an empty "
                          "<is-not-defined/> (or any childless element) is treated as missing" % (src(bad[0].ast)[:60] if bad else "")))
    return obs


@rule("C12", "A12", floor=1, kind="S",
      desc="a card created by POST is listed as a card: the content type handed to create_member is the bare media type "
           "(parse_type(...)[0]) - with parameters still attached no extension is guessed, the item is stored without "
           "`.vcf` and no addressbook-query ever returns it")
def a12(ctx):
    f = ctx.func("xandikos.webdav.PostMethod.handle")
    cfg = ctx.cfg(f)
    du = DefUse(cfg)
    obs = []
    from .common import call_arg
    for n in cfg.stmt_nodes():
        for c in n.calls():
            if isinstance(c.func, ast.Attribute) and c.func.attr == "create_member":
                a = call_arg(ctx, f, c, "content_type", 2)
                if a is None:
                    raise AnalysisError("PostMethod.handle: content type argument of create_member not found")
                os_ = origins(du, n, a)
                ok = bool(os_) and all(o.kind == "expr" and isinstance(o.leaf, ast.Call) and tuple(o.path) == (0,)
                                       and (dotted(o.leaf.func) or "").split(".")[-1] == "parse_type" for o in os_)
                obs.append(ctx.ob(ok, f.qualname, where(f, n), "create_member gets the bare media type", "content_type <- parse_type(request.content_type)[0]",
                                  "POST hands `%s` to create_member as content type: media-type parameters (`; charset=utf-8`) are still attached" % src(a)))
    if not obs:
        raise AnalysisError("PostMethod.handle: create_member call not found")
    return obs


@rule("C12", "A13", floor=20, kind="N",
      desc="a matching card is answered under the href that addresses it: what reaches create_href is an unquoted path "
           "(same obligations as C16/Q2) - names quoted during the traversal are quoted again on the way out")
def a13(ctx):
    from .c16 import q2
    return q2(ctx)


@rule("C12", "A14", floor=3, kind="S",
      desc="the comparison primitives fit what the collations hand them: _match either calls methods / operators of its "
           "operands (any type), or - when it names a primitive of a fixed type (`str.startswith`) - every collation passes "
           "operands of that type; the casemap collations compare encoded bytes, on which a str-bound primitive raises "
           "TypeError and the whole query fails")
def a14(ctx):
    mod = ctx.P.modules["xandikos.collation"]
    table = mod.const_exprs.get("collations")
    if not isinstance(table, ast.Dict):
        raise AnalysisError("xandikos.collation.collations is no longer a dict display")
    mf = ctx.func(COLL + "._match")
    # primitives bound to a type, in _match and in the module-level tables it reads
    scope = [mf.node]
    for nm in {x.id for x in ast.walk(mf.node) if isinstance(x, ast.Name) and isinstance(x.ctx, ast.Load)}:
        if nm in mod.const_exprs and nm != "collations":
            scope.append(mod.const_exprs[nm])
    bound = {}
    for sc in scope:
        for x in ast.walk(sc):
            if isinstance(x, ast.Attribute) and isinstance(x.value, ast.Name) and x.value.id in ("str", "bytes") \
                    and x.attr in ("startswith", "endswith", "__contains__", "__eq__", "find", "index", "count"):
                bound.setdefault(x.value.id, []).append("%s.%s" % (x.value.id, x.attr))
    obs = []

    def kind(e, fn):
        """'bytes' if the operand expression encodes its text, 'str' otherwise."""
        enc = dec = False
        for x in ast.walk(e):
            if isinstance(x, ast.Call) and isinstance(x.func, ast.Attribute):
                enc = enc or x.func.attr == "encode"
                dec = dec or x.func.attr == "decode"
            if isinstance(x, ast.Call) and isinstance(x.func, ast.Name):
                g = mod.functions.get(x.func.id)
                if g is not None and not isinstance(g.node, ast.Lambda):
                    for y in ast.walk(g.node):
                        if isinstance(y, ast.Call) and isinstance(y.func, ast.Attribute):
                            enc = enc or y.func.attr == "encode"
                            dec = dec or y.func.attr == "decode"
        return "bytes" if enc and not dec else "str"

    for k, v in zip(table.keys, table.values):
        name = k.value if isinstance(k, ast.Constant) else src(k)
        fn = v
        if isinstance(fn, ast.Name):
            f_ = mod.functions.get(fn.id)
            fn = f_.node if f_ is not None else fn
        if not isinstance(fn, (ast.Lambda, ast.FunctionDef)):
            raise AnalysisError("collation %s is not a lambda / function of the module" % name)
        calls = [x for x in ast.walk(fn) if isinstance(x, ast.Call) and len(x.args) >= 2 and not (isinstance(x.func, ast.Attribute) and x.func.attr in ("encode", "decode"))
                 and (dotted(x.func) or "").split(".")[-1].lstrip("_").startswith("match")]
        kinds = sorted({kind(a, fn) for c in calls for a in c.args[:2]})
        wrong = [t for t in bound if kinds and any(kd != t for kd in kinds)]
        obs.append(ctx.ob(not wrong, "xandikos.collation.collations[%r]" % name, "%s:%d" % (mod.rel, v.lineno),
                          "collation %s hands _match operands its primitives accept" % name,
                          "operands: %s; type-bound primitives: %s" % ("/".join(kinds) or "?", ", ".join(sorted(sum(bound.values(), []))) or "none"),
                          "collation %s passes %s to _match, which dispatches to %s: the unbound method of another type raises TypeError, "
                          "so every %s query under this collation fails with a server error"
                          % (name, "/".join(kinds), ", ".join(sorted(sum((bound[t] for t in wrong), []))) if wrong else "",
                             " / ".join(sorted({b.split(".")[1].replace("startswith", "starts-with").replace("endswith", "ends-with") for t in wrong for b in bound[t]})) if wrong else "")))
    return obs
