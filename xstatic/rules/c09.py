"""C09 — the git repository is a faithful, append-only history."""

from __future__ import annotations

import ast
import os

from ..cfg import WithCtx
from ..core import rule, VERIF
from ..dataflow import DefUse
from ..program import AnalysisError, Program, dotted, src
from ..core import walk_local  # inline-aware
from .common import where
from .storelib import facts, is_write_open, expr_is_tmp_path, node_desc

BARE = "xandikos.store.git.BareGitStore"
TREE = "xandikos.store.git.TreeGitStore"


def _commit_nodes(cfg):
    return [n for n in cfg.stmt_nodes() for c in n.calls() if (dotted(c.func) or "").endswith("_commit_tree")]


def _index_names(cfg, du) -> set:
    """Local names that hold the object bound by a ``with ... as`` (the locked index), directly or through plain
    re-binding (`index = <that object>`, also the binding an inlined helper introduces)."""
    from ..dataflow import origins
    out = {d.name for n in cfg.nodes for d in du.defs_at.get(n.id, []) if d.kind == "with"}
    for n in cfg.nodes:
        for d in du.defs_at.get(n.id, []):
            if d.kind == "assign" and not d.index and d.value is not None and d.name not in out:
                os_ = origins(du, n, d.value)
                if os_ and all(o.kind == "with" for o in os_):
                    out.add(d.name)
    return out


def change_tests(cfg, du, index_vars):
    """id(test expression) -> label of the edge meaning 'changed', for every comparison of the function that compares
    object identities (also when an identity was first stored in a local: `new_entry = (mode, b.id)` ...
    `tree[name] == new_entry`).  Covers test atoms and comparisons stored in boolean temporaries."""
    out = {}
    for n in cfg.stmt_nodes():
        for e in n.exprs():
            for x in ast.walk(e):
                if isinstance(x, ast.Compare) and id(x) not in out:
                    lab = _is_change_test(x, index_vars, du, n)
                    if lab:
                        out[id(x)] = lab
    return out


def _pure_identity(e) -> bool:
    """An object id, or a display of constants and object ids (a tree entry `(mode, blob.id)`): equal iff the content
    is equal.  A record that also carries volatile fields (an index entry built from stat()) is not."""
    if isinstance(e, ast.Attribute) and e.attr in ("id", "sha"):
        return True
    if isinstance(e, (ast.Tuple, ast.List)) and e.elts:
        has = False
        for x in e.elts:
            if _pure_identity(x):
                has = True
            elif not _constantish(x):
                return False
        return has
    return False


def _constantish(e) -> bool:
    if isinstance(e, ast.Constant):
        return True
    if isinstance(e, ast.BinOp):
        return _constantish(e.left) and _constantish(e.right)
    if isinstance(e, ast.Attribute):
        return (dotted(e) or "").split(".")[0] in ("stat",)       # stat.S_IFREG
    return False


def _mentions_id(du, node, e) -> bool:
    from ..dataflow import origins
    for x in ast.walk(e):
        if isinstance(x, ast.Attribute) and x.attr in ("id", "sha"):
            return True
        if isinstance(x, ast.Name) and du is not None and node is not None:
            for o in origins(du, node, x):
                if o.leaf is not None and o.leaf is not x and _pure_identity(o.leaf):
                    return True
    return False


def _is_change_test(t: ast.AST, index_vars, du=None, node=None):
    """-> label of the edge meaning 'changed', or None."""
    if not (isinstance(t, ast.Compare) and len(t.ops) == 1):
        return None
    op = t.ops[0]
    has_id = _mentions_id(du, node, t)
    if has_id and du is not None and node is not None and isinstance(op, (ast.NotEq, ast.Eq)):
        # 'unchanged' means: equal to what is published (index / tree entry).  An identity computed from the bytes of a
        # file says what the working copy holds, which a failed write leaves ahead of the index.
        from ..dataflow import depends_on
        for side in [t.left] + list(t.comparators):
            deps = depends_on(du, node, side)
            if any(d in ("<call:open>", "<call:os.open>", "<call:io.open>") or d.endswith((".read_bytes>", ".read_text>")) for d in deps):
                return None
    names = {x.id for x in ast.walk(t) if isinstance(x, ast.Name)}
    if isinstance(op, (ast.NotEq, ast.Eq)) and (has_id or any("id" in n.lower() or "sha" in n.lower() for n in names)):
        return "t" if isinstance(op, ast.NotEq) else "f"
    if isinstance(op, (ast.NotIn, ast.In)) and isinstance(t.comparators[0], ast.Name) and t.comparators[0].id in index_vars:
        return "t" if isinstance(op, ast.NotIn) else "f"
    return None


def commit_guard_obligations(ctx):
    obs = []
    for cq in (BARE, TREE):
        fi = ctx.own_method(cq, "_import_one")
        cfg = ctx.cfg(fi)
        du = DefUse(cfg)
        commits = _commit_nodes(cfg)
        if not commits:
            raise AnalysisError("%s._import_one: no _commit_tree call" % cq)
        index_vars = _index_names(cfg, du)
        ctests = change_tests(cfg, du, index_vars)
        tests = [(n, ctests.get(id(n.ast))) for n in cfg.nodes if n.kind == "test"]
        tests = [(n, lab) for n, lab in tests if lab]
        blocked = [(n, m, l) for n, lab in tests for m, l in n.succ if l == lab]
        r = cfg.reachable([cfg.entry], block_edges=blocked)
        if any(c.id in r for c in commits):
            # boolean temporaries (`unchanged = ...; if not unchanged: commit`): walk with every change test
            # assumed to say 'unchanged' and see whether a commit is still reachable
            from .common import const_walk

            def decide(t_, _ct=ctests):
                lab = _ct.get(id(t_))
                if lab is None:
                    return None
                return lab == "f"       # 'changed' is the f edge  <=>  the test is True when unchanged

            try:
                r = set(const_walk(cfg, [cfg.entry], {}, decide=decide, follow_exc=True))
            except AnalysisError:
                pass
            has_tests = bool(tests) or bool(ctests)
        else:
            has_tests = bool(tests)
        for c in commits:
            ok = has_tests and c.id not in r
            obs.append(ctx.ob(ok, fi.qualname, where(fi, c), "commit only if the content id changed",
                              "`%s` is reachable only through the 'changed' side of %s" % (node_desc(c), " / ".join("`%s`" % src(t.ast) for t, _ in tests)),
                              "`%s` is reachable without a comparison of the new and the old object id: a no-op rewrite adds a commit" % node_desc(c)))
        # the old id is read before the modification (bare store)
        if cq == BARE:
            for t, lab in tests:
                for nm in {x.id for x in ast.walk(t.ast) if isinstance(x, ast.Name)}:
                    for d in du.reaching(t, nm):
                        if d.kind == "assign" and isinstance(d.value, ast.Attribute) and d.value.attr == "id":
                            treevar = dotted(d.value.value)
                            mods = [n for n in cfg.stmt_nodes() if n.kind == "stmt" and isinstance(n.ast, (ast.Assign, ast.Delete))
                                    and any(isinstance(tt, ast.Subscript) and dotted(tt.value) == treevar for tt in n.ast.targets)]
                            ok = bool(mods) and all(cfg.normal_completion_dominates([d.node], m) for m in mods)
                            obs.append(ctx.ob(ok, fi.qualname, where(fi, d.node), "old id captured before the tree is modified",
                                              "`%s` precedes every modification of `%s`" % (node_desc(d.node), treevar),
                                              "the 'old' id `%s` is read after `%s` was modified, so the comparison is always equal/unequal" % (nm, treevar)))
    return obs


@rule("C09", "K1", floor=3, kind="N", desc="a commit is made only when the new tree/blob id differs from the old one")
def k1(ctx):
    return commit_guard_obligations(ctx)


# ---------------------------------------------------------------------------- K2

HISTORY_REWRITERS = ("set_if_equals", "remove_if_equals", "add_if_new", "set_symbolic_ref", "import_refs",
                     "pack_refs", "reset_index", "checkout_branch")


def history_rewrites(program: Program):
    """[(fi, lineno, what)] for every construct that moves/deletes a ref other than through do_commit."""
    out = []
    for fi in program.all_funcs():
        for n in walk_local(fi.node):
            if isinstance(n, (ast.Assign, ast.AugAssign, ast.Delete)):
                tgts = n.targets if not isinstance(n, ast.AugAssign) else [n.target]
                for t in tgts:
                    if isinstance(t, ast.Subscript) and (dotted(t.value) or "").split(".")[-1] == "refs":
                        out.append((fi, n.lineno, "direct write to %s[...]" % dotted(t.value)))
            if isinstance(n, ast.Call):
                d = dotted(n.func) or ""
                last = d.split(".")[-1]
                if last in HISTORY_REWRITERS:
                    out.append((fi, n.lineno, "call of %s" % d))
                if last == "reset" and "repo" in d:
                    out.append((fi, n.lineno, "call of %s" % d))
                if d.startswith("porcelain.") or d.startswith("dulwich.porcelain."):
                    out.append((fi, n.lineno, "call of %s" % d))
                if last == "do_commit":
                    for k in n.keywords:
                        if k.arg == "merge_heads":
                            out.append((fi, n.lineno, "do_commit(merge_heads=...)"))
                        if k.arg == "ref" and dotted(k.value) not in ("self.ref", "ref"):
                            out.append((fi, n.lineno, "do_commit(ref=%s)" % src(k.value)))
                        if k.arg == "parents" or k.arg == "amend":
                            out.append((fi, n.lineno, "do_commit(%s=...)" % k.arg))
    return out


@rule("C09", "K2", floor=3, kind="S",
      desc="nobody rewrites history: outside do_commit no ref is assigned/deleted/reset; do_commit is only called "
           "from _commit_tree with the store's own ref (expected count 0, with a positive control fixture)")
def k2(ctx):
    obs = []
    hits = history_rewrites(ctx.P)
    for fi, ln, what in hits:
        obs.append(ctx.bad(fi.qualname, "%s:%d" % (fi.module.rel, ln), what,
                           "%s: %s - history can be rewritten or a ref moved outside the commit path" % (fi.short, what)))
    obs.append(ctx.ob(not hits, "xandikos", "xandikos/", "no ref write outside do_commit",
                      "0 constructs that move or delete a ref outside do_commit in %d functions" % len(ctx.P.functions)))
    # do_commit call sites
    sites = []
    for fi in ctx.P.all_funcs():
        if ctx.absorbed(fi):
            continue
        for n in walk_local(fi.node):
            if isinstance(n, ast.Call) and (dotted(n.func) or "").split(".")[-1] == "do_commit":
                sites.append((fi, n))
    if len(sites) < 2:
        raise AnalysisError("expected >= 2 do_commit call sites, found %d" % len(sites))
    for fi, c in sites:
        ok = fi.name == "_commit_tree" and fi.cls is not None and fi.cls.qualname in (BARE, TREE)
        obs.append(ctx.ob(ok, fi.qualname, "%s:%d" % (fi.module.rel, c.lineno), "do_commit called from _commit_tree",
                          "commit goes through the store's _commit_tree", "do_commit is called from %s, outside the _commit_tree path" % fi.short))
    # positive control
    fx = os.path.join(VERIF, "fixtures", "c09_k2_control")
    if not os.path.isdir(fx):
        raise AnalysisError("positive control fixture %s missing" % fx)
    ctrl = history_rewrites(Program(fx))
    if len(ctrl) < 3:
        raise AnalysisError("K2 scanner found only %d of the constructs planted in the control fixture" % len(ctrl))
    obs.append(ctx.ok("fixtures/c09_k2_control", "fixtures/c09_k2_control", "positive control matches",
                      "scanner finds %d planted ref-rewriting constructs in the control fixture" % len(ctrl)))
    return obs


# ---------------------------------------------------------------------------- K3

def in_locked_index(n) -> bool:
    from .storelib import StoreFacts
    return any(isinstance(c, WithCtx) and StoreFacts.is_locked_index_with(c.stmt) for c in n.ctx)


@rule("C09", "K3", floor=5, kind="S",
      desc="tree store: the working-tree file, the index entry and the commit move together inside the critical section")
def k3(ctx):
    obs = []
    fi = ctx.own_method(TREE, "_import_one")
    cfg = ctx.cfg(fi)
    du = DefUse(cfg)
    idx_assign = [n for n in cfg.stmt_nodes() if n.kind == "stmt" and isinstance(n.ast, ast.Assign)
                  and any(isinstance(t, ast.Subscript) for t in n.ast.targets) and in_locked_index(n)]
    if not idx_assign:
        raise AnalysisError("TreeGitStore._import_one: index assignment not found inside locked_index")
    writes = [n for n in cfg.nodes if n.kind == "with_enter" and any(
        isinstance(i.context_expr, ast.Call) and is_write_open(i.context_expr) for i in n.ast.items)]
    wexits = [n for n in cfg.nodes if n.kind == "with_exit" and n.extra.get("via") == "fallthrough" and any(
        isinstance(i.context_expr, ast.Call) and is_write_open(i.context_expr) for i in n.ast.items)]
    for ia in idx_assign:
        v = ia.ast.value
        okstat = False
        statvar = None
        if isinstance(v, ast.Call) and (dotted(v.func) or "").endswith("index_entry_from_stat") and v.args and isinstance(v.args[0], ast.Name):
            statvar = v.args[0].id
            for d in du.reaching(ia, statvar):
                if isinstance(d.value, ast.Call) and dotted(d.value.func) in ("os.lstat", "os.stat") and d.value.args:
                    parg = d.value.args[0]
                    # the file at that path was written (and closed) before the stat
                    for w in writes:
                        wpath = w.ast.items[0].context_expr.args[0]
                        if src(wpath) == src(parg) and cfg.normal_completion_dominates(wexits, d.node):
                            okstat = True
        obs.append(ctx.ob(okstat, fi.qualname, where(fi, ia), "index entry built from the lstat of the file just written",
                          "index entry <- index_entry_from_stat(os.lstat(p)) after the file at p was written and closed",
                          "the index entry is not derived from the stat of the working-tree file written in the same critical section"))
        # blob recorded == bytes written
        same = False
        if isinstance(v, ast.Call) and len(v.args) > 1:
            blobvar = dotted(v.args[1]).split(".")[0] if dotted(v.args[1]) else None
            if blobvar:
                for d in du.reaching(ia, blobvar):
                    dn = {x.id for x in ast.walk(d.value) if isinstance(x, ast.Name)} if d.value is not None else set()
                    for w in writes:
                        wn = set()
                        for b in cfg.stmt_nodes():
                            if any(isinstance(c, WithCtx) and c.stmt is w.ast for c in b.ctx):
                                for cc in b.calls():
                                    if isinstance(cc.func, ast.Attribute) and cc.func.attr in ("write", "writelines"):
                                        wn |= {x.id for a in cc.args for x in ast.walk(a) if isinstance(x, ast.Name)}
                        if "data" in dn and "data" in wn:
                            same = True
        obs.append(ctx.ob(same, fi.qualname, where(fi, ia), "blob id and file content come from the same `data`",
                          "Blob.from_string(b''.join(data)) and f.writelines(data) use the same parameter",
                          "the blob recorded in the index is not built from the bytes written to the working tree"))
        cm = _commit_nodes(cfg)
        okc = bool(cm) and all(cfg.normal_completion_dominates([ia], c) for c in cm) and all(in_locked_index(c) for c in cm)
        obs.append(ctx.ob(okc, fi.qualname, where(fi, ia), "commit follows the index assignment inside the lock",
                          "_commit_tree runs after the index assignment, inside locked_index",
                          "_commit_tree can run without the index assignment or outside the critical section"))
    # delete_one
    fd = ctx.own_method(TREE, "delete_one")
    cfgd = ctx.cfg(fd)
    unl = [n for n in cfgd.stmt_nodes() for c in n.calls() if dotted(c.func) in ("os.unlink", "os.remove")]
    dels = [n for n in cfgd.stmt_nodes() if n.kind == "stmt" and isinstance(n.ast, ast.Delete)
            and any(isinstance(t, ast.Subscript) for t in n.ast.targets)]
    cm = _commit_nodes(cfgd)
    ok = bool(unl) and bool(dels) and bool(cm) and all(in_locked_index(n) for n in unl + dels + cm) \
        and all(cfgd.normal_completion_dominates(unl, c) and cfgd.normal_completion_dominates(dels, c) for c in cm)
    obs.append(ctx.ob(ok, fd.qualname, fd.where, "unlink + index deletion + commit together inside the lock",
                      "os.unlink, del index[...] and _commit_tree all run, in the critical section, before the commit",
                      "delete_one no longer removes the working-tree file and the index entry together before committing"))
    # same path / same name
    if unl and dels:
        du2 = DefUse(cfgd)
        from ..dataflow import depends_on
        d1 = depends_on(du2, unl[0], unl[0].calls()[0].args[0]) if unl[0].calls()[0].args else set()
        d2 = depends_on(du2, dels[0], dels[0].ast.targets[0].slice)
        p1 = {x for x in d1 if not x.startswith(("self.", "<call:"))} - {"self"}
        p2 = {x for x in d2 if not x.startswith(("self.", "<call:"))} - {"self"}
        obs.append(ctx.ob(p1 == p2 == {"name"}, fd.qualname, where(fd, unl[0]), "unlink and index deletion address the same name",
                          "both depend on `name` only", "os.unlink depends on %s, the index deletion on %s" % (sorted(p1), sorted(p2))))
    return obs


# ---------------------------------------------------------------------------- K4

@rule("C09", "K4", floor=1, kind="S",
      desc="who-may-write: outside the store modules no file is written/unlinked/renamed from a class that can be a "
           "store-backed (git working tree) collection")
def k4(ctx):
    obs = []
    sbc = ctx.P.cls("xandikos.web.StoreBasedCollection")
    store_backed = [sbc] + sbc.all_subclasses()
    ancestors = set()
    for c in store_backed:
        for a in c.mro:
            ancestors.add(a.qualname)
    n_sites = 0
    for fi in ctx.P.all_funcs():
        if ctx.absorbed(fi):
            continue
        if fi.module.name.startswith("xandikos.store"):
            continue
        cfg = None
        for n in walk_local(fi.node):
            if not isinstance(n, ast.Call):
                continue
            d = dotted(n.func) or ""
            what = None
            if is_write_open(n):
                what = "open(..., 'w')"
            elif d in ("os.unlink", "os.remove", "os.replace", "os.rename"):
                what = d
            if what is None:
                continue
            n_sites += 1
            owner = fi.cls
            f = fi
            while owner is None and f.parent is not None:
                f = f.parent
                owner = f.cls
            inside = owner is not None and owner.qualname in ancestors
            concrete = sorted(c.short for c in store_backed if owner is not None and owner in c.mro)
            obs.append(ctx.ob(not inside, fi.qualname, "%s:%d" % (fi.module.rel, n.lineno), "%s outside the store layer" % what,
                              "%s is not part of a store-backed collection class" % (owner.short if owner else "module level"),
                              "%s writes a file with %s (`%s`) and is inherited by %s, whose directory is a git working tree: "
                              "the file is untracked by the store (`git status` is no longer clean)" % (fi.short, what, src(n)[:60], ", ".join(concrete))))
    if n_sites < 1:
        raise AnalysisError("no file write outside the store layer found (confirmed: Principal.set_infit_settings)")
    return obs


# ---------------------------------------------------------------------------- K5

@rule("C09", "K5", floor=4, kind="S",
      desc="the tree that is committed is the tree that was just built and added to the object store")
def k5(ctx):
    obs = []
    for cq in (BARE, TREE):
        f = ctx.own_method(cq, "_commit_tree")
        calls = [n for n in walk_local(f.node) if isinstance(n, ast.Call) and (dotted(n.func) or "").endswith("do_commit")]
        if not calls:
            raise AnalysisError("%s._commit_tree: no do_commit" % cq)
        cfg = ctx.cfg(f)
        du = DefUse(cfg)
        for c in calls:
            tk = [k.value for k in c.keywords if k.arg == "tree"]
            ok = False
            desc = "no tree= argument"
            if tk:
                t = tk[0]
                desc = src(t)
                if isinstance(t, ast.Name):
                    if cq == BARE:
                        ok = t.id == f.params[1] if len(f.params) > 1 else False
                    else:
                        node = [n for n in cfg.stmt_nodes() if c in n.calls()][0]
                        for d in du.reaching(node, t.id):
                            v = d.value
                            if isinstance(v, ast.Call) and isinstance(v.func, ast.Attribute) and v.func.attr == "commit" \
                                    and dotted(v.func.value) == f.params[1]:
                                ok = True
            obs.append(ctx.ob(ok, f.qualname, "%s:%d" % (f.module.rel, c.lineno), "do_commit(tree=<the tree built by the caller>)",
                              "tree argument is %s" % desc, "do_commit is given tree=%s, not the tree handed in / written from the index" % desc))
    # bare callers pass the id of the tree they added
    for nm in ("_import_one", "delete_one"):
        f = ctx.own_method(BARE, nm)
        cfg = ctx.cfg(f)
        for n in _commit_nodes(cfg):
            c = [c for c in n.calls() if (dotted(c.func) or "").endswith("_commit_tree")][0]
            a = c.args[0] if c.args else None
            if isinstance(a, ast.Name):
                # the id taken into a local first (`new_tree_id = tree.id`)
                from ..dataflow import origins as _origins
                _os = [o for o in _origins(DefUse(cfg), n, a)]
                if len(_os) == 1 and _os[0].kind == "expr" and not _os[0].path and isinstance(_os[0].leaf, ast.Attribute):
                    a = _os[0].leaf
            tv = dotted(a.value) if isinstance(a, ast.Attribute) and a.attr == "id" else None
            adds = [m for m in cfg.stmt_nodes() for cc in m.calls()
                    if (dotted(cc.func) or "").endswith("add_objects") or (dotted(cc.func) or "").endswith("add_object")
                    if tv and tv in {x.id for x in ast.walk(cc) if isinstance(x, ast.Name)}]
            ok = tv is not None and bool(adds) and cfg.normal_completion_dominates(adds, n)
            obs.append(ctx.ob(ok, f.qualname, where(f, n), "commits the id of the tree added to the object store",
                              "`%s.id` is committed after `%s` was added" % (tv, tv),
                              "_commit_tree is given `%s`, which is not the id of a tree added to the object store beforehand" % (src(a) if a is not None else "?")))
    return obs


def _value_kind(ctx, fi, e, du=None, at=None) -> str:
    """'bytes' | 'str' | '?' for an id/etag-valued expression (dulwich ids are bytes; the stores' etags are str)."""
    if isinstance(e, ast.Attribute) and e.attr in ("id", "sha"):
        return "bytes"
    if isinstance(e, ast.Call) and isinstance(e.func, ast.Attribute):
        if e.func.attr == "encode":
            return "bytes"
        if e.func.attr == "decode":
            return "str"
        if e.func.attr in ("_get_etag", "get_ctag") :
            return "str"
    if isinstance(e, ast.Name) and e.id in fi.params:
        # a parameter: the annotation of this method or of the method it overrides
        for f in [fi] + ([c.methods[fi.name] for c in fi.cls.mro[1:] if fi.name in c.methods] if fi.cls else []):
            for a in f.node.args.args + f.node.args.kwonlyargs:
                if a.arg == e.id and a.annotation is not None:
                    names = {n.id for n in ast.walk(a.annotation) if isinstance(n, ast.Name)}
                    if "str" in names and "bytes" not in names:
                        return "str"
                    if "bytes" in names and "str" not in names:
                        return "bytes"
    if isinstance(e, ast.Subscript) and isinstance(e.slice, ast.Constant) and e.slice.value == 1 and isinstance(e.value, ast.Subscript) \
            and isinstance(e.value.value, ast.Name) and du is not None and at is not None:
        # dulwich Tree.__getitem__ -> (mode, sha): element 1 is a bytes id
        defs = [d.value for d in du.reaching(at, e.value.value.id)]
        if defs and all(isinstance(v, ast.Call) and (dotted(v.func) or "").endswith("_get_current_tree") for v in defs):
            return "bytes"
    return "?"


@rule("C09", "K6", floor=3, kind="S",
      desc="id comparisons compare like with like: a dulwich object id (bytes) is never compared with a store etag "
           "(str) - such a comparison is constantly 'different'")
def k6(ctx):
    from ..dataflow import DefUse
    obs = []
    for fi in ctx.P.funcs_in_module("xandikos.store.git"):
        if ctx.absorbed(fi):
            continue
        cfg = ctx.cfg(fi)
        du = None
        for t in [n for n in cfg.nodes if n.kind == "test" and isinstance(n.ast, ast.Compare) and len(n.ast.ops) == 1 and isinstance(n.ast.ops[0], (ast.Eq, ast.NotEq))]:
            sides = [t.ast.left, t.ast.comparators[0]]
            kinds = []
            for sd in sides:
                du = du or DefUse(cfg)
                k = _value_kind(ctx, fi, sd, du, t)
                if k == "?" and isinstance(sd, ast.Name):
                    ks = {_value_kind(ctx, fi, d.value, du, d.node) for d in du.reaching(t, sd.id) if d.value is not None and not (isinstance(d.value, ast.Constant) and d.value.value is None) and not d.index}
                    ks.discard("?")
                    if len(ks) == 1:
                        k = ks.pop()
                kinds.append(k)
            if "?" in kinds or not ("bytes" in kinds or "str" in kinds):
                continue
            obs.append(ctx.ob(kinds[0] == kinds[1], fi.qualname, where(fi, t), "`%s` compares %s with %s" % (src(t.ast), kinds[0], kinds[1]),
                              "like with like", "`%s` compares a %s value with a %s value: the two are never equal, so the 'unchanged' case is never "
                              "recognised (every no-op rewrite adds a commit) or the etag check always fails" % (src(t.ast), kinds[0], kinds[1])))
    return obs


@rule("C09", "K7", floor=9, kind="N",
      desc="index, working tree and HEAD are updated by one writer at a time (same obligations as C05/L0): otherwise a "
           "commit's tree drops another writer's member and its file is left untracked")
def k7(ctx):
    from .c05 import l0
    return l0(ctx)


def private_tree_obligations(ctx):
    """The tree object BareGitStore edits in place is private to the call: _get_current_tree() returns, on every path,
    an object it obtained in that very call (Tree() / a lookup in the repository) - never one kept in an attribute,
    a module-level object or the result of a memoising function."""
    from ..dataflow import origins
    obs = []
    gt = ctx.own_method(BARE, "_get_current_tree")
    cfg = ctx.cfg(gt)
    du = DefUse(cfg)
    rets = [n for n in cfg.nodes if n.kind == "return" and n.ast.value is not None]
    if not rets:
        raise AnalysisError("BareGitStore._get_current_tree has no return")

    def fresh(o) -> bool:
        v = o.leaf
        if o.kind != "expr" or v is None or o.path:
            return False
        if isinstance(v, ast.Call) and dotted(v.func) in ("Tree", "dulwich.objects.Tree"):
            return True
        if isinstance(v, ast.Subscript) and (dotted(v.value) or "").startswith("self.repo"):
            return True
        return False

    for r in rets:
        os_ = origins(du, r, r.ast.value)
        bad = [o for o in os_ if not fresh(o)]
        what = ", ".join(sorted({src(o.leaf) if o.leaf is not None else (o.name or "?") for o in bad}))
        obs.append(ctx.ob(bool(os_) and not bad, gt.qualname, where(gt, r), "current tree is a private object",
                          "returns Tree() or an object looked up in the repository in this call",
                          "_get_current_tree returns `%s` (%s), an object that outlives the call: _import_one / delete_one edit the tree in place before "
                          "committing, so a write that fails (or another collection's write) leaves its entry in the shared tree and later requests "
                          "serve or commit it" % (src(r.ast.value), what)))
    # the callers edit exactly what _get_current_tree() handed them
    for nm in ("_import_one", "delete_one"):
        f = ctx.own_method(BARE, nm)
        cfgf = ctx.cfg(f)
        duf = DefUse(cfgf)
        edits = []
        for n in cfgf.stmt_nodes():
            if n.kind == "stmt" and isinstance(n.ast, (ast.Assign, ast.Delete)):
                for t in n.ast.targets:
                    if isinstance(t, ast.Subscript) and isinstance(t.value, ast.Name):
                        edits.append((n, t.value))
        if not edits:
            raise AnalysisError("%s.%s: no in-place edit of the tree found" % (BARE, nm))
        for n, base in edits:
            os_ = origins(duf, n, base)
            ok = bool(os_) and all(o.kind == "expr" and isinstance(o.leaf, ast.Call) and dotted(o.leaf.func) == "self._get_current_tree" for o in os_)
            obs.append(ctx.ob(ok, f.qualname, where(f, n), "edits the tree obtained from _get_current_tree()",
                              "`%s` edits the result of self._get_current_tree()" % node_desc(n),
                              "`%s` edits an object that does not come from self._get_current_tree() in this call" % node_desc(n)))
    return obs


@rule("C09", "K8", floor=4, kind="S",
      desc="bare store: the tree that is edited in place and committed is private to the write (a fresh Tree() or an "
           "object just read from the repository), so a failed write or another collection cannot leave entries in it")
def k8(ctx):
    return private_tree_obligations(ctx)


@rule("C09", "K9", floor=2, kind="N",
      desc="the committed blob holds the served bytes: the data handed to _import_one can be iterated twice (working "
           "tree file and blob) and is the validated content or its serialisation (same obligations as C14/V7) - a "
           "one-shot generator leaves an empty blob next to a full working-tree file")
def k9(ctx):
    from .c14 import normalized_obligations
    return normalized_obligations(ctx)


@rule("C09", "K10", floor=2, kind="S",
      desc="commit metadata is the server's: do_commit is given message, author, tree and ref only - dates and other "
           "header fields are not taken from uploaded data (a LAST-MODIFIED of 1601 gives a commit git fsck rejects)")
def k10(ctx):
    ALLOWED = {"message", "tree", "ref", "author", "committer", "encoding", "merge_heads", "no_verify", "sign"}
    obs = []
    for cq in (BARE, TREE):
        fi = ctx.own_method(cq, "_commit_tree")
        cfg = ctx.cfg(fi)
        calls = [(n, c) for n in cfg.stmt_nodes() for c in n.calls() if (dotted(c.func) or "").endswith("do_commit")]
        if not calls:
            raise AnalysisError("%s._commit_tree: do_commit call not found" % cq)
        for n, c in calls:
            extra = [k.arg or "**" for k in c.keywords if (k.arg not in ALLOWED) and not (isinstance(k.value, ast.Constant) and k.value.value is None)]
            extra += ["positional #%d" % i for i, _a in enumerate(c.args) if i >= 1]
            obs.append(ctx.ob(not extra, fi.qualname, where(fi, n), "do_commit(message, author, tree, ref)", "no further commit header fields",
                              "`%s` passes %s to do_commit: commit header fields derived from request data can make the object invalid for git "
                              "(negative or overflowing dates fail `git fsck`)" % (src(c)[:70], ", ".join(extra))))
    return obs


@rule("C09", "K11", floor=1, kind="S",
      desc="who may write inside a repository: a request whose path has a `.git` component never reaches the WebDAV "
           "handlers - the WSGI front end routes on membership of GIT_PATH in the path components (also for a path that "
           "ends in `.git`)")
def k11(ctx):
    f = ctx.own_method("xandikos.web.XandikosApp", "_handle_request")
    cfg = ctx.cfg(f)
    obs = []
    sup = [n for n in cfg.stmt_nodes() for c in n.calls() if isinstance(c.func, ast.Attribute) and c.func.attr == "_handle_request"
           and isinstance(c.func.value, ast.Call) and dotted(c.func.value.func) == "super"]
    if not sup:
        raise AnalysisError("XandikosApp._handle_request: delegation to the WebDAV handler not found")
    # membership tests `GIT_PATH in <path>.split('/')`
    mem = []
    for t in [x for x in cfg.nodes if x.kind == "test"]:
        e = t.ast
        if isinstance(e, ast.Compare) and len(e.ops) == 1 and isinstance(e.ops[0], (ast.In, ast.NotIn)):
            rhs = e.comparators[0]
            if ctx.P.try_fold(f.module, e.left) == ".git" and isinstance(rhs, ast.Call) and isinstance(rhs.func, ast.Attribute) and rhs.func.attr == "split" \
                    and "path" in src(rhs.func.value) and (not rhs.args or ctx.P.try_fold(f.module, rhs.args[0]) == "/"
                                                            or (dotted(rhs.args[0]) or "").endswith(".sep")):
                mem.append((t, "f" if isinstance(e.ops[0], ast.In) else "t"))
    # the same decision taken with `<path>.split('/').index(GIT_PATH)` / ValueError: the 'not found' side is the exceptional edge
    idx_blocked = []
    du_ = DefUse(cfg)
    from ..dataflow import origins as _origins
    for n_ in cfg.stmt_nodes():
        for c_ in n_.calls():
            if isinstance(c_.func, ast.Attribute) and c_.func.attr == "index" and c_.args \
                    and ctx.P.try_fold(ctx.module_at(f, n_), c_.args[0]) == ".git":
                ro = _origins(du_, n_, c_.func.value)
                if ro and all(o.kind == "expr" and isinstance(o.leaf, ast.Call) and isinstance(o.leaf.func, ast.Attribute) and o.leaf.func.attr == "split" for o in ro):
                    for m_, l in n_.succ:
                        if l == "exc" and m_.kind == "handler" and m_.ast.type is not None and "ValueError" in src(m_.ast.type):
                            idx_blocked.append((n_, m_, l))
    # the WSGI-only switch (`start_response` is None under aiohttp, which has no git exporter)
    wsgi = [(t, "f") for t in cfg.nodes if t.kind == "test" and isinstance(t.ast, ast.Name) and t.ast.id in f.params]
    for n in sup:
        ok = False
        if mem or idx_blocked:
            blocked = [(t, m_, l) for t, lab in mem + wsgi for m_, l in t.succ if l == lab] + idx_blocked
            ok = n.id not in cfg.reachable([cfg.entry], block_edges=blocked)
        obs.append(ctx.ob(ok, f.qualname, where(f, n), "DAV handler unreachable for WSGI paths with a .git component",
                          "reached only if GIT_PATH not in request.path.split('/')",
                          "the WebDAV handler can be reached although the request path has a `.git` component (the routing test is not "
                          "`'.git' in request.path.split('/')`): a request for `<collection>/.git` can create, modify or delete files inside the repository"))
    return obs


@rule("C09", "K12", floor=2, kind="N",
      desc="DELETE acts on members only: it needs the ETag of the addressed resource (the DeleteMethod obligations of "
           "C03/P2) - a directory inside a bare repository has none, so the request fails instead of reaching the rmtree "
           "fallback")
def k12(ctx):
    from .c03 import p2
    return [o for o in p2(ctx) if "DeleteMethod" in o.construct]


@rule("C09", "K13", floor=5, kind="N",
      desc="index, HEAD and working tree agree after a request that failed: the index lock is aborted on the error path, "
           "never closed (= renamed over the index) (same obligations as C04/B3)")
def k13(ctx):
    from .c04 import b3
    return b3(ctx)


@rule("C09", "K14", floor=4, kind="N",
      desc="the head tree lists exactly the members: the only name the listers hide is the metadata file, by equality "
           "(same obligations as C01/H2 and C01/H6) - a substring test (`name in '.xandikos'`) hides members named 'kos' or 'a', "
           "which are committed and never listed")
def k14(ctx):
    from .c01 import h2, skip_obligations
    return list(h2(ctx)) + list(skip_obligations(ctx))
