"""C10 — query results do not depend on the query history (index transparency)."""

from __future__ import annotations

import ast
import re
from typing import Dict, List, Set

from ..core import rule
from ..dataflow import DefUse, origins
from ..program import AnalysisError, dotted, src
from ..core import walk_local  # inline-aware
from .common import handler_catching, handler_body_nodes, where

ICAL = "xandikos.icalendar"
PREFIX_RE = re.compile(r"^[A-Z]=$")


_FOLD = [None]   # (module -> fold) set per run: lets the syntax helpers fold module-level constants such as PREFIX = "C="


def _strconst(n: ast.AST, mod=None, cls=None):
    if isinstance(n, ast.Constant) and isinstance(n.value, str):
        return n.value
    if isinstance(n, ast.Attribute) and isinstance(n.value, ast.Name) and n.value.id in ("self", "cls") and cls is not None:
        # a class-level constant of the filter class (e.g. index_prefix = "C=")
        for c in cls.mro:
            v = c.attrs.get(n.attr)
            if isinstance(v, ast.Constant) and isinstance(v.value, str):
                return v.value
            if v is not None:
                break
    if isinstance(n, (ast.Name, ast.Attribute)) and _FOLD[0] is not None and mod is not None:
        v = _FOLD[0](mod, n)
        if isinstance(v, str):
            return v
    return None


def key_prefixes(fn_node: ast.AST, mod=None, cls=None) -> Set[str]:
    """Segment prefixes ("C=", "P=", "A=") a function concatenates into index keys."""
    out = set()
    for n in [fn_node] + list(walk_local(fn_node)):
        if isinstance(n, ast.BinOp) and isinstance(n.op, ast.Add):
            for side in (n.left, n.right):
                v = _strconst(side, mod, cls)
                if v is not None and PREFIX_RE.match(v):
                    out.add(v)
        if isinstance(n, ast.JoinedStr):
            for v in n.values:
                if isinstance(v, ast.Constant) and isinstance(v.value, str):
                    m = re.match(r"^([A-Z]=)", v.value)
                    if m:
                        out.add(m.group(1))
    return out


def handled_prefixes(fn_node: ast.AST, mod=None) -> Set[str]:
    out = set()
    # prefix literals given a name inside the function (`comp_prefix = "C="`), assigned once
    local_consts, seen = {}, {}
    for n in walk_local(fn_node):
        if isinstance(n, ast.Assign) and len(n.targets) == 1 and isinstance(n.targets[0], ast.Name):
            seen[n.targets[0].id] = seen.get(n.targets[0].id, 0) + 1
            if isinstance(n.value, ast.Constant) and isinstance(n.value.value, str):
                local_consts[n.targets[0].id] = n.value.value
    for n in walk_local(fn_node):
        if isinstance(n, ast.Call) and isinstance(n.func, ast.Attribute) and n.func.attr == "startswith" and n.args:
            v = _strconst(n.args[0], mod)
            if v is None and isinstance(n.args[0], ast.Name) and seen.get(n.args[0].id) == 1:
                v = local_consts.get(n.args[0].id)
            if v is not None and PREFIX_RE.match(v):
                out.add(v)
    return out


def filter_classes(ctx):
    m = ctx.P.module(ICAL)
    return [c for c in m.classes.values() if "index_keys" in c.methods or "match_indexes" in c.methods]


@rule("C10", "X1", floor=3, kind="S",
      desc="key grammar agreement: every segment prefix an index_keys() method can produce is handled by "
           "ICalendarFile._get_index")
def x1(ctx):
    _FOLD[0] = ctx.P.try_fold
    ex = ctx.own_method(ICAL + ".ICalendarFile", "_get_index")
    handled = handled_prefixes(ex.node, ex.module)
    if not handled:
        raise AnalysisError("ICalendarFile._get_index handles no prefix")
    obs = []
    produced: Dict[str, List[str]] = {}
    for ci in filter_classes(ctx):
        ik = ci.methods.get("index_keys")
        if ik is None:
            continue
        ctx.functions_analysed.add(ik.qualname)
        for p in key_prefixes(ik.node, ik.module, ik.cls):
            produced.setdefault(p, []).append(ik.qualname)
    if len(produced) < 2:
        raise AnalysisError("index_keys methods produce only %s" % sorted(produced))
    for p, who in sorted(produced.items()):
        for q in who:
            f = ctx.func(q)
            obs.append(ctx.ob(p in handled, q, f.where, "prefix %s understood by the extractor" % p,
                              "_get_index handles %s" % sorted(handled),
                              "%s yields index keys with a %r segment, but ICalendarFile._get_index only understands %s and raises "
                              "AssertionError for anything else: once the indexing threshold is passed, a query using this filter fails"
                              % (f.short, p, sorted(handled))))
    return obs


@rule("C10", "X2", floor=3, kind="S",
      desc="consumer within producer: the key prefixes a filter class reads in match_indexes are among those its own "
           "index_keys yields")
def x2(ctx):
    obs = []
    for ci in filter_classes(ctx):
        ik, mi = ci.methods.get("index_keys"), ci.methods.get("match_indexes")
        if ik is None or mi is None:
            continue
        _FOLD[0] = ctx.P.try_fold
        pk, ck = key_prefixes(ik.node, ik.module, ik.cls), key_prefixes(mi.node, mi.module, mi.cls)
        if not ck:
            continue
        ctx.functions_analysed.update([ik.qualname, mi.qualname])
        obs.append(ctx.ob(ck <= pk, mi.qualname, mi.where, "match_indexes reads only keys index_keys produces",
                          "reads %s, produces %s" % (sorted(ck), sorted(pk)),
                          "%s.match_indexes subscripts keys with prefix %s which %s.index_keys never yields: the lookup raises KeyError "
                          "or reads an index that is never filled" % (ci.name, sorted(ck - pk), ci.name)))
    return obs


@rule("C10", "X3", floor=1, kind="S",
      desc="the index path quantifies like the naive path: a matcher that combines several keys must not collapse a "
           "multi-valued index entry to its first element")
def x3(ctx):
    obs = []
    n_multi = 0
    for ci in filter_classes(ctx):
        ik, mi = ci.methods.get("index_keys"), ci.methods.get("match_indexes")
        if ik is None or mi is None:
            continue
        # does index_keys yield >= 2 keys?  (a list/comprehension over several props, or several yields)
        multi = False
        for n in ast.walk(ik.node):
            if isinstance(n, (ast.ListComp, ast.GeneratorExp)):
                multi = True
            if isinstance(n, ast.For):
                multi = True
        ys = [n for n in ast.walk(ik.node) if isinstance(n, (ast.Yield, ast.YieldFrom))]
        if len(ys) >= 2:
            multi = True
        if not multi:
            continue
        n_multi += 1
        ctx.functions_analysed.add(mi.qualname)
        # constant subscript on a value that flows from the indexes parameter
        idx_param = mi.params[1] if len(mi.params) > 1 else "indexes"
        tainted = {idx_param}
        changed = True
        while changed:
            changed = False
            for n in ast.walk(mi.node):
                tgts, val = [], None
                if isinstance(n, ast.Assign):
                    tgts, val = n.targets, n.value
                elif isinstance(n, ast.AnnAssign) and n.value is not None:
                    tgts, val = [n.target], n.value
                elif isinstance(n, (ast.For, ast.comprehension)):
                    tgts, val = [n.target], n.iter
                elif isinstance(n, ast.Expr) and isinstance(n.value, ast.Call) and isinstance(n.value.func, ast.Attribute) \
                        and n.value.func.attr in ("append", "extend", "add", "setdefault"):
                    # x.setdefault(k, []).append(v)
                    root = n.value.func.value
                    while isinstance(root, (ast.Call, ast.Attribute)):
                        root = root.func if isinstance(root, ast.Call) else root.value
                    tgts, val = [root], n.value
                if val is None:
                    continue
                if {x.id for x in ast.walk(val) if isinstance(x, ast.Name)} & tainted:
                    for t in tgts:
                        for x in ast.walk(t):
                            if isinstance(x, ast.Name) and x.id not in tainted:
                                tainted.add(x.id)
                                changed = True
        hits = []
        for n in ast.walk(mi.node):
            if isinstance(n, ast.Subscript) and isinstance(n.slice, ast.Constant) and isinstance(n.slice.value, int) \
                    and isinstance(n.value, ast.Name) and n.value.id in tainted:
                hits.append(n)
        obs.append(ctx.ob(not hits, mi.qualname, mi.where, "no first-element collapse of multi-valued index entries",
                          "no constant subscript on index values",
                          "%s.match_indexes takes `%s` of a multi-valued index entry (one value per component) and evaluates the filter on "
                          "that single combination, while the naive path is existential over components: a resource with several "
                          "components of the type changes its result once the index is in use" % (ci.name, src(hits[0]) if hits else "")))
    if n_multi < 1:
        raise AnalysisError("no multi-key matcher found (confirmed: ComponentTimeRangeMatcher)")
    return obs


STORE = "xandikos.store.Store"


@rule("C10", "X4", floor=3, kind="S",
      desc="an index miss computes all available keys, and the index is keyed by the content id listed with the name")
def x4(ctx):
    fi = ctx.own_method(STORE, "_iter_with_filter_indexes")
    cfg = ctx.cfg(fi)
    du = DefUse(cfg)
    obs = []
    adds = [(n, c) for n in cfg.stmt_nodes() for c in n.calls() if dotted(c.func) == "self.index.add_values"]
    gets = [(n, c) for n in cfg.stmt_nodes() for c in n.calls() if dotted(c.func) == "self.index.get_values"]
    if not adds or not gets:
        raise AnalysisError("_iter_with_filter_indexes: add_values/get_values call not found")
    for n, c in adds:
        v = c.args[2] if len(c.args) > 2 else None
        ok = False
        if isinstance(v, ast.Name):
            defs = du.reaching(n, v.id)
            srcs = [d for d in defs if not (isinstance(d.value, ast.Dict) and not d.value.keys)]
            ok = bool(srcs) and all(isinstance(d.value, ast.Call) and isinstance(d.value.func, ast.Attribute) and d.value.func.attr == "get_indexes"
                                    and d.value.args and isinstance(d.value.args[0], ast.Call)
                                    and dotted(d.value.args[0].func) == "self.index.available_keys" for d in srcs)
        obs.append(ctx.ob(ok, fi.qualname, where(fi, n), "add_values stores values for all available keys",
                          "values come from file.get_indexes(self.index.available_keys())",
                          "`%s` stores index values that were not computed for all available keys: a later filter reads [] for keys "
                          "that were never computed for this file" % src(c)))
    # name/etag of both calls come from the same iter_with_etag tuple
    for n, c in adds + gets:
        a0, a1 = (c.args + [None, None])[:2]
        ok = False
        if a0 is not None and a1 is not None:
            # elements 0 and 2 of one and the same item of self.iter_with_etag() - bound by the loop header, by a later
            # unpacking of the item, or read from the record the listing yields
            o0, o1 = origins(du, n, a0), origins(du, n, a1)
            def listed(os_, comp):
                return bool(os_) and all(o.kind == "elem" and tuple(o.path) == (comp,) and isinstance(o.leaf, ast.Call)
                                         and dotted(o.leaf.func) == "self.iter_with_etag" for o in os_)
            ok = listed(o0, 0) and listed(o1, 2) and len({id(o.node) for o in o0 + o1}) == 1
        obs.append(ctx.ob(ok, fi.qualname, where(fi, n), "%s keyed by the listed (name, etag)" % c.func.attr,
                          "name and etag are elements 0 and 2 of one iter_with_etag() tuple",
                          "`%s` is not keyed by the name/etag pair of the current listing tuple: a write could leave a stale index entry" % src(c)))
    return obs


@rule("C10", "X5", floor=3, kind="S",
      desc="changing the key set empties the index; an etag is marked indexed only after its values are stored")
def x5(ctx):
    obs = []
    rs = ctx.own_method("xandikos.store.index.MemoryIndex", "reset")
    # the tables add_values fills (whatever they are called and however they are organised) ...
    av0 = ctx.own_method("xandikos.store.index.MemoryIndex", "add_values")

    def self_attr(e):
        """`self.X` at the root of a subscript / attribute chain."""
        while isinstance(e, (ast.Subscript, ast.Call)):
            e = e.value if isinstance(e, ast.Subscript) else e.func
        d = dotted(e)
        if d and d.startswith("self.") :
            return ".".join(d.split(".")[:2])
        return None

    filled = set()
    for n in walk_local(av0.node):
        if isinstance(n, (ast.Assign, ast.AugAssign)):
            for t in (n.targets if isinstance(n, ast.Assign) else [n.target]):
                if isinstance(t, ast.Subscript) and self_attr(t):
                    filled.add(self_attr(t))
        if isinstance(n, ast.Call) and isinstance(n.func, ast.Attribute) and n.func.attr in ("add", "setdefault", "update", "append", "extend", "__setitem__"):
            a_ = self_attr(n.func.value)
            if a_:
                filled.add(a_)
    if len(filled) < 2:
        raise AnalysisError("MemoryIndex.add_values: expected a values table and an 'indexed etags' table, found %s" % sorted(filled))
    # ... are all re-initialised by reset
    assigned = set()
    for n in walk_local(rs.node):
        if isinstance(n, (ast.Assign, ast.AnnAssign)):
            for t in (n.targets if isinstance(n, ast.Assign) else [n.target]):
                d = dotted(t)
                if d in filled:
                    assigned.add(d)
        if isinstance(n, ast.Call) and isinstance(n.func, ast.Attribute) and n.func.attr == "clear" and dotted(n.func.value) in filled:
            assigned.add(dotted(n.func.value))
    obs.append(ctx.ob(assigned == filled, rs.qualname, rs.where, "reset re-initialises both tables",
                      "reset clears %s" % sorted(assigned),
                      "MemoryIndex.reset leaves %s untouched: after the key set changes, old entries (computed for the old key set) are "
                      "served for the new keys" % sorted(filled - assigned)))
    av = ctx.own_method("xandikos.store.index.MemoryIndex", "add_values")
    cfg = ctx.cfg(av)
    marks = [n for n in cfg.stmt_nodes() for c in n.calls() if dotted(c.func) == "self._in_index.add"]
    stores = [n for n in cfg.stmt_nodes() if n.kind == "stmt" and isinstance(n.ast, ast.Assign) and any(isinstance(t, ast.Subscript) for t in n.ast.targets)]
    loops = [n for n in cfg.nodes if n.kind == "for"]
    ok = bool(marks) and bool(stores) and bool(loops) and all(
        m.id in cfg.reachable([x for x, l in loops[0].succ if l == "done"]) and m.id not in cfg.reachable([x for x, l in loops[0].succ if l == "loop"], block_nodes=[loops[0]])
        for m in marks)
    obs.append(ctx.ob(ok, av.qualname, av.where, "etag marked as indexed after the values are stored",
                      "self._in_index.add(etag) follows the loop that stores the values",
                      "add_values marks the etag as indexed before (or without) storing all its values"))
    gv = ctx.own_method("xandikos.store.index.MemoryIndex", "get_values")
    cfgg = ctx.cfg(gv)
    raises = [n for n in cfgg.nodes if n.kind == "raise" and n.extra.get("exc") == "KeyError"]
    okg = False
    for r in raises:
        for t, pol in cfgg.required_conditions(r):
            if isinstance(t, ast.Compare) and isinstance(t.ops[0], ast.NotIn) and pol and dotted(t.comparators[0]) == "self._in_index":
                okg = True
    obs.append(ctx.ob(okg, gv.qualname, gv.where, "unknown etag is a miss, not an empty hit",
                      "get_values raises KeyError when the etag is not in _in_index",
                      "get_values no longer raises KeyError for an etag that was never indexed: it answers with empty values"))
    return obs


@rule("C10", "X7", floor=1, kind="S",
      desc="sibling error handling: after an unparseable member was caught on the index path it is skipped, as on "
           "the naive path, and the filter is not evaluated on made-up empty values")
def x7(ctx):
    obs = []
    naive = ctx.own_method(STORE, "_iter_with_filter_naive")
    idx = ctx.own_method(STORE, "_iter_with_filter_indexes")
    cfgn = ctx.cfg(naive)
    # naive: InvalidFileContents handler continues the loop without yielding
    skip_naive = False
    for h in cfgn.handlers:
        if h.types and "InvalidFileContents" in h.types:
            body = handler_body_nodes(cfgn, h)
            if not any(isinstance(b.ast, ast.Expr) and isinstance(getattr(b.ast, "value", None), ast.Yield) for b in body if b.ast is not None):
                skip_naive = True
    if not skip_naive:
        raise AnalysisError("naive iteration no longer skips unparseable members; the reference behaviour for X7 is gone")
    # ... and goes on with the next member: from the handler the listing loop is reached again
    for h in cfgn.handlers:
        if h.types and "InvalidFileContents" in h.types:
            loops_n = [n for n in cfgn.nodes if n.kind == "for"]
            back = cfgn.reachable([h.entry])
            again = any(lp.id in back for lp in loops_n)
            obs.append(ctx.ob(again, naive.qualname, where(naive, h.entry), "an unparseable member is skipped, the scan goes on",
                              "the handler is inside the loop over the listing",
                              "the `except InvalidFileContents` of the naive scan is outside the loop over the members: one unparseable "
                              "file ends the scan, every member listed after it is missing from the answer until the index takes over"))
    cfg = ctx.cfg(idx)
    hs = [h for h in cfg.handlers if h.types and "InvalidFileContents" in h.types]
    if not hs:
        obs.append(ctx.bad(idx.qualname, idx.where, "unparseable member handled on the index path",
                           "_iter_with_filter_indexes does not catch InvalidFileContents at all: one unparseable member fails the query"))
        return obs
    for h in hs:
        # after the handler: is check_from_indexes evaluated on this member?
        after = cfg.reachable([h.entry])
        checks = [n for n in cfg.nodes if n.id in after and any(isinstance(c.func, ast.Attribute) and c.func.attr == "check_from_indexes" for c in n.calls())]
        # stop at the loop head: only this iteration counts
        loops = [n for n in cfg.nodes if n.kind == "for"]
        after1 = cfg.reachable([h.entry], block_nodes=loops)
        checks = [n for n in checks if n.id in after1]
        obs.append(ctx.ob(not checks, idx.qualname, where(idx, h.entry), "unparseable member skipped on the index path",
                          "the handler leaves the iteration like the naive path does",
                          "after catching InvalidFileContents the index path goes on to evaluate `%s` on empty values (naive iteration "
                          "skips such a member): the first query that takes the index path raises KeyError, and is-not-defined filters "
                          "then match the unparseable member" % (checks[0].text()[:60] if checks else "")))
    return obs


@rule("C10", "X6", floor=1, kind="S",
      desc="per-key-group state in AutoIndexManager.find_present_keys is reset on every iteration (no value carried "
           "over from the previous key group)")
def x6(ctx):
    from .common import carried_uses
    fi = ctx.own_method("xandikos.store.index.AutoIndexManager", "find_present_keys")
    cfg = ctx.cfg(fi)
    from ..dataflow import DefUse, origins
    du = DefUse(cfg)
    outer = [n for n in cfg.nodes if n.kind == "for" and not n.extra.get("inlined_from")
             and all(o.kind == "param" and o.name == fi.params[1] for o in origins(du, n, n.ast.iter))]
    if not outer:
        raise AnalysisError("find_present_keys: loop over the necessary keys not found")
    lp = outer[0]
    obs = []
    # per-group state: every local name assigned inside the loop body (accumulators are only extended through
    # method calls and are not assigned there; the loop targets are rebound by the loop itself)
    from .common import loop_body_nodes
    from ..dataflow import _targets
    body = loop_body_nodes(cfg, lp)
    flags = set()
    for n in cfg.nodes:
        if n.id in body and n.kind == "stmt" and isinstance(n.ast, (ast.Assign, ast.AnnAssign, ast.AugAssign)):
            tgts = n.ast.targets if isinstance(n.ast, ast.Assign) else [n.ast.target]
            for t in tgts:
                for nm, _idx in _targets(t):
                    if "." not in nm and not nm.startswith("__ret_"):
                        flags.add(nm)
    if not flags:
        obs.append(ctx.ok(fi.qualname, where(fi, lp), "no per-group state", "nothing is assigned inside the loop over the key groups"))
    # the decision "this group is not in the index" is taken from what was found for THIS group: every variable of the
    # test that guards the group's hand-over to the missing keys is (re)assigned inside the iteration or is the group itself
    loop_vars = {x.id for x in ast.walk(lp.ast.target) if isinstance(x, ast.Name)}
    by_ast = {}
    for n in cfg.nodes:
        if n.kind == "test":
            by_ast.setdefault(id(n.ast), n)
    for n in cfg.nodes:
        if n.id not in body:
            continue
        for c in n.calls():
            if isinstance(c.func, ast.Attribute) and c.func.attr in ("extend", "update", "append", "add") and c.args \
                    and isinstance(c.args[0], ast.Name) and c.args[0].id in loop_vars:
                for t, _pol in cfg.required_conditions(n):
                    tn = by_ast.get(id(t))
                    if tn is None or tn.id not in body:
                        continue
                    stale = sorted(x.id for x in ast.walk(t) if isinstance(x, ast.Name) and isinstance(x.ctx, ast.Load)
                                   and x.id not in flags and x.id not in loop_vars and x.id not in ("self", "len", "any", "all", "set", "bool", "not")
                                   and not ctx.P.try_fold(fi.module, x))
                    obs.append(ctx.ob(not stale, fi.qualname, where(fi, tn), "missing-group decision uses this group's state",
                                      "`%s` depends on values of the current iteration only" % src(t)[:40],
                                      "whether a key group is handed to the missing keys is decided by `%s`, but `%s` is not (re)set per group: "
                                      "once an earlier group was found every later group counts as present, and the filter is answered from an "
                                      "index that lacks its keys" % (src(t)[:50], ", ".join(stale))))
    for v in sorted(flags):
        cu = carried_uses(cfg, lp, v)
        obs.append(ctx.ob(not cu, fi.qualname, where(fi, lp), "flag `%s` is reset for every key group" % v,
                          "every use of `%s` in the loop is preceded by an assignment in the same iteration" % v,
                          "`%s` is tested at line %d with a value that can come from the previous key group (it is not reset inside the loop): once "
                          "one group is found in the index every later group is treated as present, and the filter is answered from an index that "
                          "lacks its keys" % (v, cu[0].lineno if cu else 0)))
    return obs


@rule("C10", "X8", floor=2, kind="S",
      desc="index extraction visits every component: the loops of ICalendarFile._get_index have no early exit "
           "(a `return`/`break` in the generator's loop drops the values of all later components)")
def x8(ctx):
    from .common import loop_body_nodes
    fi = ctx.own_method(ICAL + ".ICalendarFile", "_get_index")
    cfg = ctx.cfg(fi)
    # for-loops and while-loops (a test node that can be reached again from its own true edge)
    loops = [n for n in cfg.nodes if n.kind == "for"] + \
        [n for n in cfg.nodes if n.kind == "test" and n.id in cfg.reachable([m for m, l in n.succ if l == "t"], follow_exc=False)]
    if len(loops) < 2:
        raise AnalysisError("_get_index: component loops not found")
    obs = []
    for lp in loops:
        body = loop_body_nodes(cfg, lp)
        exits = [n for n in cfg.nodes if n.id in body and (n.kind == "return" or (n.kind == "stmt" and isinstance(n.ast, ast.Break)))]
        obs.append(ctx.ob(not exits, fi.qualname, where(fi, lp), "loop `%s` has no early exit" % lp.text()[:40], "every element is visited",
                          "`%s` inside the loop `%s` ends the extraction at the first element that takes this path: index values of later components "
                          "are missing, so a resource whose matching component comes later disappears from index-based results"
                          % (exits[0].text()[:30] if exits else "", lp.text()[:40])))
    return obs


@rule("C10", "X9", floor=1, kind="S",
      desc="ComponentTimeRangeMatcher needs every property it reads: its index_keys yields one singleton group per "
           "property (an OR-group would let find_present_keys accept an index that lacks some of them)")
def x9(ctx):
    fi = ctx.own_method(ICAL + ".ComponentTimeRangeMatcher", "index_keys")
    obs = []
    groups = []
    for n in ast.walk(fi.node):
        if isinstance(n, ast.Return) and n.value is not None:
            v = n.value
            if isinstance(v, ast.ListComp):
                groups.append((n, v.elt))
            elif isinstance(v, (ast.List, ast.Tuple)):
                for e in v.elts:
                    groups.append((n, e))
            else:
                raise AnalysisError("ComponentTimeRangeMatcher.index_keys returns an unmodelled expression: %s" % src(v))
        if isinstance(n, ast.Yield) and n.value is not None:
            groups.append((n, n.value))
    if not groups:
        raise AnalysisError("ComponentTimeRangeMatcher.index_keys: no key groups found")
    bad = [(n, g) for n, g in groups if not (isinstance(g, (ast.List, ast.Tuple)) and len(g.elts) == 1)]
    obs.append(ctx.ob(not bad, fi.qualname, fi.where, "every key group is a singleton", "%d group expression(s), all singletons" % len(groups),
                      "index_keys yields the group `%s`: find_present_keys treats a group as satisfied when ONE of its keys is indexed, but match_indexes "
                      "evaluates the time range from all of them - depending on which key an earlier query got indexed, events are evaluated without their "
                      "DTEND/DURATION" % (src(bad[0][1]) if bad else "")))
    return obs


def _lookup_failed(cfg, du, r):
    """Reaching *r* implies that the lookup in ``component_handlers`` found nothing: a `K not in handlers` test,
    or a None / falsy test on a value that comes from ``handlers.get(K)``."""
    from ..dataflow import origins
    by_ast = {}
    for n in cfg.nodes:
        if n.kind == "test":
            by_ast.setdefault(id(n.ast), n)
    for t, pol in cfg.required_conditions(r):
        tn = by_ast.get(id(t))
        if isinstance(t, ast.Compare) and len(t.ops) == 1:
            op, rhs = t.ops[0], t.comparators[0]
            if isinstance(op, (ast.In, ast.NotIn)) and "component_handlers" in src(rhs):
                if isinstance(op, ast.NotIn) == pol:
                    return True
                continue
            if isinstance(rhs, ast.Constant) and rhs.value is None and isinstance(op, (ast.Is, ast.IsNot)):
                x, none_pol = t.left, (pol if isinstance(op, ast.Is) else not pol)
            else:
                continue
        elif isinstance(t, ast.UnaryOp) and isinstance(t.op, ast.Not):
            x, none_pol = t.operand, pol
        elif isinstance(t, ast.Name):
            x, none_pol = t, not pol
        else:
            continue
        if not none_pol or tn is None:
            continue
        os_ = origins(du, tn, x)
        if os_ and all(o.kind == "expr" and isinstance(o.leaf, ast.Call) and isinstance(o.leaf.func, ast.Attribute)
                       and o.leaf.func.attr == "get" and "component_handlers" in src(o.leaf.func.value)
                       and (len(o.leaf.args) == 1 or (isinstance(o.leaf.args[1], ast.Constant) and o.leaf.args[1].value is None))
                       for o in os_):
            return True
    return False


@rule("C10", "X10", floor=3, kind="S",
      desc="the index evaluators have no shortcut the naive evaluators lack: ComponentTimeRangeMatcher.match_indexes "
           "answers with the RFC 4791 s.9.9 handler (False only for an unknown component type, as match() does), and "
           "ComponentFilter.match_indexes answers True without looking at the component's presence marker only when a "
           "child already requires the component")
def x10(ctx):
    from ..dataflow import DefUse, origins
    from .common import handler_catching
    obs = []
    fi = ctx.own_method(ICAL + ".ComponentTimeRangeMatcher", "match_indexes")
    cfg = ctx.cfg(fi)
    du = DefUse(cfg)
    rets = [n for n in cfg.nodes if n.kind == "return"]
    if not rets:
        raise AnalysisError("ComponentTimeRangeMatcher.match_indexes has no return")
    for r in rets:
        v = r.ast.value
        os_ = origins(du, r, v) if v is not None else []
        via_handler = bool(os_) and all(
            o.kind == "expr" and isinstance(o.leaf, ast.Call) and any(
                ho.leaf is not None and "component_handlers" in src(ho.leaf) for ho in origins(du, o.node, o.leaf.func))
            for o in os_)
        const_false = isinstance(v, ast.Constant) and v.value is False
        in_unknown_comp = (r.handler is not None and r.handler.types is not None and "KeyError" in r.handler.types) \
            or _lookup_failed(cfg, du, r)
        ok = via_handler or (const_false and in_unknown_comp)
        obs.append(ctx.ob(ok, fi.qualname, where(fi, r), "time-range result comes from the section 9.9 handler",
                          "`%s`" % (src(v) if v is not None else "return"),
                          "ComponentTimeRangeMatcher.match_indexes answers `%s` without consulting the RFC 4791 section 9.9 handler for the component "
                          "(match() only does that for an unknown component type): e.g. a VTODO without any time property matches every range on "
                          "the naive path but drops out once the query is answered from the index" % (src(v) if v is not None else "None")))
    cf = ctx.own_method(ICAL + ".ComponentFilter", "match_indexes")
    cfg = ctx.cfg(cf)
    trues = [n for n in cfg.nodes if n.kind == "return" and isinstance(n.ast.value, ast.Constant) and n.ast.value.value is True]
    if not trues:
        # merged form: `return self._implicitly_defined() or bool(indexes[key])`
        merged = [n for n in cfg.nodes if n.kind == "return" and isinstance(n.ast.value, ast.BoolOp) and isinstance(n.ast.value.op, ast.Or)
                  and any(isinstance(v_, ast.Call) and (dotted(v_.func) or "").endswith("_implicitly_defined") for v_ in n.ast.value.values)
                  and any(isinstance(x_, ast.Subscript) for v_ in n.ast.value.values for x_ in ast.walk(v_))]
        if not merged:
            raise AnalysisError("ComponentFilter.match_indexes: `return True` not found")
        for r in merged:
            obs.append(ctx.ok(cf.qualname, where(cf, r), "True without presence check only if a child requires the component",
                              "`%s`" % src(r.ast.value)[:70]))
    for r in trues:
        req = cfg.required_conditions(r)
        ok = any(pol and isinstance(t, ast.Call) and (dotted(t.func) or "").endswith("_implicitly_defined") for t, pol in req)
        obs.append(ctx.ob(ok, cf.qualname, where(cf, r), "True without presence check only if a child requires the component",
                          "`return True` requires self._implicitly_defined()",
                          "ComponentFilter.match_indexes can answer True although nothing established that the component exists (the presence marker "
                          "indexes[\"C=<name>\"] is skipped when `%s`): resources without such a component are returned once the index is in use"
                          % " and ".join(("" if pol else "not ") + src(t) for t, pol in req if "self." in src(t))))
    # per-value evaluators: the indexed answer is "some indexed value matches", decided by the very match() the naive path
    # uses - nothing is applied to the aggregate afterwards (a negation over `any([])` turns 'property absent' into a match)
    for cq in (ICAL + ".TextMatcher", ICAL + ".PropertyTimeRangeMatcher"):
        mi = ctx.own_method(cq, "match_indexes")
        mcfg = ctx.cfg(mi)
        mdu = DefUse(mcfg)
        mrets = [n for n in mcfg.nodes if n.kind == "return"]
        if not mrets:
            raise AnalysisError("%s.match_indexes has no return" % cq)
        uses_match = any(dotted(c.func) == "self.match" for n in mcfg.stmt_nodes() for c in n.calls()) or \
            any(n.kind == "test" and isinstance(n.ast, ast.Call) and dotted(n.ast.func) == "self.match" for n in mcfg.nodes)
        bad_ret = None
        for r in mrets:
            v = r.ast.value
            for o in (origins(mdu, r, v) if v is not None else []):
                lf = o.leaf
                if o.kind == "expr" and isinstance(lf, ast.Constant) and isinstance(lf.value, bool):
                    continue
                if o.kind == "expr" and isinstance(lf, ast.Call) and dotted(lf.func) == "self.match":
                    continue
                bad_ret = src(lf) if lf is not None else o.kind
        obs.append(ctx.ob(uses_match and bad_ret is None, mi.qualname, mi.where, "indexed answer = any(self.match(value))",
                          "some indexed value satisfies match(); nothing is applied to the aggregate",
                          "%s.match_indexes answers `%s`: the result of the per-value match() is post-processed (or match() is bypassed), so a resource "
                          "whose component lacks the property - an empty value list - can satisfy the filter on the index path although the naive "
                          "path requires the property to exist" % (cq.split(".")[-1], bad_ret or "without calling self.match")))
    return obs


@rule("C10", "X11", floor=2, kind="N",
      desc="the index is keyed by content: the ETag under which index values are stored identifies the bytes they were "
           "computed from (the vdir obligations of C02/E3) - with an ETag taken from stat() the indexed path answers from "
           "the values of a previous content")
def x11(ctx):
    from .c02 import e3
    return [o for o in e3(ctx) if "VdirStore" in o.construct]


@rule("C10", "X12", floor=3, kind="S",
      desc="both evaluation paths yield, for each listed name, the file and etag of that name (same obligations as C01/H4 "
           "on the two filter loops)")
def x12(ctx):
    from .common import per_item_obligations
    return per_item_obligations(ctx, ["xandikos.store.Store._iter_with_filter_indexes", "xandikos.store.Store._iter_with_filter_naive"])


def index_presence_obligations(ctx):
    """A property is indexed when it is present, whatever its value: in ICalendarFile._get_index the value of a property
    is yielded under a presence test (`is not None`, KeyError), never under a truthiness test of the parsed value
    (PRIORITY:0, an empty SUMMARY: are present - the naive path finds them)."""
    f = ctx.own_method(ICAL + ".ICalendarFile", "_get_index")
    cfg = ctx.cfg(f)
    du = DefUse(cfg)
    obs = []
    by_ast = {}
    for n in cfg.nodes:
        if n.kind == "test":
            by_ast.setdefault(id(n.ast), n)
    ys = [n for n in cfg.stmt_nodes() if n.kind == "stmt" and isinstance(n.ast, ast.Expr) and isinstance(n.ast.value, ast.Yield)
          and isinstance(n.ast.value.value, ast.Call) and isinstance(n.ast.value.value.func, ast.Attribute) and n.ast.value.value.func.attr == "to_ical"]
    if not ys:
        raise AnalysisError("ICalendarFile._get_index: `yield <property>.to_ical()` not found")
    for y in ys:
        pv = y.ast.value.value.func.value
        mine = {(o.kind, id(o.leaf), tuple(o.path)) for o in origins(du, y, pv)}
        truthy = []
        for t, pol in cfg.required_conditions(y):
            x = t.operand if isinstance(t, ast.UnaryOp) and isinstance(t.op, ast.Not) else t
            if isinstance(x, (ast.Name, ast.Attribute, ast.Subscript)) and id(t) in by_ast:
                if {(o.kind, id(o.leaf), tuple(o.path)) for o in origins(du, by_ast[id(t)], x)} == mine:
                    truthy.append(src(t))
        obs.append(ctx.ob(not truthy, f.qualname, where(f, y), "property value indexed whenever the property is present",
                          "yield under `is not None` / KeyError only",
                          "`%s` is reached only if `%s` is truthy: a property whose parsed value is falsy (0, empty text) is treated as "
                          "absent by the index, while the naive path sees it" % (src(y.ast.value)[:40], " and ".join(truthy))))
    return obs


@rule("C10", "X13", floor=1, kind="S",
      desc="present means present: _get_index yields the value of every property that exists, not only of those whose "
           "parsed value is truthy")
def x13(ctx):
    return index_presence_obligations(ctx)


@rule("C10", "X14", floor=5, kind="N",
      desc="index values stored under an etag are those of the blob with that etag: the tree store reads members by "
           "object id, never from the working-tree file (same obligations as C04/B2) - a file that a failed or running "
           "write left behind would be indexed under the old etag and answer queries until restart")
def x14(ctx):
    from .c04 import b2
    return b2(ctx)


@rule("C10", "X15", floor=1, kind="S",
      desc="'defined' means the property has a value, whatever the value: PropertyFilter.match_indexes decides presence on the "
           "list of indexed values (bool / len), never with any() / all() over the values - an empty LOCATION: is indexed as "
           "b'' and is present on the path that parses the calendar")
def x15(ctx):
    f = ctx.own_method(ICAL + ".PropertyFilter", "match_indexes")
    ip = f.params[1] if len(f.params) > 1 else "indexes"
    obs = []
    n_dec = 0
    for x in walk_local(f):
        if isinstance(x, ast.Call) and isinstance(x.func, ast.Name) and x.func.id in ("any", "all", "bool", "len") and len(x.args) == 1 \
                and isinstance(x.args[0], ast.Subscript) and dotted(x.args[0].value) == ip:
            n_dec += 1
            obs.append(ctx.ob(x.func.id in ("bool", "len"), f.qualname, "%s:%d" % (f.module.rel, x.lineno), "presence is decided on the list of values",
                              "%s(%s)" % (x.func.id, src(x.args[0])),
                              "PropertyFilter.match_indexes decides whether the property is defined with `%s`: that is false for a property whose "
                              "only value is empty (indexed as b''), so once the query is served from the index the prop-filter / is-not-defined "
                              "answers flip for such resources" % src(x)[:50]))
    if not n_dec:
        obs.append(ctx.ok(f.qualname, f.where, "presence is decided on the list of values", "no any()/all() over the indexed values"))
    return obs
