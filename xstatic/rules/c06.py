"""C06 — UIDs are unique within a calendar, and only real conflicts are refused."""

from __future__ import annotations

import ast

from ..core import rule
from ..dataflow import DefUse, origins
from ..program import AnalysisError, dotted, src
from ..core import walk_local  # inline-aware
from .common import where, loops_over
from .storelib import facts, node_desc
from .c14 import IMPORTERS, mapping_obligations

STORES = ("xandikos.store.git.GitStore", "xandikos.store.vdir.VdirStore")
FWD_REF = "self._fname_to_uid"   # name -> (etag, uid)
REV_REF = "self._uid_to_fname"   # uid  -> (name, etag)
# the names of the two maps in the class being analysed (set by use_maps(); the reference names unless the class keeps
# its maps elsewhere, e.g. in a helper object whose fields were flattened into `self.<field>__<x>` by the inliner)
FWD = FWD_REF
REV = REV_REF
_MAPS = {}


def map_names(ctx, cq):
    """(forward map, reverse map) as dotted attribute paths of store class *cq*, recognised by their role: the forward
    map is written `F[name] = (etag, uid)`, the reverse map `R[uid] = (name, etag)` - whatever they are called."""
    _MAPS = ctx.__dict__.setdefault("_uid_map_names", {})     # cached on the context itself (object ids are reused)
    key = cq
    if key in _MAPS:
        return _MAPS[key]
    res = (FWD_REF, REV_REF)
    try:
        scan = ctx.own_method(cq, "_scan_uids")
        cfg = ctx.cfg(scan)
        du = DefUse(cfg)
        stores = []
        for n in cfg.stmt_nodes():
            a = n.ast
            if n.kind == "stmt" and isinstance(a, ast.Assign) and len(a.targets) == 1 and isinstance(a.targets[0], ast.Subscript):
                base = dotted(a.targets[0].value)
                if not (base and base.startswith("self.") and base.count(".") == 1):
                    continue
                val = a.value
                if not isinstance(val, ast.Tuple):
                    os_ = [o for o in origins(du, n, val) if o.kind == "expr" and isinstance(o.leaf, ast.Tuple) and not o.path]
                    val = os_[0].leaf if len(os_) == 1 else None
                if isinstance(val, ast.Tuple) and len(val.elts) == 2:
                    stores.append((base, a.targets[0].slice, val))
        bases = sorted({b for b, _k, _v in stores})
        if FWD_REF in bases or REV_REF in bases or len(bases) != 2:
            pass
        else:
            def key_name(e):
                return e.id.split("__i")[0] if isinstance(e, ast.Name) else src(e)
            x1 = [(k, v) for b, k, v in stores if b == bases[0]]
            x2 = [(k, v) for b, k, v in stores if b == bases[1]]
            (k1, v1), (k2, v2) = x1[0], x2[0]
            if key_name(v1.elts[1]) == key_name(k2) and key_name(v2.elts[0]) == key_name(k1):
                res = (bases[0], bases[1])
            elif key_name(v2.elts[1]) == key_name(k1) and key_name(v1.elts[0]) == key_name(k2):
                res = (bases[1], bases[0])
    except AnalysisError:
        pass
    _MAPS[key] = res
    return res


def use_maps(ctx, cq):
    global FWD, REV
    FWD, REV = map_names(ctx, cq)


@rule("C06", "U1", floor=10, kind="N",
      desc="the duplicate-UID check completes before every visible mutation, looks the UID of the uploaded object up "
           "in a freshly scanned map, and refuses only when another name holds it")
def u1(ctx):
    F = facts(ctx)
    obs = []
    for cq, nm in IMPORTERS:
        fi = ctx.own_method(cq, nm)
        cfg = ctx.cfg(fi)
        du = DefUse(cfg)
        chk = [(n, c) for n in cfg.stmt_nodes() for c in n.calls() if dotted(c.func) == "self._check_duplicate"]
        muts = [n for n in cfg.stmt_nodes() if F.node_mutations(fi, n)]
        if not muts:
            raise AnalysisError("%s.%s: no mutation" % (cq, nm))
        obs.append(ctx.ob(bool(chk), fi.qualname, fi.where, "calls _check_duplicate", "duplicate check is invoked",
                          "%s no longer calls self._check_duplicate" % fi.short))
        for m in muts:
            ok = bool(chk) and cfg.normal_completion_dominates([n for n, c in chk], m)
            obs.append(ctx.ob(ok, fi.qualname, where(fi, m), "_check_duplicate dominates %s" % "/".join(F.callee_names(fi, m)[:2] or [m.kind]),
                              "every path to `%s` has completed the duplicate check" % node_desc(m),
                              "`%s` can be reached without the duplicate-UID check having completed" % node_desc(m)))
        # arguments: uid of the uploaded object, the target name
        pos_ = [p for p in fi.params if p not in ("self", "cls")]
        p_name_ = pos_[0] if pos_ else "name"
        for n, c in chk:
            a0 = c.args[0] if c.args else None
            a1 = c.args[1] if len(c.args) > 1 else None
            uid_ok = False
            if a0 is not None:
                srcs = [o for o in origins(du, n, a0) if not o.is_none()]
                uid_ok = bool(srcs) and all(o.kind == "expr" and not o.path and isinstance(o.leaf, ast.Call) and isinstance(o.leaf.func, ast.Attribute)
                                            and o.leaf.func.attr == "get_uid" for o in srcs)
            # the target name: the `name` argument, or the name generated for it (uuid + extension)
            name_ok = False
            if a1 is not None:
                from ..dataflow import depends_on
                deps = {x for x in depends_on(du, n, a1) if not x.startswith(("<call:", "self."))}
                name_ok = p_name_ in deps and deps <= {p_name_, "content_type", "self"}
            obs.append(ctx.ob(uid_ok and name_ok, fi.qualname, where(fi, n), "_check_duplicate(uid of upload, name)",
                              "checked uid comes from <file>.get_uid(), name is the target name",
                              "_check_duplicate is called with (%s, %s): not the uploaded object's UID / target name"
                              % (src(a0) if a0 is not None else "?", src(a1) if a1 is not None else "?")))
    for cq in STORES:
        use_maps(ctx, cq)
        fi = ctx.own_method(cq, "_check_duplicate")
        cfg = ctx.cfg(fi)
        du = DefUse(cfg)
        pos = [p for p in fi.params if p not in ("self", "cls")]
        p_uid = pos[0] if pos else "uid"
        p_name = pos[1] if len(pos) > 1 else "name"
        lookups = [n for n in cfg.stmt_nodes() if any(_is_rev_read(x) for e in n.exprs() for x in ast.walk(e))]
        scans = [n for n in cfg.stmt_nodes() for c in n.calls() if dotted(c.func) == "self._scan_uids"]
        if not lookups:
            obs.append(ctx.bad(fi.qualname, fi.where, "looks the uid up in the reverse map", "%s no longer consults %s" % (fi.short, REV)))
            continue
        for lk in lookups:
            ok = bool(scans) and cfg.normal_completion_dominates(scans, lk)
            obs.append(ctx.ob(ok, fi.qualname, where(fi, lk), "_scan_uids() precedes the lookup",
                              "the map is refreshed before it is consulted", "`%s` can run on a map that was not refreshed by _scan_uids()" % node_desc(lk)))
        raises = [n for n in cfg.nodes if n.kind == "raise" and n.extra.get("exc") == "DuplicateUidError"]
        if not raises:
            obs.append(ctx.bad(fi.qualname, fi.where, "raises DuplicateUidError", "%s never raises DuplicateUidError" % fi.short))
        for r in raises:
            good = False
            leak = []
            for tnode in [t for t in cfg.nodes if t.kind == "test"]:
                t = tnode.ast
                if not (isinstance(t, ast.Compare) and len(t.ops) == 1 and isinstance(t.ops[0], (ast.NotEq, ast.Eq))):
                    continue
                # reaching the raise requires the comparison to say 'different'
                want = "t" if isinstance(t.ops[0], ast.NotEq) else "f"
                other = [(tnode, m, l) for m, l in tnode.succ if l != want and l != "exc"]
                if r.id in cfg.reachable([cfg.entry], block_edges=cfg.test_edges(tnode, want)) or not other:
                    continue
                from .common import drop_none
                sides = [drop_none(cfg, tnode, x_, origins(du, tnode, x_)) for x_ in (t.left, t.comparators[0])]
                for a_, b_ in (sides, sides[::-1]):
                    is_name = bool(a_) and all(o.kind == "param" and o.name == p_name and not o.path for o in a_)
                    holder = bool(b_) and all(o.kind == "expr" and o.leaf is not None and _is_rev_read(o.leaf, strict=True) and o.path == (0,)
                                              for o in b_)
                    if is_name and holder:
                        good = True
                        # ... and the converse: once the holder is known to differ from the target name, the refusal is
                        # unavoidable - no further condition lets the write through
                        diff_edges = [m for m, l in tnode.succ if l == want]
                        if diff_edges and cfg.exit.id in cfg.reachable(diff_edges, follow_exc=False):
                            leak.append(tnode)
            if good and leak:
                obs.append(ctx.bad(fi.qualname, where(fi, leak[0]), "a different holder always refuses",
                                   "after `%s` says that another resource holds the UID, %s can still return normally: a write that gives a "
                                   "resource the UID of a different existing resource is accepted under some further condition"
                                   % (src(leak[0].ast), fi.short)))
            elif good:
                obs.append(ctx.ok(fi.qualname, where(fi, r), "a different holder always refuses", "no normal return from the 'different' side"))
            obs.append(ctx.ob(good, fi.qualname, where(fi, r), "DuplicateUidError only if another name holds the uid",
                              "raise requires `<holder> != name` with holder = %s[uid][0]" % REV,
                              "the DuplicateUidError refusal is not conditioned on the holder's name differing from the target name: "
                              "overwriting a resource with its own UID is refused, or a real conflict is not"))
        # every normal exit with a uid given passes the lookup (no bypass other than uid None / check disabled)
        from .common import test_polarity_absent
        byp = []
        for t in cfg.nodes:
            if t.kind != "test":
                continue
            lab = test_polarity_absent(t.ast, p_uid)
            if lab and not isinstance(t.ast, ast.Name):
                # only `uid is None`: an empty UID is a UID (the scan registers it), a truthiness test lets it through unchecked
                byp.append((t, lab))
            if dotted(t.ast) == "self._check_for_duplicate_uids":
                byp.append((t, "f"))
        blocked = [(t, m, l) for t, lab in byp for m, l in t.succ if l == lab]
        r = cfg.reachable([cfg.entry], block_nodes=lookups, block_edges=blocked)
        obs.append(ctx.ob(cfg.exit.id not in r, fi.qualname, fi.where, "every normal return looked the uid up",
                          "no path returns without the reverse-map lookup (unless uid is None or the check is disabled)",
                          "%s can return normally without consulting %s for a given uid (e.g. when replace_etag matches): an overwrite that "
                          "changes a resource's UID to one held by another resource is accepted" % (fi.short, REV)))
    # nobody switches the check off
    offs = []
    for f in ctx.P.all_funcs():
        if ctx.absorbed(f):
            continue
        for n in walk_local(f.node):
            if isinstance(n, ast.Call):
                for k in n.keywords:
                    if k.arg == "check_for_duplicate_uids" and not (isinstance(k.value, ast.Constant) and k.value.value is True):
                        offs.append((f, n))
    for cq in STORES:
        use_maps(ctx, cq)
        init = ctx.own_method(cq, "__init__")
        a = init.node.args
        default = None
        for arg, d in list(zip(a.kwonlyargs, a.kw_defaults)) + list(zip(a.args[len(a.args) - len(a.defaults):], a.defaults)):
            if arg.arg == "check_for_duplicate_uids":
                default = d
        ok = isinstance(default, ast.Constant) and default.value is True
        obs.append(ctx.ob(ok and not offs, init.qualname, init.where, "duplicate check enabled by default and never disabled",
                          "check_for_duplicate_uids defaults to True; no caller passes another value",
                          "the duplicate check is disabled: default=%s, overriding callers=%s" % (src(default) if default is not None else "?", [f.short for f, _ in offs])))
    return obs


def _is_rev_read(x, strict=False) -> bool:
    """``self._uid_to_fname[...]`` (load) or ``self._uid_to_fname.get(...)``; non-strict also ``k in self._uid_to_fname``."""
    if isinstance(x, ast.Subscript) and dotted(x.value) == REV and isinstance(x.ctx, ast.Load):
        return True
    if isinstance(x, ast.Call) and isinstance(x.func, ast.Attribute) and x.func.attr == "get" and dotted(x.func.value) == REV:
        return True
    if not strict and isinstance(x, ast.Compare) and any(isinstance(o, (ast.In, ast.NotIn)) for o in x.ops) \
            and any(dotted(c) == REV for c in x.comparators):
        return True
    return False


def _subscript_sites(cfg, attr):
    """(node, kind, slice) for stores / deletes of ``attr[...]``; kind in store|del|rebind."""
    out = []
    for n in cfg.stmt_nodes():
        a = n.ast
        if n.kind != "stmt" or a is None:
            continue
        if isinstance(a, (ast.Assign, ast.AnnAssign)):
            tgts = a.targets if isinstance(a, ast.Assign) else [a.target]
            for t in tgts:
                if isinstance(t, ast.Subscript) and dotted(t.value) == attr:
                    out.append((n, "store", t.slice))
                if dotted(t) == attr:
                    out.append((n, "rebind", None))
        if isinstance(a, ast.Delete):
            for t in a.targets:
                if isinstance(t, ast.Subscript) and dotted(t.value) == attr:
                    out.append((n, "del", t.slice))
        for c in n.calls():
            if isinstance(c.func, ast.Attribute) and dotted(c.func.value) == attr and c.func.attr in ("pop", "clear", "popitem"):
                out.append((n, "del", c.args[0] if c.args else None))
    return out


@rule("C06", "U2", floor=2, kind="S",
      desc="paired-map coherence in _scan_uids: when the entry of a name is overwritten, the reverse entry of its OLD "
           "uid is removed (or the reverse map is rebuilt), so a UID becomes free when its holder changes UID")
def u2(ctx):
    obs = []
    targets = []
    for cq in STORES:
        use_maps(ctx, cq)
        scan = ctx.own_method(cq, "_scan_uids")
        targets.append((cq, scan, True))
        # any other method of the store that records a name in the forward map has the same obligation
        for f_ in ctx.P.cls(cq).methods.values():
            if f_ is not scan and f_.name != "__init__" and not ctx.absorbed(f_) \
                    and any(s_[1] == "store" for s_ in _subscript_sites(ctx.cfg(f_), FWD)):
                targets.append((cq, f_, False))
    for cq, fi, is_scan in targets:
        use_maps(ctx, cq)
        cfg = ctx.cfg(fi)
        du = DefUse(cfg)
        fstores = [s for s in _subscript_sites(cfg, FWD) if s[1] == "store"]
        rsites = _subscript_sites(cfg, REV)
        if not fstores:
            if any(k == "rebind" for _n, k, _s in _subscript_sites(cfg, FWD)) and any(k == "rebind" for _n, k, _s in rsites):
                obs.append(ctx.ok(fi.qualname, fi.where, "maps rebuilt wholesale", "both maps are rebuilt on every scan"))
                continue
            raise AnalysisError("%s._scan_uids: no assignment to %s[...] found" % (cq, FWD))
        rebinds = [n for n, k, _s in rsites if k == "rebind"]
        for n, _k, _sl in fstores:
            # a deletion from REV keyed by a value read from FWD[...] that can reach this store
            ok = False
            why = ""
            if rebinds and cfg.node_dominates(rebinds, n):
                ok = True
                why = "reverse map rebuilt before"
            for dn, k, sl in rsites:
                if k != "del" or sl is None:
                    continue
                reach = cfg.reachable([dn])
                if n.id not in reach and dn is not n:
                    continue
                # key derives from FWD[...]
                derives = False
                exprs = [sl]
                seen = set()
                while exprs:
                    e = exprs.pop()
                    for x in ast.walk(e):
                        if isinstance(x, ast.Subscript) and dotted(x.value) == FWD:
                            derives = True
                        if isinstance(x, ast.Call) and isinstance(x.func, ast.Attribute) and dotted(x.func.value) == FWD and x.func.attr in ("get", "pop"):
                            derives = True
                        if isinstance(x, ast.Name) and x.id not in seen:
                            seen.add(x.id)
                            for d in du.reaching(dn, x.id):
                                if d.value is not None and d.kind in ("assign", "for"):
                                    exprs.append(d.value)
                # and the deletion happens on the overwrite path, i.e. before this store in the same iteration:
                # the store must not dominate the deletion
                before = not cfg.node_dominates([n], dn)
                if derives and before:
                    ok = True
                    why = "stale reverse entry removed at line %d" % dn.lineno
            obs.append(ctx.ob(ok, fi.qualname, where(fi, n), "overwrite of %s[name] releases the old uid" % FWD.split(".")[-1],
                              why,
                              "`%s` overwrites the entry of a name that may already be mapped, but nothing removes %s[<old uid>]: "
                              "after a resource changes UID its old UID stays reserved and a later create with that UID is refused"
                              % (node_desc(n), REV.split(".")[-1])))
    return obs


@rule("C06", "U3", floor=5, kind="S",
      desc="DuplicateUidError -> CALDAV:no-uid-conflict precondition -> 412 at both import_one call sites")
def u3(ctx):
    return mapping_obligations(ctx, "DuplicateUidError", "no-uid-conflict")


@rule("C06", "U4", floor=3, kind="S",
      desc="ICalendarFile.get_uid returns the UID of the first sub-component that has one and raises KeyError otherwise")
def u4(ctx):
    fi = ctx.own_method("xandikos.icalendar.ICalendarFile", "get_uid")
    cfg = ctx.cfg(fi)
    obs = []
    loops = [n for n in cfg.nodes if n.kind == "for" and src(n.ast.iter).endswith(".subcomponents")]
    rets = [n for n in cfg.nodes if n.kind == "return" and isinstance(n.ast.value, ast.Subscript)
            and isinstance(n.ast.value.slice, ast.Constant) and n.ast.value.slice.value == "UID"]
    in_loop = bool(loops) and bool(rets) and all(
        isinstance(r.ast.value.value, ast.Name) and isinstance(loops[0].ast.target, ast.Name)
        and r.ast.value.value.id == loops[0].ast.target.id for r in rets)
    # ... of EVERY component: the return is not conditioned on the kind of component
    typed = []
    for r in rets:
        for t, pol in cfg.required_conditions(r):
            names = {x.id for x in ast.walk(t) if isinstance(x, ast.Name)}
            if loops and isinstance(loops[0].ast.target, ast.Name) and loops[0].ast.target.id in names:
                typed.append(src(t))
    in_loop = in_loop and not typed
    obs.append(ctx.ob(in_loop, fi.qualname, fi.where, "returns component['UID'] inside the loop over subcomponents",
                      "first component with a UID wins", "get_uid no longer returns <component>['UID'] for every component of the calendar in order%s"
                      % ((": it only considers components with " + typed[0] + ", so objects of other kinds (e.g. VFREEBUSY) have no UID for the store and are neither checked nor registered") if typed else "")))
    # a component without UID is skipped, not fatal
    skip = False
    for r in rets:
        from .common import handler_catching
        h = handler_catching(cfg, r, "KeyError")
        if h is not None:
            after = cfg.reachable([h.entry])
            skip = bool(loops) and loops[0].id in after
    obs.append(ctx.ob(skip, fi.qualname, fi.where, "component without UID is skipped",
                      "KeyError from a component continues with the next one", "a component without UID aborts the search instead of being skipped"))
    end = [n for n in cfg.nodes if n.kind == "raise" and n.extra.get("exc") == "KeyError"]
    ok = bool(end) and bool(loops) and any(m.id in cfg.reachable([x for x, l in loops[0].succ if l == "done"]) for m in end)
    obs.append(ctx.ob(ok, fi.qualname, fi.where, "raises KeyError when no component has a UID",
                      "falls through to raise KeyError", "get_uid does not raise KeyError when no component carries a UID"))
    return obs


@rule("C06", "U5", floor=4, kind="S",
      desc="tuple layout agreement: every reader of the reverse map compares the component in which the writers store "
           "the file name")
def u5(ctx):
    obs = []

    def sig(du, n, e):
        return frozenset((o.kind, o.name, id(o.leaf), tuple(o.path)) for o in origins(du, n, e))

    def rev_component(du, n, e):
        """Index of the component of a reverse-map entry that *e* holds at *n* (None if it is not one)."""
        idxs = set()
        os_ = [o for o in origins(du, n, e) if not o.is_none()]
        if not os_:
            return None
        for o in os_:
            lf = o.leaf
            if o.kind == "expr" and lf is not None and _is_rev_read(lf, strict=True) and len(o.path) == 1 and isinstance(o.path[0], int):
                idxs.add(o.path[0])
            elif o.kind == "expr" and isinstance(lf, ast.Tuple) and all(isinstance(x, ast.Constant) and x.value is None for x in lf.elts):
                continue            # the `(None, None)` default of .get()
            elif o.kind == "expr" and isinstance(lf, ast.Constant) and lf.value is None:
                continue
            else:
                return None
        return idxs.pop() if len(idxs) == 1 else None

    for cq in STORES:
        use_maps(ctx, cq)
        ci = ctx.P.cls(cq)
        funcs = [ctx.own_method(cq, m_) for m_ in ("_scan_uids", "_check_duplicate")]
        # writer layout: the component of the reverse-map entry that holds what the forward map is keyed by (the name)
        pos = None
        for f in funcs:
            cfg = ctx.cfg(f)
            du = DefUse(cfg)
            fkeys = set()
            for n in cfg.stmt_nodes():
                a_ = n.ast
                if n.kind == "stmt" and isinstance(a_, ast.Assign) and isinstance(a_.targets[0], ast.Subscript) and dotted(a_.targets[0].value) == FWD:
                    fkeys.add(sig(du, n, a_.targets[0].slice))
            for n in cfg.stmt_nodes():
                a_ = n.ast
                if n.kind == "stmt" and isinstance(a_, ast.Assign) and isinstance(a_.targets[0], ast.Subscript) and dotted(a_.targets[0].value) == REV:
                    val = a_.value
                    from .common import as_tuple
                    elts = as_tuple(ctx, f, n, val)          # a tuple display, or a record constructor (NamedTuple / dataclass)
                    if elts is None:
                        tv = [(o.leaf, o.node) for o in origins(du, n, val) if o.kind == "expr" and not o.path and o.leaf is not None]
                        if len(tv) == 1:
                            elts = as_tuple(ctx, f, tv[0][1] or n, tv[0][0])
                    if elts:
                        for i, e in enumerate(elts):
                            if sig(du, n, e) in fkeys:
                                pos = i
        if pos is None:
            raise AnalysisError("%s: writer of %s with a tuple containing the file name not found" % (cq, REV))
        nread = 0
        for f in funcs:
            cfg = ctx.cfg(f)
            du = DefUse(cfg)
            seen_t = set()
            for t in [x for x in cfg.nodes if x.kind == "test" and isinstance(x.ast, ast.Compare) and len(x.ast.ops) == 1
                      and isinstance(x.ast.ops[0], (ast.Eq, ast.NotEq))]:
                if id(t.ast) in seen_t:
                    continue
                sides = [t.ast.left, t.ast.comparators[0]]
                idx = None
                for s1, s2 in (sides, sides[::-1]):
                    k_ = rev_component(du, t, s1)
                    if k_ is not None and rev_component(du, t, s2) is None and not (isinstance(s2, ast.Constant)):
                        idx = k_
                if idx is None:
                    continue
                seen_t.add(id(t.ast))
                nread += 1
                obs.append(ctx.ob(idx == pos, f.qualname, where(f, t), "reader compares component %d (the name) of %s" % (pos, REV.split(".")[-1]),
                                  "`%s` uses component %s" % (src(t.ast), idx),
                                  "`%s` compares component %s of a %s entry with the file name, but the writers store the name in component %d: "
                                  "the comparison never holds, so entries are never released (or conflicts never detected)" % (src(t.ast), idx, REV.split(".")[-1], pos)))
        if nread < 2:
            raise AnalysisError("%s: only %d readers of %s compared with the file name" % (cq, nread, REV))
    return obs


@rule("C06", "U6", floor=4, kind="S",
      desc="the uid maps are refreshed from the store's listing on every scan: _scan_uids cannot return without "
           "iterating the listing, and its unchanged-file shortcut is keyed by (name, etag)")
def u6(ctx):
    obs = []
    for cq in STORES:
        use_maps(ctx, cq)
        fi = ctx.own_method(cq, "_scan_uids")
        cfg = ctx.cfg(fi)
        loops = loops_over(cfg, ("_iterblobs", "iter_with_etag"))
        if not loops:
            raise AnalysisError("%s._scan_uids: listing loop not found" % cq)
        uncond = cfg.exit.id not in cfg.reachable([cfg.entry], block_nodes=loops, follow_exc=False)
        obs.append(ctx.ob(uncond, fi.qualname, where(fi, loops[0]), "every scan iterates the listing", "no early return before the listing loop",
                          "%s can return without iterating the store's listing (a 'nothing changed' shortcut): a write it did not notice - another "
                          "process, or a writer between commit and index write - leaves a UID unregistered and a duplicate is accepted" % fi.short))
        # the skip inside the loop
        from .common import loop_body_nodes
        body = loop_body_nodes(cfg, loops[0])
        conts = [n for n in cfg.nodes if n.id in body and n.kind == "stmt" and isinstance(n.ast, ast.Continue)]
        if not conts:
            obs.append(ctx.ok(fi.qualname, where(fi, loops[0]), "no unchanged-file shortcut", "every listed file is parsed"))
        du = DefUse(cfg)
        lp = loops[0]

        def fwd_lookup_of_listed_name(o) -> bool:
            """origin o is `self._fname_to_uid[<listed name>]` / `.get(<listed name>)`, component 0 (the etag)."""
            if o.kind != "expr" or o.leaf is None or tuple(o.path) not in ((0,), ("etag",)):     # F[name][0] / a record's .etag
                return False
            x = o.leaf
            key = None
            if isinstance(x, ast.Subscript) and dotted(x.value) == FWD:
                key = x.slice
            elif isinstance(x, ast.Call) and isinstance(x.func, ast.Attribute) and x.func.attr == "get" and dotted(x.func.value) == FWD and x.args:
                key = x.args[0]
            if key is None:
                return False
            ko = origins(du, o.node, key)
            return bool(ko) and all(k.kind == "elem" and k.node is lp and k.path[:1] == (0,) for k in ko)

        for c in conts:
            req = cfg.required_conditions(c)
            keyed = False
            for tn in [t_ for t_ in cfg.nodes if t_.kind == "test" and t_.id in body]:
                t = tn.ast
                if not (isinstance(t, ast.Compare) and len(t.ops) == 1 and isinstance(t.ops[0], (ast.Eq, ast.NotEq))):
                    continue
                same = "t" if isinstance(t.ops[0], ast.Eq) else "f"
                if c.id in cfg.reachable([m for m, l in lp.succ if l == "loop"], block_nodes=[lp],
                                         block_edges=cfg.test_edges(tn, same)):
                    continue   # the skip does not require this comparison to hold
                sides = [t.left, t.comparators[0]]
                from .common import drop_none
                for a_, b_ in (sides, sides[::-1]):
                    oa = drop_none(cfg, tn, a_.value if isinstance(a_, ast.Subscript) and isinstance(a_.value, ast.Name) else a_, origins(du, tn, a_))
                    if oa and all(fwd_lookup_of_listed_name(o) for o in oa):
                        ob_ = origins(du, tn, b_)
                        # the other side is this iteration's etag: derived from the listing element
                        from ..dataflow import depends_on
                        listed = any(o.kind == "elem" and o.node is lp for o in ob_) or any(
                            isinstance(x, ast.Name) and any(o2.kind == "elem" and o2.node is lp for o2 in origins(du, o.node, x))
                            for o in ob_ if o.leaf is not None for x in ast.walk(o.leaf))
                        if listed:
                            keyed = True
            obs.append(ctx.ob(keyed, fi.qualname, where(fi, c), "shortcut keyed by (name, etag)",
                              "skip only if %s[name] holds this etag" % FWD.split(".")[-1],
                              "a listed file is skipped under `%s`, which is not 'this NAME is already mapped with this etag': the same bytes under "
                              "another name (or a file returning to earlier bytes) are never (re)registered" % " and ".join(src(t) for t, pol in req if pol)))
    return obs



@rule("C06", "U7", floor=2, kind="S",
      desc="one classification of names: the File class used to parse a stored member (open_by_extension) and the "
           "content type the listing reports for it are both MIMETYPES.guess_type(name) - otherwise a member that is "
           "listed as a calendar object is parsed as a plain file, has no UID for the store, and duplicates are accepted")
def u7(ctx):
    obs = []

    def typed_by_guess(fi, node, e, du, p_name=None) -> bool:
        os_ = [o for o in origins(du, node, e)]
        if not os_:
            return False
        seen_guess = False
        for o in os_:
            v = o.leaf
            if o.kind == "expr" and isinstance(v, ast.Call) and (dotted(v.func) or "").endswith("MIMETYPES.guess_type") and o.path == (0,):
                seen_guess = True
                continue
            if o.kind == "expr" and v is not None and not o.path and ctx.P.try_fold(ctx.module_at(fi, o.node), v) is not None:
                continue      # the constant default
            if o.kind == "expr" and isinstance(v, ast.Constant):
                continue
            return False
        return seen_guess

    oe = ctx.func("xandikos.store.open_by_extension")
    cfg = ctx.cfg(oe)
    du = DefUse(cfg)
    sites = [(n, c) for n in cfg.stmt_nodes() for c in n.calls() if (dotted(c.func) or "").split(".")[-1] == "open_by_content_type"]
    if not sites:
        raise AnalysisError("open_by_extension no longer delegates to open_by_content_type")
    for n, c in sites:
        a = c.args[1] if len(c.args) > 1 else next((k.value for k in c.keywords if k.arg == "content_type"), None)
        ok = a is not None and typed_by_guess(oe, n, a, du)
        obs.append(ctx.ob(ok, oe.qualname, where(oe, n), "parser chosen by MIMETYPES.guess_type(name)", "content type = MIMETYPES.guess_type(name)[0] or the default",
                          "open_by_extension derives the content type as `%s`, not from MIMETYPES.guess_type(name): names the listing classifies as "
                          "calendar objects (upper-case or compound extensions) are opened as plain files and never get a UID" % (src(a) if a is not None else "?")))
    it = ctx.own_method("xandikos.store.git.GitStore", "iter_with_etag")
    cfg = ctx.cfg(it)
    du = DefUse(cfg)
    ys = []
    for n in cfg.stmt_nodes():
        if n.kind == "stmt" and isinstance(n.ast, ast.Expr) and isinstance(n.ast.value, ast.Yield) and n.ast.value.value is not None:
            # the yielded triple, also when it was built in a local first (`item = (name, ct, etag); yield item`)
            from .common import as_tuple
            for o in origins(du, n, n.ast.value.value):
                elts_ = as_tuple(ctx, it, o.node or n, o.leaf) if (o.kind == "expr" and not o.path and o.leaf is not None) else None
                if elts_ and len(elts_) == 3:
                    ys.append((o.node or n, elts_))
    if not ys:
        raise AnalysisError("GitStore.iter_with_etag: yield (name, content_type, etag) not found")
    for y, tup in ys:
        a = tup[1]
        obs.append(ctx.ob(typed_by_guess(it, y, a, du), it.qualname, where(it, y), "listing reports MIMETYPES.guess_type(name)",
                          "content type = MIMETYPES.guess_type(name)[0] or the default",
                          "GitStore.iter_with_etag reports `%s` as content type, not MIMETYPES.guess_type(name)" % src(a)))
    return obs


@rule("C06", "U8", floor=2, kind="N",
      desc="the UID that is checked is the UID that is stored: normalized() does not rewrite the text of the object "
           "(same obligations as C14/V7) - a normalisation applied to what is stored but not to what is checked lets two "
           "resources carry the same UID")
def u8(ctx):
    from .c14 import normalized_obligations
    return normalized_obligations(ctx)


@rule("C06", "U9", floor=2, kind="N",
      desc="the scan notices every change of a member: its unchanged-file shortcut is keyed by the ETag, and the ETag is a "
           "hash of the content (the vdir obligations of C02/E3) - an ETag taken from stat() hides an in-place change of the "
           "UID from the scan")
def u9(ctx):
    from .c02 import e3
    return [o for o in e3(ctx) if "VdirStore" in o.construct]


@rule("C06", "U10", floor=1, kind="N",
      desc="an upload is checked as what it is: the File class (and with it the UID) is chosen from the bare media type, "
           "whatever parameters the Content-Type carries (the media-type obligations of C14/V2)")
def u10(ctx):
    from .c14 import v2
    return [o for o in v2(ctx) if "open_by_content_type" in o.construct]


@rule("C06", "U11", floor=1, kind="N",
      desc="the UID check sees every member: a name made up for a POSTed member gets its extension from a bare media "
           "type (same obligations as C12/A12) - with parameters in the string no extension is found, and the scan, "
           "which opens members by extension, never sees that member's UID")
def u11(ctx):
    from .c12 import a12
    return a12(ctx)


@rule("C06", "U12", floor=2, kind="S",
      desc="the uid maps say what the listing says: they are created in the constructor and written by the scan only - "
           "an entry made anywhere else has no counterpart the scan could release, so a UID stays claimed by a write "
           "that failed or by a resource that no longer holds it")
def u12(ctx):
    from .storelib import STORE_MODULES
    obs = []
    inl = ctx.cfgs.inliner
    names = set()
    for cq in STORES:
        names.update(map_names(ctx, cq))
    n_fn = 0
    store_root = ctx.P.cls("xandikos.store.Store")
    for m in sorted(mn for mn in ctx.P.modules if mn == "xandikos.store" or mn.startswith("xandikos.store.")):
        for fi in ctx.P.funcs_in_module(m):
            if fi.cls is None or inl.is_new(fi) or store_root not in fi.cls.mro:
                continue      # helpers unknown to the reference tree are seen where they are inlined
            try:
                cfg = ctx.cfg(fi)
            except AnalysisError:
                continue
            n_fn += 1
            sites = []
            for n in cfg.stmt_nodes():
                a = n.ast
                if n.kind != "stmt":
                    continue
                if isinstance(a, (ast.Assign, ast.Delete, ast.AugAssign, ast.AnnAssign)):
                    tgs = a.targets if isinstance(a, (ast.Assign, ast.Delete)) else [a.target]
                    for t in tgs:
                        if isinstance(t, ast.Subscript) and dotted(t.value) in names:
                            sites.append((n, dotted(t.value)))
                        elif dotted(t) in names and not (isinstance(a, ast.AnnAssign) and a.value is None):
                            sites.append((n, dotted(t)))
                for c in n.calls():
                    if isinstance(c.func, ast.Attribute) and c.func.attr in ("pop", "popitem", "clear", "update", "setdefault", "__setitem__", "__delitem__") \
                            and dotted(c.func.value) in names:
                        sites.append((n, dotted(c.func.value)))
            if not sites and fi.name not in ("_scan_uids", "__init__"):
                continue
            allowed = fi.name in ("_scan_uids", "__init__")
            if allowed and not sites:
                continue
            obs.append(ctx.ob(allowed, fi.qualname, fi.where, "uid maps written only by the scan / constructor",
                              "%d write sites in %s" % (len(sites), fi.name),
                              "%s writes %s (`%s`, line %d) outside _scan_uids: the entry has no counterpart in the other map that a "
                              "later scan would release, so the UID stays bound after the write fails or the resource changes its UID"
                              % (fi.short, sites[0][1].split(".", 1)[-1], src(sites[0][0].ast)[:60], sites[0][0].lineno) if sites else ""))
    if n_fn < 20:
        raise AnalysisError("only %d store methods analysed (confirmed: >= 20)" % n_fn)
    return obs


@rule("C06", "U13", floor=4, kind="N",
      desc="a UID is looked up among the members of its own collection: the uid maps are per store object (same obligations "
           "as C05/L7) - a class-level map makes a UID held in another calendar refuse a write here, and a delete there "
           "release a UID that is still held here")
def u13(ctx):
    from .c05 import l7
    return l7(ctx)


@rule("C06", "U14", floor=2, kind="S",
      desc="the reverse map names the current holder: _scan_uids stores `R[uid] = (name, etag)` by plain assignment - an "
           "insert-if-absent (setdefault, `if uid not in R`) keeps a stale holder, whose release later in the same scan "
           "frees a UID that a live resource holds")
def u14(ctx):
    obs = []
    for cq in STORES:
        fi = ctx.home_method(cq, "_scan_uids")
        cfg = ctx.cfg(fi)
        fwd, rev = map_names(ctx, cq)
        plain = [n for n in cfg.stmt_nodes() if n.kind == "stmt" and isinstance(n.ast, ast.Assign)
                 and any(isinstance(t, ast.Subscript) and dotted(t.value) == rev for t in n.ast.targets)]
        soft = [n for n in cfg.stmt_nodes() for c in n.calls() if isinstance(c.func, ast.Attribute) and c.func.attr == "setdefault" and dotted(c.func.value) == rev]
        cond = []
        for n in plain:
            for t, pol in cfg.required_conditions(n):
                if isinstance(t, ast.Compare) and len(t.ops) == 1 and isinstance(t.ops[0], (ast.In, ast.NotIn)) and dotted(t.comparators[0]) == rev:
                    cond.append(n)
        if not plain and not soft:
            raise AnalysisError("%s._scan_uids: no write to the reverse map found" % cq)
        ok = bool(plain) and not soft and not cond
        obs.append(ctx.ob(ok, fi.qualname, fi.where, "reverse map entry is overwritten by the current holder",
                          "%s[uid] = (name, etag)" % rev.split(".")[-1],
                          "%s._scan_uids inserts into %s only when the UID is absent (`%s`): when the UID moved to another resource the stale "
                          "entry stays, and the release of the old holder later in the scan deletes the UID although a live resource holds it"
                          % (cq.split(".")[-1], rev.split(".")[-1], src((soft or cond or plain)[0].ast)[:60])))
    return obs
