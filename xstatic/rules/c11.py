"""C11 — calendar-query returns exactly the resources that match the filter (RFC 4791)."""

from __future__ import annotations

import ast
import itertools
from typing import Callable, Dict, List, Optional, Sequence, Set, Tuple

from ..cmpform import Interp, Scenario, weak_orderings
from ..core import rule
from ..program import AnalysisError, dotted, src
from ..core import walk_local  # inline-aware
from .common import where
from ..dataflow import DefUse, origins

CALDAV = "xandikos.caldav"
ICAL = "xandikos.icalendar"
NS = "{urn:ietf:params:xml:ns:caldav}"

# RFC 4791 section 9.7: what each filter element may contain, and the builder effect expected for each child
GRAMMAR = {
    "parse_filter": {"comp-filter": ("call", "parse_comp_filter", "filter_subcomponent")},
    "parse_comp_filter": {
        "is-not-defined": ("flag", "is_not_defined", None),
        "time-range": ("call", "parse_time_range", "filter_time_range"),
        "prop-filter": ("call", "parse_prop_filter", "filter_property"),
        "comp-filter": ("call", "parse_comp_filter", "filter_subcomponent"),
    },
    "parse_prop_filter": {
        "is-not-defined": ("flag", "is_not_defined", None),
        "time-range": ("call", "parse_time_range", "filter_time_range"),
        "text-match": ("call", "parse_text_match", "filter_text_match"),
        "param-filter": ("call", "parse_param_filter", "filter_parameter"),
    },
    "parse_param_filter": {
        "is-not-defined": ("flag", "is_not_defined", None),
        "text-match": ("call", "parse_text_match", "filter_text_match"),
    },
}


def prune_walk(cfg, starts, decide, stop_nodes=()):
    """Nodes reachable from *starts* when every test atom that *decide* can evaluate takes the decided edge."""
    stop = {n.id for n in stop_nodes}
    seen, todo = set(), list(starts)
    while todo:
        n = todo.pop()
        if n.id in seen or n.id in stop:
            continue
        seen.add(n.id)
        v = decide(n.ast) if n.kind == "test" else None
        for m, l in n.succ:
            if l == "exc":
                continue
            if v is True and l == "f":
                continue
            if v is False and l == "t":
                continue
            todo.append(m)
    return seen


def _loop_over_children(cfg):
    loops = [n for n in cfg.nodes if n.kind == "for" and isinstance(n.ast.target, ast.Name)]
    if not loops:
        return None
    return loops[0]


@rule("C11", "D1", floor=11, kind="S",
      desc="dispatch exhaustiveness: for every child element RFC 4791 section 9.7 allows inside filter / comp-filter / "
           "prop-filter / param-filter, the parser reaches the builder effect and not the trailing raise")
def d1(ctx):
    obs = []
    for pname, children in GRAMMAR.items():
        fi = ctx.func(CALDAV + "." + pname)
        cfg = ctx.cfg(fi)
        lp = _loop_over_children(cfg)
        if lp is None:
            raise AnalysisError("%s: loop over child elements not found" % pname)
        var = lp.ast.target.id
        starts = [m for m, l in lp.succ if l == "loop"]
        for child, (kind, what, builder_attr) in children.items():
            tag = NS + child

            def decide(t, tag=tag, var=var):
                if isinstance(t, ast.Compare) and len(t.ops) == 1 and isinstance(t.ops[0], (ast.Eq, ast.NotEq)) and dotted(t.left) == var + ".tag":
                    v = ctx.P.try_fold(fi.module, t.comparators[0])
                    if isinstance(v, str):
                        return (v == tag) if isinstance(t.ops[0], ast.Eq) else (v != tag)
                if isinstance(t, ast.Compare) and len(t.ops) == 1 and isinstance(t.ops[0], (ast.In, ast.NotIn)) and dotted(t.left) == var + ".tag":
                    v = ctx.P.try_fold(fi.module, t.comparators[0])
                    if isinstance(v, (tuple, frozenset)):
                        return (tag in v) if isinstance(t.ops[0], ast.In) else (tag not in v)
                return None

            reach = prune_walk(cfg, starts, decide, stop_nodes=[lp])
            nodes = [n for n in cfg.nodes if n.id in reach]
            raises = [n for n in nodes if n.kind == "raise"]
            effect = False
            for n in nodes:
                if kind == "flag" and n.kind == "stmt" and isinstance(n.ast, ast.Assign) and any(isinstance(t, ast.Attribute) and t.attr == what for t in n.ast.targets) \
                        and isinstance(n.ast.value, ast.Constant) and n.ast.value.value is True:
                    effect = True
                if kind == "call":
                    for c in n.calls():
                        if (dotted(c.func) or "").split(".")[-1] == what and c.args and dotted(c.args[0]) == var:
                            effect = True
            ok = effect and not raises
            why = []
            if not effect:
                why.append("the expected effect (%s) is not reached" % (what + " = True" if kind == "flag" else what + "(...)"))
            if raises:
                why.append("control reaches `%s` (line %d)" % (raises[0].text()[:60], raises[0].lineno))
            obs.append(ctx.ob(ok, fi.qualname, where(fi, lp), "child <%s> accepted" % child,
                              "reaches %s, no raise" % (what,),
                              "inside %s the element <%s>, which RFC 4791 section 9.7 allows, is not handled: %s"
                              % (pname.replace("parse_", "").replace("_", "-"), child, "; ".join(why))))
    return obs


def _builder_returns(ctx, meth) -> Optional[str]:
    """Qualified name of the project class whose instance a filter_* builder method returns."""
    cfg = ctx.cfg(meth)
    from ..dataflow import DefUse
    du = DefUse(cfg)
    out = set()
    for r in [n for n in cfg.nodes if n.kind == "return" and n.ast.value is not None]:
        v = r.ast.value
        exprs = [v]
        if isinstance(v, ast.Name):
            exprs = [d.value for d in du.reaching(r, v.id) if d.value is not None]
        if isinstance(v, ast.Attribute) and dotted(v).startswith("self."):
            # self.time_range: find its assignment in this method
            for n in cfg.stmt_nodes():
                if n.kind == "stmt" and isinstance(n.ast, ast.Assign) and any(dotted(t) == dotted(v) for t in n.ast.targets):
                    exprs = [n.ast.value]
        for e in exprs:
            if isinstance(e, ast.Call):
                kind, obj = ctx.P.resolve_dotted(meth.module, dotted(e.func) or "", meth)
                if kind == "class":
                    out.add(obj.qualname)
    return sorted(out)[0] if len(out) == 1 else None


def _class_members(ctx, cq) -> Set[str]:
    ci = ctx.P.cls(cq)
    names = set()
    for c in ci.mro:
        names |= set(c.methods)
        names |= set(c.attrs)
        init = c.methods.get("__init__")
        if init is not None:
            for n in walk_local(init.node):
                if isinstance(n, ast.Assign):
                    for t in n.targets:
                        if isinstance(t, ast.Attribute) and dotted(t.value) == "self":
                            names.add(t.attr)
        for b in c.node.body:
            if isinstance(b, ast.AnnAssign) and isinstance(b.target, ast.Name):
                names.add(b.target.id)
    return names


@rule("C11", "D2", floor=10, kind="S",
      desc="builder protocol: the class of the builder object is propagated through parse_* (read off the return "
           "statements of the filter_* methods) and every attribute used on it must exist, with a compatible signature")
def d2(ctx):
    obs = []
    start_cls = ICAL + ".CalendarFilter"
    ctx.P.cls(start_cls)
    # (parser name, class of the object `cls(...)` produces / of `cls` itself for parse_filter)
    work: List[Tuple[str, str, str]] = [("parse_filter", start_cls, "instance")]
    done = set()
    n_calls = 0
    while work:
        pname, cq, mode = work.pop()
        if (pname, cq) in done:
            continue
        done.add((pname, cq))
        fi = ctx.func(CALDAV + "." + pname)
        members = _class_members(ctx, cq)
        # the variable that holds the builder object in this parser
        bvars = set()
        if mode == "instance":
            bvars.add(fi.params[1])
        for n in walk_local(fi.node):
            if isinstance(n, ast.Assign) and isinstance(n.value, ast.Call) and dotted(n.value.func) == fi.params[1] and isinstance(n.targets[0], ast.Name):
                bvars.add(n.targets[0].id)
        for n in walk_local(fi.node):
            if isinstance(n, ast.Attribute) and isinstance(n.value, ast.Name) and n.value.id in bvars:
                ok = n.attr in members
                obs.append(ctx.ob(ok, fi.qualname, "%s:%d" % (fi.module.rel, n.lineno), "%s.%s exists on %s" % (n.value.id, n.attr, cq.split(".")[-1]),
                                  "attribute exists", "%s uses `%s.%s`, but the builder is a %s, which has no attribute %r (AttributeError at run time)"
                                  % (pname, n.value.id, n.attr, cq.split(".")[-1], n.attr)))
        # follow calls parse_Q(subel, X.attr)
        for n in walk_local(fi.node):
            if isinstance(n, ast.Call) and (dotted(n.func) or "").split(".")[-1].startswith("parse_") and len(n.args) == 2 and isinstance(n.args[1], ast.Attribute) \
                    and isinstance(n.args[1].value, ast.Name) and n.args[1].value.id in bvars:
                n_calls += 1
                q = dotted(n.func).split(".")[-1]      # also `Parser.parse_x(...)` for a parser grouped into a class
                attr = n.args[1].attr
                meth = ctx.P.lookup_method(ctx.P.cls(cq), attr)
                if meth is None:
                    continue  # reported above
                ctx.functions_analysed.add(meth.qualname)
                if q in ("parse_text_match", "parse_time_range"):
                    # leaf parsers call cls(...) directly: check the call signature against the builder method
                    leaf = ctx.func(CALDAV + "." + q)
                    for c in walk_local(leaf.node):
                        if isinstance(c, ast.Call) and dotted(c.func) == leaf.params[1]:
                            params = meth.params[1:]
                            npos = len(c.args)
                            kws = [k.arg for k in c.keywords]
                            ok = npos <= len(params) and all(k in params for k in kws)
                            required = [p.arg for p in meth.node.args.args[1:len(meth.node.args.args) - len(meth.node.args.defaults)]]
                            ok = ok and all((i < npos) or (r in kws) for i, r in enumerate(required))
                            obs.append(ctx.ob(ok, fi.qualname, "%s:%d" % (fi.module.rel, n.lineno), "%s -> %s.%s%s accepts the call" % (q, cq.split(".")[-1], attr, tuple(params)),
                                              "call `%s` fits" % src(c)[:50],
                                              "%s hands %s.%s to %s, which calls it as `%s`; its parameters are %s" % (pname, cq.split(".")[-1], attr, q, src(c)[:60], params)))
                    continue
                ret = _builder_returns(ctx, meth)
                if ret is None:
                    raise AnalysisError("cannot determine what %s.%s returns" % (cq, attr))
                work.append((q, ret, "factory"))
    if n_calls < 8:
        raise AnalysisError("only %d builder hand-offs found in the parse_* functions (confirmed: 9)" % n_calls)
    return obs


# --------------------------------------------------------------------------- R1

def _c(rank, a, op, b):
    x, y = rank[a], rank[b]
    return {"<": x < y, "<=": x <= y, ">": x > y, ">=": x >= y}[op]


class Row:
    def __init__(self, name, present, terms, formula, isdt=None, durpos=None, period=False):
        self.name = name
        self.present = present      # prop -> True / False / None (either)
        self.terms = terms
        self.formula = formula
        self.isdt = isdt
        self.durpos = durpos
        self.period = period


S, E = "start", "end"
TABLES: Dict[str, Tuple[str, List[str], List[Row]]] = {
    "VEVENT": ("apply_time_range_vevent", ["DTSTART", "DTEND", "DURATION"], [
        Row("DTEND", {"DTSTART": True, "DTEND": True, "DURATION": False}, [S, E, "DTSTART", "DTEND"],
            lambda r: _c(r, S, "<", "DTEND") and _c(r, E, ">", "DTSTART")),
        Row("DURATION>0", {"DTSTART": True, "DTEND": False, "DURATION": True}, [S, E, "DTSTART", "DTSTART+DURATION"],
            lambda r: _c(r, S, "<", "DTSTART+DURATION") and _c(r, E, ">", "DTSTART"), durpos=True),
        Row("DURATION=0", {"DTSTART": True, "DTEND": False, "DURATION": True}, [S, E, "DTSTART", "DTSTART+DURATION"],
            lambda r: _c(r, S, "<=", "DTSTART") and _c(r, E, ">", "DTSTART"), durpos=False),
        Row("DTSTART only, DATE-TIME", {"DTSTART": True, "DTEND": False, "DURATION": False}, [S, E, "DTSTART", "DTSTART+P1D"],
            lambda r: _c(r, S, "<=", "DTSTART") and _c(r, E, ">", "DTSTART"), isdt=True),
        Row("DTSTART only, DATE", {"DTSTART": True, "DTEND": False, "DURATION": False}, [S, E, "DTSTART", "DTSTART+P1D"],
            lambda r: _c(r, S, "<", "DTSTART+P1D") and _c(r, E, ">", "DTSTART"), isdt=False),
    ]),
    "VTODO": ("apply_time_range_vtodo", ["DTSTART", "DURATION", "DUE", "COMPLETED", "CREATED"], [
        Row("DTSTART+DURATION", {"DTSTART": True, "DURATION": True, "DUE": False, "COMPLETED": None, "CREATED": None},
            [S, E, "DTSTART", "DTSTART+DURATION"],
            lambda r: _c(r, S, "<=", "DTSTART+DURATION") and (_c(r, E, ">", "DTSTART") or _c(r, E, ">=", "DTSTART+DURATION"))),
        Row("DTSTART+DUE", {"DTSTART": True, "DURATION": False, "DUE": True, "COMPLETED": None, "CREATED": None},
            [S, E, "DTSTART", "DUE"],
            lambda r: (_c(r, S, "<", "DUE") or _c(r, S, "<=", "DTSTART")) and (_c(r, E, ">", "DTSTART") or _c(r, E, ">=", "DUE"))),
        Row("DTSTART only", {"DTSTART": True, "DURATION": False, "DUE": False, "COMPLETED": None, "CREATED": None},
            [S, E, "DTSTART"], lambda r: _c(r, S, "<=", "DTSTART") and _c(r, E, ">", "DTSTART")),
        Row("DUE only", {"DTSTART": False, "DURATION": False, "DUE": True, "COMPLETED": None, "CREATED": None},
            [S, E, "DUE"], lambda r: _c(r, S, "<", "DUE") and _c(r, E, ">=", "DUE")),
        Row("COMPLETED+CREATED", {"DTSTART": False, "DURATION": False, "DUE": False, "COMPLETED": True, "CREATED": True},
            [S, E, "COMPLETED", "CREATED"],
            lambda r: (_c(r, S, "<=", "CREATED") or _c(r, S, "<=", "COMPLETED")) and (_c(r, E, ">=", "CREATED") or _c(r, E, ">=", "COMPLETED"))),
        Row("COMPLETED only", {"DTSTART": False, "DURATION": False, "DUE": False, "COMPLETED": True, "CREATED": False},
            [S, E, "COMPLETED"], lambda r: _c(r, S, "<=", "COMPLETED") and _c(r, E, ">=", "COMPLETED")),
        Row("CREATED only", {"DTSTART": False, "DURATION": False, "DUE": False, "COMPLETED": False, "CREATED": True},
            [S, E, "CREATED"], lambda r: _c(r, E, ">", "CREATED")),
        Row("no date property", {"DTSTART": False, "DURATION": False, "DUE": False, "COMPLETED": False, "CREATED": False},
            [S, E], lambda r: True),
    ]),
    "VJOURNAL": ("apply_time_range_vjournal", ["DTSTART"], [
        Row("DTSTART DATE-TIME", {"DTSTART": True}, [S, E, "DTSTART", "DTSTART+P1D"], lambda r: _c(r, S, "<=", "DTSTART") and _c(r, E, ">", "DTSTART"), isdt=True),
        Row("DTSTART DATE", {"DTSTART": True}, [S, E, "DTSTART", "DTSTART+P1D"], lambda r: _c(r, S, "<", "DTSTART+P1D") and _c(r, E, ">", "DTSTART"), isdt=False),
        Row("no DTSTART", {"DTSTART": False}, [S, E], lambda r: False),
    ]),
    "VFREEBUSY": ("apply_time_range_vfreebusy", ["DTSTART", "DTEND", "FREEBUSY"], [
        Row("DTSTART+DTEND", {"DTSTART": True, "DTEND": True, "FREEBUSY": None}, [S, E, "DTSTART", "DTEND"],
            lambda r: _c(r, S, "<=", "DTEND") and _c(r, E, ">", "DTSTART")),
        Row("FREEBUSY period", {"DTSTART": False, "DTEND": False, "FREEBUSY": True}, [S, E, "period.start", "period.end"],
            lambda r: _c(r, S, "<", "period.end") and _c(r, E, ">", "period.start"), period=True),
        Row("neither", {"DTSTART": False, "DTEND": False, "FREEBUSY": False}, [S, E], lambda r: False),
    ]),
}


def _admissible(rank: Dict[str, int], durpos: Optional[bool]) -> bool:
    if rank[S] >= rank[E]:
        return False
    if "DTSTART+DURATION" in rank:
        if durpos is False:
            if rank["DTSTART+DURATION"] != rank["DTSTART"]:
                return False
        elif not rank["DTSTART+DURATION"] > rank["DTSTART"]:
            return False
    if "DTSTART+P1D" in rank and not rank["DTSTART+P1D"] > rank["DTSTART"]:
        return False
    if "period.start" in rank and not rank["period.start"] < rank["period.end"]:
        return False
    return True


@rule("C11", "R1", floor=19, kind="S",
      desc="the RFC 4791 section 9.9 tables: each apply_time_range_* function, interpreted over symbolic terms, agrees "
           "with the table row on every weak ordering of the terms (exhaustive for comparison-only functions)")
def r1(ctx):
    obs = []
    # the dispatch table maps component names to these functions
    ctr = ctx.P.cls(ICAL + ".ComponentTimeRangeMatcher")
    ch = ctr.attrs.get("component_handlers")
    if not isinstance(ch, ast.Dict):
        raise AnalysisError("ComponentTimeRangeMatcher.component_handlers is not a dict literal")
    handlers = {ctx.P.try_fold(ctr.module, k): dotted(v) for k, v in zip(ch.keys, ch.values)}
    total_eval = 0
    for comp, (fname, universe, rows) in TABLES.items():
        ok = handlers.get(comp) == fname
        obs.append(ctx.ob(ok, ctr.qualname, "%s:%d" % (ctr.module.rel, ctr.node.lineno), "%s handled by %s" % (comp, fname),
                          "component_handlers[%r] = %s" % (comp, handlers.get(comp)),
                          "component_handlers maps %s to %s, expected %s" % (comp, handlers.get(comp), fname)))
        fi = ctx.func(ICAL + "." + fname)
        mod_funcs = fi.module.functions

        _mc = {c.name: c for c in fi.module.classes.values()} if isinstance(fi.module.classes, dict) else {c.name: c for c in fi.module.classes}

        def resolver(d, _m=mod_funcs):
            # a module-level helper of xandikos.icalendar called by its bare name (interpreted like the caller)
            f_ = _m.get(d)
            if f_ is not None and f_.cls is None and isinstance(f_.node, ast.FunctionDef):
                return f_.node
            # ... or a helper class of that module (an object bundling the bounds, with one method per component)
            c_ = _mc.get(d)
            return c_.node if c_ is not None else None

        for row in rows:
            free = [p for p in universe if row.present.get(p) is None]
            n_eval = 0
            cex = None
            for combo in itertools.product([False, True], repeat=len(free)):
                present = {p for p in universe if row.present.get(p) is True} | {p for p, b in zip(free, combo) if b}
                isdts = [row.isdt] if row.isdt is not None else ([True, False] if "DTSTART" in present else [True])
                durs = [row.durpos] if row.durpos is not None else ([True, False] if "DURATION" in present else [True])
                for isdt in isdts:
                    for durpos in durs:
                        for rank in weak_orderings(row.terms):
                            if not _admissible(rank, durpos if "DURATION" in present else None):
                                continue
                            sc = Scenario(present, isdt, durpos, rank, has_period=row.period)
                            got = Interp(fi.node, sc, fi.short, resolver).run()
                            want = row.formula(rank)
                            n_eval += 1
                            if got != want and cex is None:
                                cex = (sc, got, want)
            total_eval += n_eval
            if n_eval == 0:
                raise AnalysisError("%s row %s: no admissible scenario" % (comp, row.name))
            obs.append(ctx.ob(cex is None, fi.qualname, fi.where, "%s row: %s" % (comp, row.name),
                              "agrees with RFC 4791 s.9.9 on all %d admissible orderings/presence combinations" % n_eval,
                              "%s deviates from the RFC 4791 section 9.9 row '%s' of the %s table: for %s the code answers %s, the table %s"
                              % (fname, row.name, comp, cex[0].describe() if cex else "", cex[1] if cex else "", cex[2] if cex else "")))
    ctx.note("C11/R1: %d symbolic evaluations" % total_eval)
    return obs


RECURRENCE_PROPS = {"RRULE", "RDATE", "EXDATE", "EXRULE", "RECURRENCE-ID"}


def _props_read(fn_node) -> Set[str]:
    out = set()
    for n in ast.walk(fn_node):
        if isinstance(n, ast.Call) and isinstance(n.func, ast.Attribute) and n.func.attr == "get" and n.args and isinstance(n.args[0], ast.Constant) \
                and isinstance(n.args[0].value, str) and n.args[0].value.isupper():
            out.add(n.args[0].value)
        if isinstance(n, ast.Subscript) and isinstance(n.slice, ast.Constant) and isinstance(n.slice.value, str) and n.slice.value.isupper():
            out.add(n.slice.value)
        if isinstance(n, ast.Compare) and isinstance(n.ops[0], (ast.In, ast.NotIn)) and isinstance(n.left, ast.Constant) and isinstance(n.left.value, str) and n.left.value.isupper():
            out.add(n.left.value)
    return out


@rule("C11", "R2", floor=1, kind="S",
      desc="recurrences: section 9.7.1 asks whether at least one recurrence instance overlaps; the set of properties read "
           "on the time-range path must include the recurrence properties")
def r2(ctx):
    S_ = ctx.summaries
    m = ctx.own_method(ICAL + ".ComponentTimeRangeMatcher", "match")
    ctr = ctx.P.cls(ICAL + ".ComponentTimeRangeMatcher")
    ch = ctr.attrs.get("component_handlers")
    funcs = [m]
    if isinstance(ch, ast.Dict):
        for v in ch.values:
            kind, obj = ctx.P.resolve_dotted(ctr.module, dotted(v) or "")
            if kind == "func":
                funcs.append(obj)
    # plus whatever they call inside the module
    reach = S_.reachable_funcs(funcs, stop=lambda f: f.module.name != ICAL)
    read = set()
    for q in reach:
        read |= _props_read(ctx.P.functions[q].node)
    ctx.functions_analysed.update(reach)
    rec = read & RECURRENCE_PROPS
    return [ctx.ob(bool(rec & {"RRULE"}), m.qualname, m.where, "time-range evaluation considers recurrence instances",
                   "reads %s" % sorted(rec),
                   "the time-range path (ComponentTimeRangeMatcher.match -> apply_time_range_*) reads only %s and none of RRULE/RDATE/EXDATE: a "
                   "recurring component whose first instance lies outside the range never matches, although a later instance overlaps"
                   % sorted(read))]


@rule("C11", "M1", floor=1, kind="S",
      desc="text-match operator: section 9.7.5 defines text-match as a substring match in the given collation")
def m1(ctx):
    tm = ctx.own_method(ICAL + ".TextMatcher", "match")
    kinds = set()
    sites = []
    for n in walk_local(tm.node):
        if isinstance(n, ast.Call) and dotted(n.func) == "self.collation" and len(n.args) >= 3:
            v = ctx.P.try_fold(tm.module, n.args[2])
            kinds.add(v)
            sites.append(n)
    if not sites:
        raise AnalysisError("TextMatcher.match no longer calls self.collation(text, value, match_type)")
    ok = kinds == {"contains"}
    return [ctx.ob(ok, tm.qualname, tm.where, "text-match is a substring match", "match type %s" % sorted(kinds),
                   "TextMatcher.match asks the collation for match type %s; RFC 4791 section 9.7.5 defines CALDAV:text-match as a substring "
                   "('contains') match, so a filter for part of a SUMMARY does not match" % sorted(kinds))]


@rule("C11", "Q1", floor=2, kind="S", desc="calendar-data without sub-elements is the resource's body; the query reporter is bound to it")
def q1(ctx):
    from .c17 import data_from_body
    obs = data_from_body(ctx, "xandikos.caldav.CalendarDataProperty", "xandikos.caldav.CalendarQueryReporter")
    # the report only answers for resources the store's filter selected
    rp = ctx.own_method("xandikos.caldav.CalendarQueryReporter", "report")
    uses = any(isinstance(n, ast.Call) and isinstance(n.func, ast.Attribute) and n.func.attr == "calendar_query" for n in ast.walk(rp.node))
    obs.append(ctx.ob(uses, rp.qualname, rp.where, "members come from collection.calendar_query(filter)", "traverse_resource(members=calendar_query)",
                      "CalendarQueryReporter.report no longer restricts the members to collection.calendar_query(filter_fn)"))
    cq = ctx.own_method("xandikos.web.CalendarCollection", "calendar_query")
    ok = any(isinstance(n, ast.Call) and dotted(n.func) == "self.store.iter_with_filter" for n in ast.walk(cq.node))
    obs.append(ctx.ob(ok, cq.qualname, cq.where, "calendar_query iterates store.iter_with_filter(filter)", "store.iter_with_filter(filter=filter)",
                      "CalendarCollection.calendar_query no longer applies the filter through store.iter_with_filter"))
    return obs


@rule("C11", "I1", floor=7, kind="N",
      desc="queries answered from the index see complete, current values (same obligations as C10/X4, X5, X6): "
           "otherwise a matching resource is silently missing from a calendar-query")
def i1(ctx):
    from .c10 import x4, x5, x6
    return list(x4(ctx)) + list(x5(ctx)) + list(x6(ctx))


@rule("C11", "Z1", floor=1, kind="N",
      desc="floating and DATE values are interpreted in the time zone the query runs in: as_tz_aware_ts attaches no "
           "time zone other than the one it was given")
def z1(ctx):
    fi = ctx.func(ICAL + ".as_tz_aware_ts")
    tzparam = fi.params[1] if len(fi.params) > 1 else None
    if tzparam is None:
        raise AnalysisError("as_tz_aware_ts signature changed")
    bad = []
    uses = 0
    for n in ast.walk(fi.node):
        if isinstance(n, ast.Call):
            for k in n.keywords:
                if k.arg in ("tzinfo", "tz"):
                    if isinstance(k.value, ast.Name) and k.value.id == tzparam:
                        uses += 1
                    else:
                        bad.append(src(n))
            d = dotted(n.func) or ""
            if d.split(".")[-1] in ("astimezone", "localize") and not (n.args and isinstance(n.args[0], ast.Name) and n.args[0].id == tzparam):
                bad.append(src(n))
    return [ctx.ob(not bad and uses >= 1, fi.qualname, fi.where, "only the default time zone is attached", "tzinfo=%s" % tzparam,
                   "as_tz_aware_ts attaches a time zone of its own in `%s`: DATE / floating values are then not interpreted in the query's time zone, so "
                   "all-day events match or miss ranges near day boundaries" % (bad[0] if bad else "(no use of the parameter)"))]


@rule("C11", "I2", floor=3, kind="S",
      desc="queries answered from the index apply the same conditions as the naive evaluation (same obligations as "
           "C10/X10): no extra shortcut in ComponentTimeRangeMatcher.match_indexes / ComponentFilter.match_indexes")
def i2(ctx):
    from .c10 import x10
    return x10(ctx)


@rule("C11", "F1", floor=3, kind="S",
      desc="the naive evaluator answers from the parsed calendar: CalendarFilter.check says 'no match' only because the "
           "file is no calendar, a child filter does not match, or a required property is missing - never from a test "
           "on the raw bytes (escaped and folded text is not found there)")
def f1(ctx):
    fi = ctx.own_method(ICAL + ".CalendarFilter", "check")
    cfg = ctx.cfg(fi)
    du = DefUse(cfg)
    file_param = fi.params[2] if len(fi.params) > 2 else "file"
    obs = []

    def allowed(t) -> bool:
        if isinstance(t, ast.Call):
            d = dotted(t.func) or ""
            if d == "isinstance" and t.args and isinstance(t.args[0], ast.Name) and t.args[0].id == file_param:
                return True
            if isinstance(t.func, ast.Attribute) and t.func.attr in ("match", "match_indexes"):
                return True
        if isinstance(t, ast.Compare) and len(t.ops) == 1 and isinstance(t.ops[0], (ast.Is, ast.IsNot)) \
                and isinstance(t.comparators[0], ast.Constant) and t.comparators[0].value is None:
            os_ = origins(du, by_ast[id(t)], t.left) if id(t) in by_ast else []
            return bool(os_) and all(o.kind == "expr" and isinstance(o.leaf, ast.Attribute) and o.leaf.attr == "calendar" for o in os_)
        return False

    by_ast = {}
    for n in cfg.nodes:
        if n.kind == "test":
            by_ast.setdefault(id(n.ast), n)
    falses = [n for n in cfg.nodes if n.kind == "return" and isinstance(n.ast.value, ast.Constant) and n.ast.value.value is False]
    if len(falses) < 2:
        raise AnalysisError("CalendarFilter.check: `return False` sites not found")
    for r in falses:
        in_missing = r.handler is not None and r.handler.types is not None and "MissingProperty" in r.handler.types
        conds = [t for t, _p in cfg.required_conditions(r)]
        extra = [src(t)[:50] for t in conds if not allowed(t)]
        obs.append(ctx.ob(not extra and (in_missing or bool(conds)), fi.qualname, where(fi, r), "no-match decided from the parsed object",
                          "conditions: not a calendar file / child filter does not match / missing property",
                          "CalendarFilter.check answers False under `%s`, which is not the verdict of a child filter on the parsed calendar: "
                          "a resource that matches the filter (e.g. text with escaped characters or folded lines) is left out"
                          % " and ".join(extra)))
    pm = ctx.own_method(ICAL + ".PropertyTimeRangeMatcher", "match")
    pcfg = ctx.cfg(pm)
    pdu = DefUse(pcfg)
    rets = [n for n in pcfg.nodes if n.kind == "return"]
    if not rets:
        raise AnalysisError("PropertyTimeRangeMatcher.match has no return")
    for r in rets:
        v = r.ast.value
        os_ = origins(pdu, r, v) if v is not None else []
        compares = bool(os_) and all(o.kind == "expr" and o.leaf is not None and not isinstance(o.leaf, ast.Constant)
                                     and any(isinstance(x, ast.Compare) for x in ast.walk(o.leaf))
                                     and any(isinstance(x, ast.Attribute) and dotted(x) in ("self.start", "self.end") for x in ast.walk(o.leaf)) for o in os_)
        obs.append(ctx.ob(compares, pm.qualname, where(pm, r), "prop-filter time-range is decided by comparing with start/end",
                          "return <value> compared with self.start / self.end",
                          "PropertyTimeRangeMatcher.match answers `%s` without comparing the value with the range: DATE values (all-day "
                          "DTSTART, DUE;VALUE=DATE) are not datetime instances and never match" % (src(v) if v is not None else "None")))
    return obs


@rule("C11", "I3", floor=1, kind="S",
      desc="is-not-defined and presence filters see the same properties on both paths: the index records every property "
           "that exists, whatever its value (same obligations as C10/X13)")
def i3(ctx):
    from .c10 import index_presence_obligations
    return index_presence_obligations(ctx)


@rule("C11", "I4", floor=1, kind="S",
      desc="a text-match answered from the index needs a value to match: TextMatcher.match_indexes is an existential "
           "over the indexed values (`any(...)`, or True only from inside the loop over them), so a component without the "
           "property never matches - negation is applied per value inside match(), as on the path that parses the calendar; "
           "a universal (`all`) over no values is true and returns resources that lack the property")
def i4(ctx):
    from .common import loop_body_nodes
    fi = ctx.own_method(ICAL + ".TextMatcher", "match_indexes")
    cfg = ctx.cfg(fi)
    du = DefUse(cfg)
    rets = [n for n in cfg.nodes if n.kind == "return"]
    if not rets:
        raise AnalysisError("TextMatcher.match_indexes: no return")
    loops = [n for n in cfg.nodes if n.kind == "for"]
    obs = []
    for r in rets:
        v = r.ast.value if isinstance(r.ast, ast.Return) else r.ast
        if v is None:
            raise AnalysisError("TextMatcher.match_indexes: bare return")
        for o in origins(du, r, v):
            leaf = o.leaf
            verdict = None
            if o.kind == "expr" and isinstance(leaf, ast.Call) and dotted(leaf.func) == "any":
                verdict = True
            elif o.kind == "expr" and isinstance(leaf, ast.Call) and dotted(leaf.func) == "all":
                verdict = False
            elif o.kind == "expr" and isinstance(leaf, ast.Constant) and leaf.value is False:
                verdict = True
            elif o.kind == "expr" and isinstance(leaf, ast.Constant) and leaf.value is True:
                at = o.node or r
                verdict = any(at.id in loop_body_nodes(cfg, lp) for lp in loops)
            if verdict is None:
                raise AnalysisError("TextMatcher.match_indexes: result `%s` is not a recognised form" % src(leaf if leaf is not None else v)[:60])
            obs.append(ctx.ob(verdict, fi.qualname, "%s:%d" % (fi.module.rel, r.lineno), "index answer is existential over the values",
                              "return %s" % src(leaf)[:50],
                              "TextMatcher.match_indexes answers `%s`: true when the component has no value for the property at all, while the "
                              "path that parses the calendar requires the property to be present - once a query is served from the index it "
                              "returns components (and resources) that lack the property" % src(leaf)[:60]))
    return obs
