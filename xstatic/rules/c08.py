"""C08 — the collection tag changes exactly when the collection changes."""

from __future__ import annotations

import ast

from ..core import rule
from ..dataflow import DefUse
from ..program import AnalysisError, dotted, src
from ..core import walk_local  # inline-aware
from .common import unwrap_await, where
from .storelib import facts

SBC = "xandikos.web.StoreBasedCollection"
GIT = "xandikos.store.git"


def single_source_obligations(ctx):
    obs = []
    for nm, wrap in (("get_sync_token", False), ("get_ctag", False), ("get_etag", True)):
        f = ctx.own_method(SBC, nm)
        ok = False
        for n in walk_local(f.node):
            if isinstance(n, ast.Return):
                v = unwrap_await(n.value)
                if wrap and isinstance(v, ast.Call) and (dotted(v.func) or "").endswith("create_strong_etag") and v.args:
                    v = v.args[0]
                ok = isinstance(v, ast.Call) and dotted(v.func) == "self.store.get_ctag" and not v.args
        obs.append(ctx.ob(ok, f.qualname, f.where, "%s is store.get_ctag()" % nm, "returns %sself.store.get_ctag()" % ("a quoting of " if wrap else ""),
                          "StoreBasedCollection.%s no longer returns the store's ctag: the three collection tags can disagree" % nm))
    for pq, getter in (("xandikos.webdav.GetCTagProperty", "get_ctag"), ("xandikos.sync.SyncTokenProperty", "get_sync_token")):
        pc = ctx.P.cls(pq)
        from .common import serves_resource_call
        _gv, ok = serves_resource_call(ctx, pq, getter)
        obs.append(ctx.ob(ok, pq, "%s:%d" % (pc.module.rel, pc.node.lineno), "%s serves resource.%s()" % (pc.name, getter), "el.text = resource.%s()" % getter,
                          "%s no longer serves resource.%s()" % (pc.name, getter)))
    for pq in ("xandikos.webdav.DAVGetCTagProperty", "xandikos.webdav.AppleGetCTagProperty"):
        pc = ctx.P.cls(pq)
        ok = "get_value" not in pc.methods and any(b.qualname == "xandikos.webdav.GetCTagProperty" for b in pc.mro[1:])
        obs.append(ctx.ob(ok, pq, "%s:%d" % (pc.module.rel, pc.node.lineno), "%s inherits GetCTagProperty.get_value" % pc.name, "no override",
                          "%s overrides get_value" % pc.name))
    return obs


@rule("C08", "G1", floor=7, kind="S",
      desc="single source: sync-token, both getctag properties and the collection ETag all read store.get_ctag()")
def g1(ctx):
    return single_source_obligations(ctx)


CLOCKS = ("time.", "datetime.", "uuid.", "random.", "os.urandom", "itertools.count")


@rule("C08", "G2", floor=4, kind="S",
      desc="the tag is the id of the tree of the current membership (a tree object id / Index.commit), not a commit id, "
           "counter or clock")
def g2(ctx):
    obs = []
    from ..dataflow import value_roots
    f = ctx.own_method(GIT + ".BareGitStore", "get_ctag")
    cfgb = ctx.cfg(f)
    dub = DefUse(cfgb)
    retsb = [n for n in cfgb.nodes if n.kind == "return" and n.ast.value is not None]
    ok = bool(retsb)
    for r in retsb:
        roots = value_roots(dub, r, r.ast.value)
        # <self._get_current_tree()>.id
        good = bool(roots) and all(
            o.kind == "expr" and not o.path and isinstance(o.leaf, ast.Attribute) and o.leaf.attr == "id"
            and (lambda bo: bool(bo) and all(b.kind == "expr" and not b.path and isinstance(b.leaf, ast.Call) and dotted(b.leaf.func) == "self._get_current_tree"
                                             for b in bo))(value_roots(dub, o.node, o.leaf.value))
            for o in roots)
        ok = ok and good
    obs.append(ctx.ob(ok, f.qualname, f.where, "bare ctag is the id of the current tree", "self._get_current_tree().id",
                      "BareGitStore.get_ctag does not return the id of the current tree"))
    ct = ctx.own_method(GIT + ".BareGitStore", "_get_current_tree")
    cfg = ctx.cfg(ct)
    du = DefUse(cfg)
    for r in [n for n in cfg.nodes if n.kind == "return"]:
        v = r.ast.value
        kind = None
        if isinstance(v, ast.Call) and dotted(v.func) == "Tree" and not v.args:
            kind = "empty tree"
        elif isinstance(v, ast.Subscript) and (dotted(v.value) or "").endswith("object_store") and isinstance(v.slice, ast.Attribute) and v.slice.attr == "tree":
            kind = "tree of the commit the ref points at"
        elif isinstance(v, ast.Name):
            for t, pol in cfg.required_conditions(r):
                if pol and isinstance(t, ast.Call) and dotted(t.func) == "isinstance" and len(t.args) == 2 and dotted(t.args[0]) == v.id and dotted(t.args[1]) == "Tree":
                    kind = "ref object that is a tree"
        obs.append(ctx.ob(kind is not None, ct.qualname, where(ct, r), "returns a tree (%s)" % (kind or src(v)), kind or "",
                          "_get_current_tree returns `%s`, which is not (known to be) the tree of the current head: the ctag would be a commit id or "
                          "something else that changes without the membership changing" % src(v)))
    # the ref object is read from the store's own ref
    ok = any(isinstance(n, ast.Subscript) and dotted(n.value) == "self.repo" and dotted(n.slice) == "self.ref" for n in walk_local(ct.node))
    obs.append(ctx.ob(ok, ct.qualname, ct.where, "current tree is read through self.ref", "self.repo[self.ref]", "_get_current_tree does not read self.repo[self.ref]"))
    f = ctx.own_method(GIT + ".TreeGitStore", "get_ctag")
    cfg = ctx.cfg(f)
    du = DefUse(cfg)
    rets = [n for n in cfg.nodes if n.kind == "return"]
    ok = bool(rets)
    for r in rets:
        this = False
        roots = value_roots(du, r, r.ast.value) if r.ast.value is not None else []
        if roots and all(o.kind == "expr" and not o.path and isinstance(o.leaf, ast.Call) and isinstance(o.leaf.func, ast.Attribute)
                         and o.leaf.func.attr == "commit" for o in roots):
            this = True
            for o in roots:
                io = value_roots(du, o.node, o.leaf.func.value)
                if not (io and all(b.kind == "expr" and not b.path and isinstance(b.leaf, ast.Call) and dotted(b.leaf.func) == "self.repo.open_index" for b in io)):
                    this = False
        # the listing of the tree store comes from the index, so the tag must come from the index on EVERY path
        ok = ok and this
    obs.append(ctx.ob(ok, f.qualname, f.where, "tree ctag is Index.commit() of a freshly opened index", "self.repo.open_index().commit(object_store)",
                      "TreeGitStore.get_ctag has a return that is not the tree id written from a freshly opened index: members are listed from the index, so a tag "
                      "taken from the branch head moves before/without the visible membership changing"))
    for cq in (GIT + ".BareGitStore", GIT + ".TreeGitStore"):
        f = ctx.own_method(cq, "get_ctag")
        bad = [dotted(c.func) for c in walk_local(f.node) if isinstance(c, ast.Call) and (dotted(c.func) or "").startswith(CLOCKS)]
        bad += [src(n) for n in walk_local(f.node) if isinstance(n, ast.Call) and (dotted(n.func) or "").split(".")[-1] in ("head", "get_walker", "get_refs")]
        obs.append(ctx.ob(not bad, f.qualname, f.where, "ctag has no clock / counter / commit-id ingredient", "none",
                          "%s.get_ctag uses %s: the tag changes (or fails to change) independently of the contents" % (cq.split(".")[-1], bad)))
    return obs


READ_API = ["get_ctag", "iter_with_etag", "get_file", "_get_raw", "_get_etag", "_iterblobs", "iter_changes", "get_type",
            "get_displayname", "get_description", "get_color", "get_comment", "get_source_url", "subdirectories", "iter_with_filter"]


@rule("C08", "G3", floor=15, kind="S",
      desc="nothing but a visible mutation can change the tag: no read method of a git store reaches a ref/index/"
           "working-tree mutation")
def g3(ctx):
    F = facts(ctx)
    S = ctx.summaries
    obs = []
    store_base = ctx.P.cls("xandikos.store.Store")
    for cq in (GIT + ".BareGitStore", GIT + ".TreeGitStore"):
        ci = ctx.P.cls(cq)
        for nm in READ_API:
            f = ctx.P.lookup_method(ci, nm)
            if f is None:
                continue
            ctx.functions_analysed.add(f.qualname)
            # follow calls, restricted to what an instance of this class can reach
            seen, todo, hits = set(), [f], []
            while todo:
                g = todo.pop()
                if g.qualname in seen:
                    continue
                seen.add(g.qualname)
                cfg = ctx.cfg(g)
                for n in cfg.stmt_nodes():
                    if n.kind == "with_exit" and F.is_locked_index_with(n.ast):
                        hits.append((g, n, "index-write"))
                for (n, c, targets, ext) in S.calls_of(g):
                    lab = F.mut_local(g, n, c, ext)
                    if lab:
                        hits.append((g, n, lab))
                    for t in targets:
                        # other store classes are other objects; collaborators (the metadata back ends) are followed
                        if t.cls is not None and t.module.name.startswith("xandikos.store") and t.cls not in ci.mro \
                                and store_base in t.cls.mro:
                            continue
                        if isinstance(c, ast.Call) and (dotted(c.func) or "").startswith("self.") and t.cls is not None and t.cls in ci.mro:
                            m = ctx.P.lookup_method(ci, t.name)
                            if m is not None and m is not t:
                                continue
                        if t.module.name.startswith("xandikos.store") or t.module.name in ("xandikos.icalendar", "xandikos.vcard"):
                            todo.append(t)
            obs.append(ctx.ob(not hits, cq + "." + nm, f.where, "read method %s is mutation-free" % nm,
                              "%d functions followed, no mutation" % len(seen),
                              "read method %s.%s reaches `%s` (%s in %s): a read can change the collection tag"
                              % (ci.name, nm, hits[0][1].text()[:50] if hits else "", hits[0][2] if hits else "", hits[0][0].short if hits else "")))
    return obs


@rule("C08", "G4", floor=5, kind="N",
      desc="the content the tag stands for is the content that is served: the tree store's read API never goes "
           "through the working-tree file (same obligations as C04/B2) - otherwise GET can change while every tag stays")
def g4(ctx):
    from .c04 import b2
    return b2(ctx)


@rule("C08", "G5", floor=3, kind="N",
      desc="index, working tree and commit move together inside the critical section (same obligations as C09/K3): "
           "the tag is computed from the index, a commit or file change outside the lock makes it name a state that "
           "HEAD / GET do not show")
def g5(ctx):
    from .c09 import k3
    return k3(ctx)


def awaited_writes_obligations(ctx):
    """A store mutation started in a worker thread is awaited until it is done: the `to_thread(<store mutation>)` call is the
    direct operand of `await` - not wrapped in wait_for / a timeout / a task that can be abandoned while the thread goes on."""
    obs = []
    muts = ("import_one", "delete_one", "set_type", "set_description", "set_displayname", "set_color", "set_comment", "destroy")
    n_sites = 0
    for mname in ("xandikos.web",):
        for fi in ctx.P.funcs_in_module(mname):
            parents = {}
            for p_ in ast.walk(fi.node):
                for ch in ast.iter_child_nodes(p_):
                    parents[id(ch)] = p_
            for c in ast.walk(fi.node):
                if not (isinstance(c, ast.Call) and (dotted(c.func) or "").split(".")[-1] == "to_thread" and c.args):
                    continue
                tgt = (dotted(c.args[0]) or "").split(".")[-1]
                if tgt not in muts:
                    continue
                # only the innermost function that contains the call
                own = c
                skip = False
                while id(own) in parents:
                    own = parents[id(own)]
                    if isinstance(own, (ast.FunctionDef, ast.AsyncFunctionDef, ast.Lambda)):
                        skip = own is not fi.node
                        break
                if skip:
                    continue
                n_sites += 1
                par = parents.get(id(c))
                direct = isinstance(par, ast.Await)
                timed = False
                x = c
                while id(x) in parents:
                    x = parents[id(x)]
                    if isinstance(x, (ast.AsyncWith, ast.With)) and any("timeout" in (dotted(i.context_expr.func) if isinstance(i.context_expr, ast.Call) else dotted(i.context_expr) or "") .lower()
                                                                          for i in x.items if (dotted(i.context_expr.func) if isinstance(i.context_expr, ast.Call) else dotted(i.context_expr))):
                        timed = True
                obs.append(ctx.ob(direct and not timed, fi.qualname, "%s:%d" % (fi.module.rel, c.lineno), "store write in a worker thread is awaited to the end",
                                  "await to_thread(%s, ...)" % tgt,
                                  "`%s` is not awaited directly (wrapped in `%s`): giving up on the await does not stop the worker thread, so a request "
                                  "answered as failed (423/5xx) still changes the collection and its tag afterwards"
                                  % (src(c)[:50], (src(par)[:40] if par is not None and not isinstance(par, ast.Await) else "a timeout block"))))
    if n_sites < 1:
        raise AnalysisError("no to_thread(<store mutation>) site found in xandikos.web (confirmed: 1)")
    return obs


@rule("C08", "G6", floor=1, kind="N",
      desc="the tag is not changed by requests that were answered as failed: a store write running in a worker thread "
           "is awaited to completion (no wait_for / timeout around to_thread(store.import_one))")
def g6(ctx):
    return awaited_writes_obligations(ctx)


@rule("C08", "G7", floor=1, kind="S",
      desc="the tag does not depend on reads: the 'no commit yet' answer (an empty tree) of the bare store is given only when "
           "the ref does not resolve - the `except KeyError` covers the ref lookup and nothing else (a missing tree object "
           "must be an error, not an empty collection with another tag)")
def g7(ctx):
    from .common import handler_body_nodes
    f = ctx.own_method(GIT + ".BareGitStore", "_get_current_tree")
    cfg = ctx.cfg(f)
    obs = []
    for h in cfg.handlers:
        if not (h.types and "KeyError" in h.types):
            continue
        covered = [n for n in cfg.stmt_nodes() if any(m is h.entry and l == "exc" for m, l in n.succ)]
        extra = []
        for n in covered:
            for e in n.exprs():
                for x in ast.walk(e):
                    if isinstance(x, ast.Subscript) and isinstance(x.ctx, ast.Load):
                        k = dotted(x.slice) or src(x.slice)
                        if k not in ("self.ref",) and not k.endswith(".ref"):
                            extra.append(src(x)[:50])
        obs.append(ctx.ob(not extra, f.qualname, where(f, h.entry), "`except KeyError` covers only the ref lookup", "try: self.repo[self.ref]",
                          "the `except KeyError: return Tree()` of _get_current_tree also covers `%s`: an unreachable tree object is answered "
                          "as an empty collection - the tag changes and changes back with only reads in between" % (extra[0] if extra else "")))
    if not obs:
        raise AnalysisError("BareGitStore._get_current_tree: `except KeyError` not found")
    return obs


@rule("C08", "G8", floor=4, kind="N",
      desc="a refused or failed write leaves the tag alone: the index is written back only when the critical section "
           "completed - on any exception the lock is aborted (same obligations as C04/B3)")
def g8(ctx):
    from .c04 import b3
    return b3(ctx)


@rule("C08", "G9", floor=20, kind="N",
      desc="the tag names the current state: get_ctag and the readers it shares its source with keep nothing on the store object (same obligations as C04/B8)")
def g9_rp(ctx):
    from .c04 import reader_purity_obligations
    return reader_purity_obligations(ctx)


_TOTAL_ATTRS = {"decode", "encode", "hexdigest", "format", "debug", "info", "warning", "join"}
_TOTAL_NAMES = {"str", "len", "tuple", "bytes", "repr"}


@rule("C08", "G10", floor=5, kind="S",
      desc="a request that fails has not moved the tag: in the git write functions nothing that can fail runs after the "
           "last visible mutation (the commit / the release of the index lock) completed - only the result is converted "
           "and returned.  Work appended after the commit (feeding an index, notifying) turns its own error into a 500 "
           "for a write that has already changed ctag, sync-token and listing")
def g10(ctx):
    from .c01 import STORE_WRITE_API
    F = facts(ctx)
    obs = []
    for cq, nm in STORE_WRITE_API:
        if not cq.startswith(GIT + "."):
            continue
        fi = ctx.home_method(cq, nm)
        cfg = ctx.cfg(fi)
        muts = [n for n in cfg.stmt_nodes() if F.node_mutations(fi, n)]
        if not muts:
            raise AnalysisError("%s.%s: no visible mutation found" % (cq, nm))
        last = [n for n in muts if not any(m is not n and m.id in cfg.after_normal(n, follow_exc=False) for m in muts)]
        for n in last:
            aft = cfg.after_normal(n, follow_exc=False)
            risky = []
            for m in cfg.stmt_nodes():
                if m.id not in aft or m is n:
                    continue
                for c in m.calls():
                    d = dotted(c.func) or ""
                    if isinstance(c.func, ast.Attribute) and c.func.attr in _TOTAL_ATTRS:
                        continue
                    if d in _TOTAL_NAMES or d.startswith(("logging.", "logger.")):
                        continue
                    from .common import as_tuple
                    if as_tuple(ctx, fi, m, c) is not None:
                        continue      # construction of a record (NamedTuple / dataclass) for the result
                    risky.append((m, c))
            obs.append(ctx.ob(not risky, "%s.%s" % (cq, nm), "%s:%d" % (fi.module.rel, n.lineno), "nothing fallible after the last mutation",
                              "after line %d only the result is returned" % n.lineno,
                              "%s.%s calls `%s` (line %d) after the write has been committed: when that call raises, the request is answered "
                              "with an error although ctag, sync-token, collection ETag and the listing have already changed"
                              % (cq.split(".")[-1], nm, src(risky[0][1])[:60] if risky else "", risky[0][0].lineno if risky else 0)))
    return obs
