"""C05 — concurrent writes behave as if executed one after another (lock discipline)."""

from __future__ import annotations

import ast

from ..cfg import WithCtx
from ..core import rule
from ..dataflow import DefUse, origins
from ..program import AnalysisError, dotted, src
from ..core import walk_local  # inline-aware
from .common import raise_targets, handler_catching, handler_body_nodes, translation, where
from .storelib import facts, node_desc, StoreFacts
from .c09 import BARE, TREE, _commit_nodes, in_locked_index
from .c01 import response_status, return_status
from .c14 import WEB_IMPORT_SITES, import_call_nodes

GIT = "xandikos.store.git.GitStore"


def in_any_lock(n) -> bool:
    for c in n.ctx:
        if isinstance(c, WithCtx):
            for it in c.stmt.items:
                s = src(it.context_expr).lower()
                if "lock" in s or "mutex" in s:
                    return True
    return False


@rule("C05", "L0", floor=9, kind="S",
      desc="tree store: index mutation, working-tree change and commit are inside `with locked_index(index_path)`; "
           "FileLocked -> LockedError -> ResourceLocked -> 423")
def l0(ctx):
    F = facts(ctx)
    obs = []
    for nm in ("_import_one", "delete_one"):
        fi = ctx.own_method(TREE, nm)
        cfg = ctx.cfg(fi)
        sites = []
        for n in cfg.stmt_nodes():
            lab = set()
            if n.kind == "stmt" and isinstance(n.ast, (ast.Assign, ast.Delete)) and any(isinstance(t, ast.Subscript) for t in n.ast.targets):
                lab.add("index mutation")
            if any((dotted(c.func) or "").endswith("_commit_tree") for c in n.calls()):
                lab.add("commit")
            for c in n.calls():
                if dotted(c.func) in ("os.unlink", "os.remove", "os.replace"):
                    lab.add("working-tree change")
            if n.kind == "with_enter" and any(isinstance(i.context_expr, ast.Call) and F.mut_local(fi, n, i.context_expr, "open") for i in n.ast.items):
                lab.add("working-tree change")
            if lab:
                sites.append((n, lab))
        if len(sites) < 3:
            raise AnalysisError("TreeGitStore.%s: expected >= 3 write sites, found %d" % (nm, len(sites)))
        for n, lab in sites:
            ok = in_locked_index(n)
            obs.append(ctx.ob(ok, fi.qualname, where(fi, n), "%s inside locked_index" % "/".join(sorted(lab)),
                              "`%s` is in the critical section" % node_desc(n),
                              "`%s` (%s) is outside `with locked_index(...)`: concurrent writers interleave" % (node_desc(n), "/".join(sorted(lab)))))
        # the lock is the repository's index lock
        withs = [n for n in cfg.nodes if n.kind == "with_enter" and StoreFacts.is_locked_index_with(n.ast)]
        for w in withs:
            arg = w.ast.items[0].context_expr.args[0] if w.ast.items[0].context_expr.args else None
            ok = arg is not None and src(arg) == "self.repo.index_path()"
            if not ok and isinstance(arg, ast.Name):
                os_ = origins(DefUse(cfg), w, arg)        # the path taken into a local first
                ok = bool(os_) and all(o.kind == "expr" and not o.path and o.leaf is not None and src(o.leaf) == "self.repo.index_path()" for o in os_)
            obs.append(ctx.ob(ok, fi.qualname, where(fi, w), "lock is taken on self.repo.index_path()", "locked_index(self.repo.index_path())",
                              "locked_index is given `%s`, not the repository's index path: writers do not exclude each other" % (src(arg) if arg is not None else "?")))
            # FileLocked -> LockedError
            h = handler_catching(cfg, w, "FileLocked")
            ok = h is not None and any(b.kind == "raise" and b.extra.get("exc") == "LockedError" for b in handler_body_nodes(cfg, h))
            obs.append(ctx.ob(ok, fi.qualname, where(fi, w), "FileLocked -> LockedError", "a held lock is reported as LockedError",
                              "FileLocked raised by locked_index is not translated to LockedError in %s" % fi.short))
    # the index is read only after the lock file has been taken
    GITQ = "xandikos.store.git.locked_index"
    if GITQ in ctx.P.classes:
        lock_funcs = list(ctx.P.cls(GITQ).methods.values())
        enter_name = "__enter__"
    elif ctx.P.has_func(GITQ) and {"contextmanager", "contextlib.contextmanager"} & set(ctx.func(GITQ).decorators):
        lock_funcs = [ctx.func(GITQ)]          # the same context manager written as a generator
        enter_name = "locked_index"
    else:
        raise AnalysisError("class xandikos.store.git.locked_index not found")
    reads = []
    for m in lock_funcs:
        cfgm = ctx.cfg(m)
        for n in cfgm.stmt_nodes():
            for c in n.calls():
                d = (dotted(c.func) or "").split(".")[-1]
                if d in ("Index", "open_index", "read_index", "read_index_dict"):
                    reads.append((m, n))
    if not reads:
        raise AnalysisError("locked_index: the statement that reads the index was not found")
    for m, n in reads:
        cfgm = ctx.cfg(m)
        locks = [x for x in cfgm.stmt_nodes() for c in x.calls() if (dotted(c.func) or "").split(".")[-1] == "GitFile"]
        ok = m.name == enter_name and bool(locks) and cfgm.normal_completion_dominates(locks, n)
        if ok and enter_name != "__enter__":
            # generator form: the read must also precede the yield (it is part of entering)
            ys_ = [y for y in cfgm.stmt_nodes() if y.kind == "stmt" and isinstance(y.ast, ast.Expr) and isinstance(y.ast.value, ast.Yield)]
            ok = bool(ys_) and all(cfgm.normal_completion_dominates([n], y) for y in ys_)
        obs.append(ctx.ob(ok, m.qualname, where(m, n), "index is read after the lock file is taken",
                          "`%s` follows GitFile(path, 'wb') in __enter__" % node_desc(n),
                          "`%s` in locked_index.%s reads the index before (or without) taking <index>.lock: a writer that is preempted between "
                          "the read and the lock writes back a stale index and the other writer's entry is lost" % (node_desc(n), m.name)))
    for cq, nm in WEB_IMPORT_SITES:
        fi = ctx.own_method(cq, nm)
        for n in import_call_nodes(ctx, fi):
            h, raises, rets = translation(ctx, fi, n, "LockedError")
            ok = any(r.extra.get("exc") == "ResourceLocked" or any(nm_ == "ResourceLocked" for nm_, _a in raise_targets(r, "LockedError")) for r in raises)
            obs.append(ctx.ob(ok, fi.qualname, where(fi, n), "LockedError -> ResourceLocked", "LockedError becomes ResourceLocked",
                              "LockedError from store.import_one is not translated to ResourceLocked in %s" % fi.short))
    for q in ("xandikos.webdav.PutMethod.handle", "xandikos.webdav.PostMethod.handle"):
        fi = ctx.func(q)
        cfg = ctx.cfg(fi)
        for n in cfg.stmt_nodes():
            for c in n.calls():
                if isinstance(c.func, ast.Attribute) and c.func.attr in ("set_body", "create_member"):
                    h, raises, rets = translation(ctx, fi, n, "ResourceLocked")
                    sts = [return_status(ctx, fi, r) for r in rets if r.ast.value is not None]
                    ok = h is not None and bool(sts) and all(s == 423 for s in sts)
                    obs.append(ctx.ob(ok, q, where(fi, n), "ResourceLocked -> 423 at %s" % c.func.attr, "answered 423 Locked",
                                      "ResourceLocked from `%s` is %s" % (c.func.attr, "not caught" if h is None else "answered %s" % sts)))
    return obs


DECISIONS = {"InvalidETag", "DuplicateUidError"}


@rule("C05", "L1", floor=2, kind="S",
      desc="tree store: the reads a refusal (InvalidETag / DuplicateUidError) depends on happen inside the same "
           "critical section as the write they guard")
def l1(ctx):
    F = facts(ctx)
    obs = []
    tree = ctx.P.cls(TREE)
    for nm in ("import_one", "delete_one"):
        fi = ctx.home_method(TREE, nm)
        cfg = ctx.cfg(fi)
        found = False
        for n in cfg.stmt_nodes():
            dec = F.node_refusals(fi, n, DECISIONS)
            if not dec:
                continue
            # is the decision made under the lock?  Lexically here, or inside a callee that takes it itself.
            found = True
            locked_here = in_locked_index(n) or in_any_lock(n)
            callee_locks = False
            if not locked_here:
                for (m, c, targets, ext) in ctx.summaries.calls_of(fi):
                    if m is n:
                        for t in targets:
                            if t.cls is not None and t.cls.qualname.startswith("xandikos.store") and t.cls not in tree.mro:
                                continue
                            if _raises_only_under_lock(ctx, F, t, dec):
                                callee_locks = True
            what = "/".join(F.callee_names(fi, n)[:1]) or ("raise " + "/".join(sorted(dec)))
            obs.append(ctx.ob(locked_here or callee_locks, fi.qualname, where(fi, n),
                              "%s decided at %s under the index lock" % ("/".join(sorted(dec)), what if not what.startswith("raise ") else "raise"),
                              "decision read is inside the critical section",
                              "`%s` decides %s from a read made BEFORE `with locked_index` is entered: two conditional writes against the "
                              "same ETag (or two creates with one UID) can both pass the check and then serialise on the lock, both succeeding"
                              % (node_desc(n), "/".join(sorted(dec)))))
        if not found:
            raise AnalysisError("TreeGitStore.%s: no InvalidETag/DuplicateUidError decision found" % nm)
    return obs


def _raises_only_under_lock(ctx, F, t, dec) -> bool:
    cfg = ctx.cfg(t)
    nodes = [n for n in cfg.stmt_nodes() if F.node_refusals(t, n, dec)]
    return bool(nodes) and all(in_locked_index(n) or in_any_lock(n) for n in nodes)


@rule("C05", "L2", floor=2, kind="S",
      desc="bare store: read-modify-commit of the tree is protected by a lock or by a compare-and-set on the head "
           "that was read")
def l2(ctx):
    obs = []
    for nm in ("_import_one", "delete_one"):
        fi = ctx.own_method(BARE, nm)
        cfg = ctx.cfg(fi)
        reads = [n for n in cfg.stmt_nodes() for c in n.calls() if dotted(c.func) == "self._get_current_tree"]
        commits = _commit_nodes(cfg)
        if not reads or not commits:
            raise AnalysisError("BareGitStore.%s: tree read / commit not found" % nm)
        locked = all(in_any_lock(n) for n in reads + commits)
        # does the commit carry the observed head?  (an argument derived from the ref/commit id read before)
        ct = ctx.own_method(BARE, "_commit_tree")
        cas = False
        for c in walk_local(ct.node):
            if isinstance(c, ast.Call) and (dotted(c.func) or "").endswith("do_commit"):
                for k in c.keywords:
                    if k.arg in ("merge_heads", "parents", "old_head", "expected_head"):
                        cas = True
            if isinstance(c, ast.Call) and (dotted(c.func) or "").split(".")[-1] in ("set_if_equals", "add_if_new"):
                cas = True
        obs.append(ctx.ob(locked or cas, fi.qualname, where(fi, reads[0]), "tree read-modify-commit is atomic w.r.t. other writers",
                          "lock or compare-and-set present",
                          "`%s` reads the current tree, modifies a copy and commits it with no lock and no compare-and-set on the head it "
                          "read (do_commit re-reads HEAD itself): a concurrent write to ANOTHER member between read and commit is lost"
                          % node_desc(reads[0])))
    return obs


@rule("C05", "L3", floor=2, kind="S",
      desc="the uid maps shared by all requests of a store are mutated under a lock")
def l3(ctx):
    from .c06 import map_names
    obs = []
    fi = ctx.own_method(GIT, "_scan_uids")
    cfg = ctx.cfg(fi)
    sites = []
    for n in cfg.stmt_nodes():
        a = n.ast
        if n.kind == "stmt" and isinstance(a, (ast.Assign, ast.Delete)):
            for t in a.targets:
                if isinstance(t, ast.Subscript) and dotted(t.value) in map_names(ctx, GIT):
                    sites.append(n)
    if len(sites) < 3:
        raise AnalysisError("GitStore._scan_uids: expected >= 3 map mutations, found %d" % len(sites))
    # lock anywhere on the call chain import_one -> _check_duplicate -> _scan_uids
    chain_locked = all(in_any_lock(n) for n in sites)
    for caller_q, callee in ((GIT + "._check_duplicate", "self._scan_uids"), (GIT + ".import_one", "self._check_duplicate")):
        f = ctx.own_method(*caller_q.rsplit(".", 1))
        c2 = ctx.cfg(f)
        calls = [n for n in c2.stmt_nodes() for c in n.calls() if dotted(c.func) == callee]
        if calls and all(in_any_lock(n) for n in calls):
            chain_locked = True
    # two different thread contexts reach it
    sb = ctx.own_method("xandikos.web.ObjectResource", "set_body")
    cm = ctx.own_method("xandikos.web.StoreBasedCollection", "create_member")
    threaded = any(isinstance(n, ast.Call) and (dotted(n.func) or "").endswith("to_thread") and n.args and (dotted(n.args[0]) or "").endswith("store.import_one")
                   for n in walk_local(sb.node))
    direct = any(isinstance(n, ast.Call) and (dotted(n.func) or "").endswith("store.import_one") for n in walk_local(cm.node))
    ctx.note("C05/L3: set_body uses to_thread=%s, create_member calls import_one directly=%s" % (threaded, direct))
    obs.append(ctx.ob(chain_locked, fi.qualname, fi.where, "uid maps mutated under a lock",
                      "mutations are inside a lock",
                      "_fname_to_uid/_uid_to_fname are mutated at %d sites with no lock on the path import_one -> _check_duplicate -> "
                      "_scan_uids, which runs both in asyncio.to_thread workers (ObjectResource.set_body) and on the event-loop thread "
                      "(create_member): concurrent scans corrupt the maps / raise 'dictionary changed size'" % len(sites)))
    obs.append(ctx.ob(threaded or direct, sb.qualname, sb.where, "import_one is reached from request handling",
                      "set_body(to_thread)=%s create_member(direct)=%s" % (threaded, direct), "import_one call sites vanished"))
    return obs


@rule("C05", "L4", floor=4, kind="N",
      desc="the uid maps a refusal is decided from are refreshed from the listing on every check (same obligations as "
           "C06/U6): a cached 'nothing changed' shortcut lets two resources share a UID under concurrency")
def l4(ctx):
    from .c06 import u6
    return u6(ctx)


@rule("C05", "L5", floor=5, kind="N",
      desc="the answer of a write is computed from the writer's own data, not re-read after the critical section (same "
           "obligations as C02/E3)")
def l5(ctx):
    from .c02 import e3
    return e3(ctx)


@rule("C05", "L6", floor=1, kind="S",
      desc="only the holder releases the index lock: the store layer never removes or renames a *.lock file by path "
           "(GitFile.abort()/close() of the holder are the only ways out) - otherwise a writer that was refused as "
           "locked can delete the lock of the writer that holds it")
def l6(ctx):
    from .storelib import FS_MUTATORS, _fold
    obs = []
    nsites = 0
    for mname in ("xandikos.store.git", "xandikos.store", "xandikos.store.vdir", "xandikos.store.index", "xandikos.store.config"):
        for fi in ctx.P.funcs_in_module(mname):
            if ctx.absorbed(fi):
                continue
            cfg = ctx.cfg(fi)
            du = None
            for n in cfg.stmt_nodes():
                for c in n.calls():
                    d = dotted(c.func) or ""
                    if d not in FS_MUTATORS or not c.args:
                        continue
                    nsites += 1
                    du = du or DefUse(cfg)
                    hits = []
                    for a in c.args[:2]:
                        todo = [(n, a, 0)]
                        while todo:
                            nd, e, depth = todo.pop()
                            for x in ast.walk(e):
                                v = x.value if isinstance(x, ast.Constant) else _fold(fi.module, x) if isinstance(x, (ast.Name, ast.Attribute)) else None
                                if isinstance(v, str) and v.endswith(".lock"):
                                    hits.append(v)
                                if isinstance(x, ast.Name) and depth < 4:
                                    for df in du.reaching(nd, x.id):
                                        if df.value is not None and df.node is not None and df.kind == "assign":
                                            todo.append((df.node, df.value, depth + 1))
                    if hits:
                        obs.append(ctx.bad(fi.qualname, where(fi, n), "lock file removed by path",
                                           "`%s` removes/renames a lock file (%s) by path: it also runs when somebody else holds the lock (e.g. after "
                                           "FileLocked), so a refused writer destroys the holder's lock and a third writer gets in" % (node_desc(n), hits[0])))
    obs.append(ctx.ob(not obs, "xandikos.store", "xandikos/store/", "no lock file is removed or renamed by path",
                      "%d file-system mutator call sites in the store layer, none of them names a *.lock path" % nsites,
                      "lock files are manipulated by path"))
    if nsites < 4:
        raise AnalysisError("only %d file-system mutator call sites found in the store layer" % nsites)
    return obs


@rule("C05", "L7", floor=4, kind="S",
      desc="the uid maps belong to one store object: they are created afresh in __init__ (`self._x = {}`) and are not "
           "class attributes - a map shared by all collections of the process lets a write to one collection release or "
           "hide a UID of another")
def l7(ctx):
    from .c06 import map_names
    obs = []

    def fresh_dict(v):
        return (isinstance(v, ast.Dict) and not v.keys) or (isinstance(v, ast.Call) and dotted(v.func) in ("dict", "collections.OrderedDict", "OrderedDict")
                                                             and not v.args and not v.keywords)

    def assigned_in_init(fi, attr):
        """Values assigned to self.<attr> in the body of *fi* (an __init__)."""
        out = []
        for n in walk_local(fi.node):
            if isinstance(n, (ast.Assign, ast.AnnAssign)) and n.value is not None:
                tg = n.targets if isinstance(n, ast.Assign) else [n.target]
                me = fi.node.args.args[0].arg if fi.node.args.args else "self"
                if any(dotted(t) == me + "." + attr for t in tg):
                    out.append(n.value)
        return out

    for cq in ("xandikos.store.git.GitStore", "xandikos.store.vdir.VdirStore"):
        ci = ctx.P.cls(cq)
        init = ctx.own_method(cq, "__init__")
        inl = ctx.cfgs.inliner
        for path in map_names(ctx, cq):
            attr = path.split(".", 1)[1]
            vals = assigned_in_init(init, attr)
            # ... or in the base-class constructors it chains to unconditionally (`super().__init__(...)` as a
            # statement of the constructor body): every object still gets its own maps
            cur, hops = init, 0
            while cur is not None and hops < 4:
                hops += 1
                nxt = None
                for st in cur.node.body:
                    if isinstance(st, ast.Expr) and isinstance(st.value, ast.Call) and isinstance(st.value.func, ast.Attribute) \
                            and st.value.func.attr == "__init__":
                        rv = st.value.func.value
                        if isinstance(rv, ast.Call) and dotted(rv.func) == "super" and cur.cls is not None:
                            nxt = ctx.P.lookup_method(ci, "__init__", after=cur.cls)
                        elif dotted(rv):
                            k, o = ctx.P.resolve_dotted(cur.module, dotted(rv), cur)
                            if k == "class" and o in ci.mro:
                                nxt = o.methods.get("__init__")
                if nxt is not None:
                    vals = vals + assigned_in_init(nxt, attr)
                cur = nxt
            fresh = bool(vals) and all(fresh_dict(v) for v in vals)
            shared = [c for c in ci.mro if attr in c.attrs and not (isinstance(c.attrs[attr], ast.Constant) and c.attrs[attr].value is None)]
            if not fresh and not shared:
                # the map lives in a helper object the store creates for itself in __init__ (`self.F = Helper()`), and is
                # re-exported under this name (alias / property) or reached through the helper's methods (flattened name)
                for n in walk_local(init.node):
                    if isinstance(n, (ast.Assign, ast.AnnAssign)) and n.value is not None:
                        for t in (n.targets if isinstance(n, ast.Assign) else [n.target]):
                            dt = dotted(t)
                            if not (dt and dt.startswith("self.") and dt.count(".") == 1):
                                continue
                            fld = dt.split(".")[1]
                            hc = inl.field_object(init, fld)
                            if hc is None:
                                continue
                            from ..inline import flat_field
                            aliases = inl.field_aliases(init, fld)
                            hinit = ctx.P.lookup_method(hc, "__init__")
                            if hinit is None:
                                continue
                            for y in {x.attr for x in ast.walk(hinit.node) if isinstance(x, ast.Attribute) and isinstance(x.ctx, ast.Store)}:
                                if flat_field(fld, y, aliases) == attr:
                                    hv = assigned_in_init(hinit, y)
                                    hshared = [c for c in hc.mro if y in c.attrs and not (isinstance(c.attrs[y], ast.Constant) and c.attrs[y].value is None)]
                                    if hv and all(fresh_dict(v) for v in hv) and not hshared:
                                        fresh = True
            obs.append(ctx.ob(fresh and not shared, cq + "." + attr, init.where, "%s is per store object" % attr,
                              "assigned a new dict in __init__, no class-level value",
                              "%s.%s is %s: every store object of the process shares one map, so a scan of one collection drops or hides the UIDs of another"
                              % (ci.name, attr, ("a class attribute of %s" % shared[0].name) if shared else "not created afresh in __init__")))
    return obs


@rule("C05", "L8", floor=2, kind="N",
      desc="a refusal decided from the uid map is final: once _check_duplicate has found that another resource holds the "
           "UID it raises, whatever else may have changed meanwhile (subset of C06/U1) - 're-validating' the conflict against "
           "state that a concurrent writer is changing lets two resources end up with one UID")
def l8(ctx):
    from .c06 import u1
    return [o for o in u1(ctx) if o.detail == "a different holder always refuses"]


@rule("C05", "L9", floor=4, kind="N",
      desc="what a refusal is decided from is complete and conditional: get_uid looks at every component (C06/U4), and "
           "the etag a DELETE was checked against is handed down to the store, so that the store re-checks it inside its "
           "critical section (C03/P2)")
def l9(ctx):
    from .c06 import u4
    from .c03 import p2
    return list(u4(ctx)) + [o for o in p2(ctx) if "DeleteMethod" in o.construct or "delete_member" in o.construct]


@rule("C05", "L10", floor=5, kind="N",
      desc="a writer that fails inside the critical section leaves the index as it found it: the index lock is aborted, not "
           "committed, on the error path (same obligations as C04/B3) - two overlapping deletes otherwise install an empty "
           "index and every other member of the collection is lost")
def l10(ctx):
    from .c04 import b3
    return b3(ctx)


@rule("C05", "L11", floor=2, kind="N",
      desc="two workers on one directory never end up with two holders of a UID: the scan overwrites the reverse-map entry "
           "with the current holder (same obligations as C06/U14) - insert-if-absent keeps the holder another worker replaced")
def l11(ctx):
    from .c06 import u14
    return u14(ctx)
