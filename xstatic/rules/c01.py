"""C01 — collection contents equal the outcome of the acknowledged writes.

Decided structurally (necessary conditions): refuse-before-effect in the stores
and in the request handlers, listing/lookup share one source, the metadata file
is hidden by every lister and hidden names are not writable, and a member
operation addresses only the member it names.
"""

from __future__ import annotations

import ast
from typing import List, Optional, Set

from ..core import rule
from ..dataflow import DefUse, depends_on, origins
from ..program import AnalysisError, dotted, src
from .storelib import REFUSALS, STORE_MODULES, facts, node_desc
from .common import loops_over, requires_edge
from ..core import walk_local  # inline-aware

STORE_WRITE_API = [
    ("xandikos.store.git.GitStore", "import_one"),
    ("xandikos.store.git.BareGitStore", "_import_one"),
    ("xandikos.store.git.TreeGitStore", "_import_one"),
    ("xandikos.store.git.BareGitStore", "delete_one"),
    ("xandikos.store.git.TreeGitStore", "delete_one"),
    ("xandikos.store.vdir.VdirStore", "import_one"),
    ("xandikos.store.vdir.VdirStore", "delete_one"),
]


def store_functions(ctx):
    out = []
    for m in STORE_MODULES:
        ctx.P.module(m)
        out.extend(ctx.P.funcs_in_module(m))
    # a write entry point pulled up into a base class (template method with per-back-end hooks) is analysed
    # once per back end, with the hooks bound to that back end
    for cq, nm in STORE_WRITE_API:
        if nm not in ctx.P.cls(cq).methods:
            out.append(ctx.own_method(cq, nm))
    return out


@rule("C01", "O1", floor=9, kind="N",
      desc="stores: no refusal (InvalidFileContents/DuplicateUidError/InvalidETag/NoSuchItem) is reachable "
           "after the normal completion of a visible mutation")
def o1(ctx):
    F = facts(ctx)
    obs = []
    anchors_seen = set()
    for fi in store_functions(ctx):
        cfg = ctx.cfg(fi)
        muts = [(n, F.node_mutations(fi, n)) for n in cfg.stmt_nodes()]
        muts = [(n, m) for n, m in muts if m]
        if not muts:
            continue
        anchors_seen.add((fi.cls.qualname if fi.cls else None, fi.name))
        refs = {n.id: F.node_refusals(fi, n) for n in cfg.stmt_nodes()}
        for n, labels in muts:
            after = cfg.after_normal(n)
            later = [m for m in cfg.stmt_nodes() if m.id in after and refs.get(m.id)]
            lab = "+".join(sorted(labels))
            detail = "after %s@%s" % (lab, "/".join(F.callee_names(fi, n)[:2]) or n.kind)
            if later:
                for m in later:
                    obs.append(ctx.bad(fi.qualname, "%s:%d" % (fi.module.rel, m.lineno),
                                       detail + ": refusal %s at %s" % ("/".join(sorted(refs[m.id])), "/".join(F.callee_names(fi, m)[:2]) or m.kind),
                                       "visible mutation `%s` (line %d) can complete and the request still be refused with %s by `%s` (line %d)"
                                       % (node_desc(n), n.lineno, "/".join(sorted(refs[m.id])), node_desc(m), m.lineno),
                                       path=["mutation %s:%d %s" % (fi.module.rel, n.lineno, node_desc(n)),
                                             "refusal  %s:%d %s" % (fi.module.rel, m.lineno, node_desc(m))]))
            else:
                obs.append(ctx.ok(fi.qualname, "%s:%d" % (fi.module.rel, n.lineno), detail,
                                  "no refusal reachable after `%s`" % node_desc(n)))
    missing = [a for a in STORE_WRITE_API if a not in anchors_seen]
    if missing:
        raise AnalysisError("store write API without a recognised visible mutation: %s" % missing)
    # the importers must contain refusals at all, otherwise the rule is vacuous
    for cq, nm in (("xandikos.store.git.GitStore", "import_one"), ("xandikos.store.vdir.VdirStore", "import_one")):
        fi = ctx.own_method(cq, nm)
        cfg = ctx.cfg(fi)
        if not any(F.node_refusals(fi, n) for n in cfg.stmt_nodes()):
            raise AnalysisError("%s.%s has no recognisable refusal site" % (cq, nm))
    return obs


# ---------------------------------------------------------------------------- O2

CLIENT_ERRORS = {"BadRequestError", "UnsupportedMediaType", "NotAcceptableError", "UnauthorizedError",
                 "PreconditionFailure"}

HANDLERS = [
    "xandikos.webdav.PutMethod.handle", "xandikos.webdav.PostMethod.handle",
    "xandikos.webdav.DeleteMethod.handle", "xandikos.webdav.MkcolMethod.handle",
    "xandikos.webdav.ProppatchMethod.handle", "xandikos.caldav.MkcalendarMethod.handle",
]


_DU_CACHE = {}


def return_status(ctx, fi, r, after=None) -> Optional[int]:
    """HTTP status answered by return node *r* of *fi*: of the returned expression, or - when a local name is
    returned - of every expression that name can hold there (None if unknown or not unique).  With *after* (a list
    of CFG nodes) only values produced on a path that starts at one of those nodes count - "what does this return
    answer when it is reached from there" - unless the value was produced before them."""
    v = r.ast.value
    if v is None:
        return None
    st = response_status(ctx, fi, v)
    if st is not None or not isinstance(v, (ast.Name, ast.Await)):
        return st
    cfg = ctx.cfg(fi)
    cache = ctx.__dict__.setdefault("_du_cache", {})
    du = cache.get(fi.qualname)
    if du is None:
        du = cache[fi.qualname] = DefUse(cfg)
    sts = set()
    os_ = origins(du, r, v)
    if after:
        reach = cfg.reachable(list(after))
        later = [o for o in os_ if o.node is not None and o.node.id in reach]
        if later:
            os_ = later
    for o in os_:
        if o.kind != "expr" or o.leaf is None or o.path:
            return None
        sts.add(response_status(ctx, fi, o.leaf))
    return sts.pop() if len(sts) == 1 else None


def response_status(ctx, fi, e: ast.AST) -> Optional[int]:
    """HTTP status of a returned expression, None if unknown."""
    if isinstance(e, ast.Await):
        e = e.value
    if not isinstance(e, ast.Call):
        return None
    d = (dotted(e.func) or "").split(".")[-1]
    if d == "Response":
        st = None
        if e.args:
            st = e.args[0]
        for k in e.keywords:
            if k.arg == "status":
                st = k.value
        if st is None:
            return 200
        v = ctx.P.try_fold(fi.module, st)
        if isinstance(v, int):
            return v
        if isinstance(v, str):
            try:
                return int(v.split(" ")[0])
            except ValueError:
                return None
        return None
    if d == "_send_not_found":
        return 404
    if d == "_send_method_not_allowed":
        return 405
    if d == "_send_simple_dav_error" and len(e.args) >= 2:
        v = ctx.P.try_fold(fi.module, e.args[1])
        if isinstance(v, str):
            try:
                return int(v.split(" ")[0])
            except ValueError:
                return None
    if d == "_send_xml_response" and e.args:
        v = ctx.P.try_fold(fi.module, e.args[0])
        if isinstance(v, str):
            try:
                return int(v.split(" ")[0])
            except ValueError:
                return None
    return None


def confirm_status_helpers(ctx):
    wd = "xandikos.webdav."
    f = ctx.func(wd + "_send_not_found")
    ok = any(isinstance(n, ast.Return) and response_status(ctx, f, n.value) == 404 for n in ast.walk(f.node))
    if not ok:
        raise AnalysisError("_send_not_found no longer returns Response(status=404)")
    f = ctx.func(wd + "_send_method_not_allowed")
    ok = any(isinstance(n, ast.Return) and response_status(ctx, f, n.value) == 405 for n in ast.walk(f.node))
    if not ok:
        raise AnalysisError("_send_method_not_allowed no longer returns Response(status=405)")
    f = ctx.func(wd + "_send_simple_dav_error")
    if len(f.params) < 2:
        raise AnalysisError("_send_simple_dav_error signature changed")


@rule("C01", "O2", floor=6, kind="N",
      desc="handlers: after an effect call completed, no 4xx answer (return of a 4xx Response, or a call that may "
           "raise BadRequest/UnsupportedMediaType/NotAcceptable/Unauthorized/PreconditionFailure) is reachable")
def o2(ctx):
    F = facts(ctx)
    S = ctx.summaries
    confirm_status_helpers(ctx)
    obs = []
    for q in HANDLERS:
        fi = ctx.func(q)
        cfg = ctx.cfg(fi)
        eff_nodes = []
        for n in cfg.stmt_nodes():
            labels = F.node_mutations(fi, n) | S.node_effects(fi, n, "creation", F.create_local, F.create)
            if labels:
                eff_nodes.append((n, labels))
        if not eff_nodes:
            raise AnalysisError("%s: no effect call recognised" % q)
        for n, labels in eff_nodes:
            after = cfg.after_normal(n)
            callee = "/".join(sorted(F.effect_callees(fi, n))[:3]) or "/".join(F.callee_names(fi, n)[:3]) or n.kind
            bad = {}
            for m in cfg.stmt_nodes():
                if m.id not in after:
                    continue
                if m.kind == "return" and m.ast.value is not None:
                    st = return_status(ctx, fi, m)
                    if st is not None and 400 <= st < 500:
                        bad.setdefault("return-%d" % st, []).append((m, "returns %d" % st))
                for e in sorted(F.node_refusals(fi, m, CLIENT_ERRORS)):
                    culprits = []
                    for (mm, c, targets, ext) in S.calls_of(fi):
                        if mm is m and any(e in S.may_raise(t) for t in targets):
                            culprits.append(((dotted(c.func) if isinstance(c, ast.Call) else dotted(c)) or "?").split(".")[-1])
                    if m.kind == "raise":
                        culprits = ["raise"]
                    for cu in sorted(set(culprits)) or ["?"]:
                        bad.setdefault("4xx via %s" % cu, []).append((m, "may raise %s" % e))
            if bad:
                for key in sorted(bad):
                    m = bad[key][0][0]
                    what = ", ".join(sorted({w for _m, w in bad[key]}))
                    obs.append(ctx.bad(q, "%s:%d" % (fi.module.rel, m.lineno), "after %s: %s" % (callee, key),
                                       "effect `%s` (line %d) has completed when `%s` (line %d) %s -> the client gets a 4xx although state changed"
                                       % (node_desc(n), n.lineno, node_desc(m), m.lineno, what),
                                       path=["effect %s:%d %s" % (fi.module.rel, n.lineno, node_desc(n)),
                                             "4xx    %s:%d %s" % (fi.module.rel, m.lineno, node_desc(m))]))
            else:
                obs.append(ctx.ok(q, "%s:%d" % (fi.module.rel, n.lineno), "after %s" % callee,
                                  "no 4xx answer reachable after `%s`" % node_desc(n)))
    return obs


# ---------------------------------------------------------------------------- H1

LISTING_CALLS = {"iter_with_etag", "iter_changes", "iter_with_filter"}


@rule("C01", "H1", floor=5, kind="S",
      desc="resources are minted only from names/etags the store listed: every _get_resource / ObjectResource(...) "
           "argument triple comes from a loop over iter_with_etag / iter_changes / iter_with_filter")
def h1(ctx):
    obs = []
    sbc = ctx.P.cls("xandikos.web.StoreBasedCollection")
    classes = [sbc] + sbc.all_subclasses()
    n_sites = 0
    for ci in classes:
        for fi in ci.methods.values():
            cfg = ctx.cfg(fi)
            du = None
            for n in cfg.stmt_nodes():
                for c in n.calls():
                    d = dotted(c.func) or ""
                    if d not in ("self._get_resource", "ObjectResource"):
                        continue
                    if fi.name == "_get_resource" or ctx.absorbed(fi):
                        continue
                    n_sites += 1
                    du = du or DefUse(cfg)
                    args = c.args[1:] if d == "ObjectResource" else c.args
                    # name and etag positions
                    probs = []
                    for idx, a in ((0, args[0] if args else None), (2, args[2] if len(args) > 2 else None)):
                        if a is None:
                            probs.append("argument %d missing" % idx)
                            continue
                        ok = False
                        # the etag must be the listing tuple's own element, not something looked up again

                        def listed(node_, e_, need_store=True):
                            for o in origins(du, node_, e_):
                                if o.kind == "elem" and isinstance(o.leaf, ast.Call) and \
                                        (dotted(o.leaf.func) or "").split(".")[-1] in LISTING_CALLS and \
                                        (not need_store or (dotted(o.leaf.func) or "").startswith("self.store.")):
                                    return True
                            return False

                        cands = [a] if (isinstance(a, ast.Name) or idx == 2) else [x for x in ast.walk(a) if isinstance(x, ast.Name)]
                        ok = any(listed(n, x) for x in cands)
                        # `name` compared for equality with a listed name counts as listed
                        if not ok and idx == 0 and isinstance(a, ast.Name):
                            mine = {(o.kind, o.name, id(o.leaf)) for o in origins(du, n, a)}
                            for tn in [t_ for t_ in cfg.nodes if t_.kind == "test"]:
                                t = tn.ast
                                if not (isinstance(t, ast.Compare) and len(t.ops) == 1 and isinstance(t.ops[0], ast.Eq)):
                                    continue
                                if not requires_edge(cfg, n, tn, "t"):
                                    continue   # reaching the call does not require equality
                                sides = [t.left, t.comparators[0]]
                                for s1, s2 in (sides, sides[::-1]):
                                    if {(o.kind, o.name, id(o.leaf)) for o in origins(du, tn, s1)} == mine and listed(tn, s2, need_store=False):
                                        ok = True
                        if not ok:
                            probs.append("argument %d (`%s`) does not come from a store listing" % (idx, src(a)))
                    obs.append(ctx.ob(not probs, fi.qualname, "%s:%d" % (fi.module.rel, n.lineno),
                                      "resource minted at %s" % d,
                                      "name and etag come from the same store listing tuple",
                                      "; ".join(probs)))
    # members() and get_member() must both enumerate iter_with_etag
    for nm in ("members", "get_member"):
        fi = ctx.own_method("xandikos.web.StoreBasedCollection", nm)
        cfg = ctx.cfg(fi)
        fors = loops_over(cfg, "self.store.iter_with_etag", exact=True, no_args=True)
        obs.append(ctx.ob(bool(fors), fi.qualname, fi.where, "enumerates self.store.iter_with_etag()",
                          "listing source is the store iterator",
                          "%s no longer iterates self.store.iter_with_etag()" % nm))
    # sub-collections: listing and lookup consult the same store.subdirectories(), unconditionally
    sc = ctx.own_method("xandikos.web.StoreBasedCollection", "subcollections")
    cfg = ctx.cfg(sc)
    fors = loops_over(cfg, "self.store.subdirectories", exact=True)
    uncond = bool(fors) and cfg.exit.id not in cfg.reachable([cfg.entry], block_nodes=fors)
    obs.append(ctx.ob(uncond, sc.qualname, sc.where, "subcollections() enumerates store.subdirectories() on every path",
                      "no early exit before the enumeration",
                      "subcollections() can return without enumerating self.store.subdirectories(), while get_member() still resolves those names: a nested "
                      "collection answers Depth:0 but is missing from its parent's Depth:1 listing"))
    gm = ctx.own_method("xandikos.web.StoreBasedCollection", "get_member")
    gcfg = ctx.cfg(gm)
    uses = any(dotted(c.func) == "self.store.subdirectories" for n in gcfg.stmt_nodes() for c in n.calls())
    if not uses:
        # the lookup goes through a store method the reference tree does not have, with several implementations that are
        # meant to agree with subdirectories(): equivalence of sibling implementations is not decided here
        store_base = ctx.P.cls("xandikos.store.Store")
        for n in gcfg.stmt_nodes():
            for c in n.calls():
                d = dotted(c.func) or ""
                if d.startswith("self.store.") and d.count(".") == 2:
                    impls = ctx.P.dispatch_targets(store_base, d.split(".")[-1])
                    if impls and all(ctx.cfgs.inliner.is_new(t) for t in impls) and \
                            any(dotted(cc.func) == "self.subdirectories" for t in impls for cc in ast.walk(t.node) if isinstance(cc, ast.Call)):
                        if len(impls) > 1:
                            raise AnalysisError("StoreBasedCollection.get_member looks sub-collections up through store.%s(), which has %d implementations "
                                                "(%s); whether each of them agrees with subdirectories() is not modelled"
                                                % (d.split(".")[-1], len(impls), ", ".join(t.qualname for t in impls)))
                        uses = True
    mem = ctx.own_method("xandikos.web.StoreBasedCollection", "members")
    lists = any(isinstance(n, ast.Call) and dotted(n.func) == "self.subcollections" for n in ast.walk(mem.node))
    obs.append(ctx.ob(uses and lists, gm.qualname, gm.where, "get_member and members() agree on sub-collections",
                      "lookup checks store.subdirectories(); listing chains subcollections()",
                      "members() and get_member() no longer consult the same source for sub-collections"))
    if n_sites < 4:
        raise AnalysisError("only %d resource-minting call sites found" % n_sites)
    return obs


# ---------------------------------------------------------------------------- H2 / H3

LISTERS = [
    ("xandikos.store.git.BareGitStore", "_iterblobs"),
    ("xandikos.store.git.TreeGitStore", "_iterblobs"),
    ("xandikos.store.vdir.VdirStore", "iter_with_etag"),
]


def _yield_nodes(cfg):
    out = []
    for n in cfg.stmt_nodes():
        if n.kind == "stmt" and n.ast is not None and isinstance(n.ast, ast.Expr) and isinstance(n.ast.value, (ast.Yield, ast.YieldFrom)):
            out.append(n)
    return out


def hiding_predicates(ctx, fi, n):
    """Conditions of the form  name == CONST / name.endswith(CONST)  that are required to be
    False for the yield at n.  Returned as (kind, const) pairs."""
    cfg = ctx.cfg(fi)
    out = []
    for (t, pol) in cfg.required_conditions(n):
        if isinstance(t, ast.Compare) and len(t.ops) == 1 and isinstance(t.ops[0], (ast.Eq, ast.NotEq)):
            want_false = isinstance(t.ops[0], ast.Eq)
            if pol == (not want_false):
                sides = [t.left, t.comparators[0]]
                for a, b in (sides, sides[::-1]):
                    v = ctx.P.try_fold(fi.module, b)
                    if isinstance(a, ast.Name) and isinstance(v, str):
                        out.append(("eq", v))
        if isinstance(t, ast.Call) and isinstance(t.func, ast.Attribute) and t.func.attr == "endswith" and t.args:
            v = ctx.P.try_fold(fi.module, t.args[0])
            if isinstance(t.func.value, ast.Name) and isinstance(v, str):
                out.append(("endswith" if not pol else "requires-endswith", v))
    return out


def config_filename(ctx) -> str:
    m = ctx.P.module("xandikos.store.config")
    if "FILENAME" not in m.const_exprs:
        raise AnalysisError("xandikos.store.config.FILENAME vanished")
    v = ctx.P.try_fold(m, m.const_exprs["FILENAME"])
    if not isinstance(v, str):
        raise AnalysisError("store.config.FILENAME is not a constant string")
    return v


@rule("C01", "H2", floor=4, kind="S",
      desc="the metadata file (store.config.FILENAME) is hidden by every listing function, and is the name the "
           "metadata savers write")
def h2(ctx):
    cf = config_filename(ctx)
    obs = []
    for cq, nm in LISTERS:
        fi = ctx.own_method(cq, nm)
        cfg = ctx.cfg(fi)
        ys = _yield_nodes(cfg)
        if not ys:
            raise AnalysisError("%s.%s yields nothing" % (cq, nm))
        for i, y in enumerate(ys):
            preds = hiding_predicates(ctx, fi, y)
            hidden = ("eq", cf) in preds
            obs.append(ctx.ob(hidden, fi.qualname, "%s:%d" % (fi.module.rel, y.lineno),
                              "yield#%d hides %s" % (i, cf),
                              "listing skips the metadata file", "this listing branch can yield the metadata file %r as a member" % cf))
    # writers
    from .common import metadata_savers
    savers = metadata_savers(ctx)
    if len(savers) < 2:
        raise AnalysisError("expected 2 construction sites of FileBasedCollectionMetadata in the stores, found %d" % len(savers))
    for site, _call, fi in savers:
        if fi is None:
            raise AnalysisError("%s: the save callback handed to FileBasedCollectionMetadata cannot be resolved" % site.qualname)
        q = fi.qualname
        found = False
        for n in walk_local(fi.node):
            if isinstance(n, ast.Call):
                for a in ast.walk(n):
                    v = ctx.P.try_fold(fi.module, a) if isinstance(a, (ast.Name, ast.Attribute)) else None
                    if v == cf:
                        found = True
        obs.append(ctx.ob(found, site.qualname + " saver", fi.where, "saver writes %s" % cf, "metadata saver writes the hidden name",
                          "metadata saver no longer writes store.config.FILENAME (%r): listers hide a different name" % cf))
    return obs


@rule("C01", "H3", floor=3, kind="S",
      desc="writer/reader agreement: a name a lister hides must be refused by import_one of the same store before "
           "any mutation")
def h3(ctx):
    F = facts(ctx)
    obs = []
    pairs = [
        ("xandikos.store.git.BareGitStore", "_iterblobs", "xandikos.store.git.GitStore", "import_one"),
        ("xandikos.store.git.TreeGitStore", "_iterblobs", "xandikos.store.git.GitStore", "import_one"),
        ("xandikos.store.vdir.VdirStore", "iter_with_etag", "xandikos.store.vdir.VdirStore", "import_one"),
    ]
    done = set()
    for lcq, lnm, wcq, wnm in pairs:
        lf = ctx.own_method(lcq, lnm)
        preds = set()
        for y in _yield_nodes(ctx.cfg(lf)):
            preds |= set(hiding_predicates(ctx, lf, y))
        # the extension filter of vdir: yields require endswith(.ics) or endswith(.vcf)
        wf = ctx.own_method(wcq, wnm)
        wcfg = ctx.cfg(wf)
        # refusing guards in the writer: raise nodes (any exception) with required conditions on `name`
        guards = set()
        muts = [n for n in wcfg.stmt_nodes() if F.node_mutations(wf, n)]
        for n in wcfg.stmt_nodes():
            if n.kind != "raise":
                continue
            if not all(wcfg.node_dominates([n], m) is False for m in muts):
                pass
            for (t, pol) in wcfg.required_conditions(n):
                if isinstance(t, ast.Compare) and len(t.ops) == 1 and isinstance(t.ops[0], (ast.Eq, ast.NotEq)):
                    is_eq = isinstance(t.ops[0], ast.Eq)
                    if pol == is_eq:
                        for a, b in ((t.left, t.comparators[0]), (t.comparators[0], t.left)):
                            v = ctx.P.try_fold(wf.module, b)
                            if isinstance(a, ast.Name) and a.id == "name" and isinstance(v, str):
                                guards.add(("eq", v))
                if isinstance(t, ast.Compare) and len(t.ops) == 1 and isinstance(t.ops[0], ast.In) and pol:
                    v = ctx.P.try_fold(wf.module, t.comparators[0])
                    if isinstance(t.left, ast.Name) and t.left.id == "name" and isinstance(v, (tuple, frozenset)):
                        for x in v:
                            guards.add(("eq", x))
                if isinstance(t, ast.Call) and isinstance(t.func, ast.Attribute) and t.func.attr == "endswith" and t.args \
                        and isinstance(t.func.value, ast.Name) and t.func.value.id == "name":
                    v = ctx.P.try_fold(wf.module, t.args[0])
                    if isinstance(v, str):
                        guards.add(("endswith" if pol else "requires-endswith", v))
                    elif isinstance(v, tuple):
                        for x in v:
                            guards.add(("endswith" if pol else "requires-endswith", x))
        hidden = sorted(p for p in preds if p[0] in ("eq", "endswith"))
        req = sorted(p[1] for p in preds if p[0] == "requires-endswith")
        for kind, val in hidden:
            key = (wf.qualname, kind, val)
            if key in done:
                continue
            done.add(key)
            obs.append(ctx.ob((kind, val) in guards, wf.qualname, wf.where,
                              "hidden name %s %r must be refused" % (kind, val),
                              "import_one refuses the hidden name",
                              "lister %s hides names with `name %s %r`, but %s accepts such a name: the write is acknowledged, "
                              "the member is invisible afterwards%s" % (
                                  lf.short, "==" if kind == "eq" else "endswith", val, wf.short,
                                  " and the collection metadata is overwritten" if val.startswith(".xandikos") else "")))
        if req:
            key = (wf.qualname, "ext", tuple(req))
            if key not in done:
                done.add(key)
                have = sorted(g[1] for g in guards if g[0] == "requires-endswith")
                obs.append(ctx.ob(set(req) <= set(have), wf.qualname, wf.where,
                                  "names without a listed extension %s must be refused" % "|".join(req),
                                  "import_one refuses unlisted extensions",
                                  "lister %s only lists names ending in %s, but %s stores any name: such a member is acknowledged and never listed"
                                  % (lf.short, "/".join(req), wf.short)))
    return obs


# ---------------------------------------------------------------------------- F1

@rule("C01", "F1", floor=8, kind="S",
      desc="frame rule: in the member write/delete functions every tree/index subscript and every path handed to "
           "open/unlink/replace is data-dependent on the `name` parameter only")
def f1(ctx):
    obs = []
    targets = [
        ("xandikos.store.git.BareGitStore", "_import_one"), ("xandikos.store.git.TreeGitStore", "_import_one"),
        ("xandikos.store.git.BareGitStore", "delete_one"), ("xandikos.store.git.TreeGitStore", "delete_one"),
        ("xandikos.store.vdir.VdirStore", "import_one"), ("xandikos.store.vdir.VdirStore", "delete_one"),
    ]
    allowed_params = {"name", "self", "content_type"}  # content_type only picks the extension of a generated name
    for cq, nm in targets:
        fi = ctx.own_method(cq, nm)
        cfg = ctx.cfg(fi)
        du = DefUse(cfg)
        for n in cfg.stmt_nodes():
            sites = []
            a = n.ast
            if n.kind == "stmt" and isinstance(a, ast.Assign):
                for t in a.targets:
                    if isinstance(t, ast.Subscript):
                        sites.append(("store %s[...]" % src(t.value), t.slice))
            if n.kind == "stmt" and isinstance(a, ast.Delete):
                for t in a.targets:
                    if isinstance(t, ast.Subscript):
                        sites.append(("delete %s[...]" % src(t.value), t.slice))
            for c in n.calls():
                d = dotted(c.func) or ""
                if d in ("os.unlink", "os.remove", "os.replace", "os.rename", "shutil.rmtree") and c.args:
                    for i, arg in enumerate(c.args[:2]):
                        sites.append(("%s arg%d" % (d, i), arg))
                if d == "open" and c.args:
                    sites.append(("open(%s)" % ("w" if any(isinstance(x, ast.Constant) and isinstance(x.value, str) and "w" in x.value for x in c.args[1:2]) else "r"), c.args[0]))
            for what, e in sites:
                deps = depends_on(du, n, e)
                params = {d for d in deps if not d.startswith("self.") and not d.startswith("<call:")}
                extra = params - allowed_params
                # the key must actually depend on `name` (not be a constant other member)
                ok = not extra and "name" in params
                obs.append(ctx.ob(ok, fi.qualname, "%s:%d" % (fi.module.rel, n.lineno),
                                  "%s keyed by name" % what,
                                  "addresses only the member named by the `name` parameter",
                                  "`%s` in `%s` depends on %s rather than on `name` only: an operation on one member can touch another"
                                  % (src(e), node_desc(n), sorted(params) or "no parameter")))
    return obs


# ---------------------------------------------------------------------------- W1 / W2

@rule("C01", "W1", floor=9, kind="N",
      desc="writes to one collection exclude each other: index read-modify-write, working-tree change and commit of the "
           "tree store happen under the index lock (same obligations as C05/L0) - otherwise a write to one member can undo another")
def w1(ctx):
    from .c05 import l0
    return l0(ctx)


@rule("C01", "W2", floor=2, kind="N",
      desc="an acknowledged write is performed: _import_one returns normally only after the commit, or through the "
           "'unchanged' side of the comparison of the new and the old object id")
def w2(ctx):
    from .c09 import BARE, TREE, _commit_nodes, change_tests, _index_names
    obs = []
    for cq in (BARE, TREE):
        fi = ctx.own_method(cq, "_import_one")
        cfg = ctx.cfg(fi)
        du = DefUse(cfg)
        commits = _commit_nodes(cfg)
        if not commits:
            raise AnalysisError("%s._import_one: no _commit_tree call" % cq)
        index_vars = _index_names(cfg, du)
        unchanged_edges = []
        ctests = change_tests(cfg, du, index_vars)
        for n in cfg.nodes:
            if n.kind != "test":
                continue
            lab = ctests.get(id(n.ast))
            if lab:
                other = "f" if lab == "t" else "t"
                unchanged_edges.extend((n, m, l) for m, l in n.succ if l == other)
        # block: commit nodes (completion) and the unchanged edges; the exit must then be unreachable
        blocked = list(unchanged_edges) + [(c, m, l) for c in commits for m, l in c.succ if l != "exc"]
        r = cfg.reachable([cfg.entry], block_edges=blocked, follow_exc=False)
        ok = cfg.exit.id not in r
        if not ok:
            # boolean temporaries recording the comparison: walk with every change test assumed to say 'changed';
            # without passing a commit the exit must then be unreachable
            from .common import const_walk

            def decide(t_, _ct=ctests):
                lab_ = _ct.get(id(t_))
                return None if lab_ is None else (lab_ == "t")

            try:
                r2 = const_walk(cfg, [cfg.entry], {}, decide=decide,
                                block_edges=[(c, m, l) for c in commits for m, l in c.succ if l != "exc"])
                ok = cfg.exit.id not in r2
            except AnalysisError:
                pass
        obs.append(ctx.ob(ok, fi.qualname, fi.where, "normal return implies committed or unchanged",
                          "every normal path passes _commit_tree or the 'unchanged' side of the id comparison",
                          "%s can return an etag without having committed and without the new/old id comparison saying 'unchanged': the write is "
                          "acknowledged but never performed (e.g. when the blob happens to exist already)" % fi.short))
    return obs


@rule("C01", "W3", floor=8, kind="N",
      desc="a failed write leaves the member as it was: files are written to a hidden temporary name, closed, and only "
           "then renamed (same obligations as C04/A1, A2, A3)")
def w3(ctx):
    from .c04 import a1, a2, a3
    return list(a1(ctx)) + list(a2(ctx)) + list(a3(ctx))


@rule("C01", "W4", floor=4, kind="S",
      desc="a write that is not acknowledged changes nothing, also in memory: the bare store edits a private copy of "
           "the tree (same obligations as C09/K8) - a cached tree would keep the entry of a failed write and serve it")
def w4(ctx):
    from .c09 import private_tree_obligations
    return private_tree_obligations(ctx)


@rule("C01", "W5", floor=42, kind="N",
      desc="a write to one resource never alters another: the path a request addresses is decoded exactly once and "
           "names are used as sent (same obligations as C16/F1 and C16/N1) - a second percent-decoding or a "
           "normalisation makes two different URLs address one member")
def w5(ctx):
    from .c16 import f1, opaque_name_obligations
    return list(f1(ctx)) + list(opaque_name_obligations(ctx))


@rule("C01", "W6", floor=1, kind="N",
      desc="a request that is not answered with success changes nothing: the store write in the worker thread is "
           "awaited to completion (same obligations as C08/G6)")
def w6(ctx):
    from .c08 import awaited_writes_obligations
    return awaited_writes_obligations(ctx)


PER_ITEM_LOOPS = ["xandikos.web.StoreBasedCollection.iter_differences_since", "xandikos.store.Store._iter_with_filter_indexes",
     "xandikos.store.Store._iter_with_filter_naive", "xandikos.store.git.GitStore.iter_with_etag", "xandikos.store.vdir.VdirStore.iter_with_etag",
     "xandikos.store.git.GitStore.iter_changes", "xandikos.davcommon.MultiGetReporter.report", "xandikos.sync.SyncCollectionReporter.report",
     "xandikos.web.StoreBasedCollection.members", "xandikos.caldav.CalendarQueryReporter.report",
     "xandikos.carddav.AddressbookQueryReporter.report", "xandikos.webdav.traverse_resource"]


@rule("C01", "H4", floor=12, kind="S",
      desc="listings and reports describe each member with its own data: in every per-member loop of the listing / report "
           "generators, what is yielded for the current member was computed in the current iteration (no variable left "
           "over from the previous member, no pre-loop default standing in)")
def h4(ctx):
    from .common import per_item_obligations
    return per_item_obligations(ctx, PER_ITEM_LOOPS)


@rule("C01", "W7", floor=1, kind="N",
      desc="a failed write is reported as failed: handlers for OSError in the store write functions never complete "
           "normally (same obligations as C15/M11's first clause)")
def w7(ctx):
    from .c15 import write_error_obligations
    return write_error_obligations(ctx)


@rule("C01", "H5", floor=3, kind="N",
      desc="reports list the live members: a member indexed while one query is answered is indexed for all keys, so that "
           "no other query sees it as empty (same obligations as C10/X4)")
def h5(ctx):
    from .c10 import x4
    return x4(ctx)


@rule("C01", "W8", floor=5, kind="S",
      desc="a collection exists only because a request created it: MKCOL / MKCALENDAR answer 409 for a missing parent "
           "from the FileNotFoundError of the store's create(), so every back end creates exactly one directory level "
           "(os.mkdir); a recursive creation answers 201 and leaves intermediate collections nobody asked for")
def w8(ctx):
    from .common import handler_catching
    obs = []
    for q in ("xandikos.webdav.MkcolMethod.handle", "xandikos.caldav.MkcalendarMethod.handle"):
        fi = ctx.func(q)
        cfg = ctx.cfg(fi)
        sites = [n for n in cfg.stmt_nodes() for c in n.calls() if isinstance(c.func, ast.Attribute) and c.func.attr == "create_collection"]
        if not sites:
            raise AnalysisError("%s: create_collection call not found" % q)
        for n in sites:
            h = handler_catching(cfg, n, "FileNotFoundError")
            obs.append(ctx.ob(h is not None, q, "%s:%d" % (fi.module.rel, n.lineno), "missing parent is answered by the handler of FileNotFoundError",
                              "create_collection(...) sits in try/except FileNotFoundError",
                              "%s no longer handles the FileNotFoundError of create_collection: a missing parent is a 500" % fi.short))
    for cq in ("xandikos.store.git.TreeGitStore", "xandikos.store.git.BareGitStore", "xandikos.store.vdir.VdirStore"):
        f = ctx.own_method(cq, "create")
        cfg = ctx.cfg(f)
        single, deep = [], []
        for n in cfg.stmt_nodes():
            for c in n.calls():
                d = dotted(c.func) or ""
                if d == "os.mkdir":
                    single.append(n)
                elif d == "os.makedirs":
                    deep.append(n)
                elif isinstance(c.func, ast.Attribute) and c.func.attr == "mkdir" and d != "os.mkdir":
                    par = [k for k in c.keywords if k.arg == "parents"]
                    if par and not (isinstance(par[0].value, ast.Constant) and par[0].value.value is False):
                        deep.append(n)
                    else:
                        single.append(n)
        if not single and not deep:
            raise AnalysisError("%s.create: directory creation not found" % cq)
        obs.append(ctx.ob(not deep, f.qualname, f.where, "create() makes one directory level",
                          "os.mkdir(path): FileNotFoundError for a missing parent",
                          "%s.create creates missing parent directories too (`%s`): MKCOL / MKCALENDAR below a collection that does not exist "
                          "answer 201 instead of 409, and the intermediate directories show up as collections that no request created"
                          % (cq.split(".")[-1], src(deep[0].ast)[:60] if deep else "")))
    return obs


@rule("C01", "W9", floor=2, kind="S",
      desc="a POSTed member is acknowledged under the URL it is listed under: the Location header joins the name "
           "create_member() returned onto the client-visible href of the collection (element 0 of "
           "_get_resource_from_environ), not onto the backend path (element 1), which lacks the mount prefix")
def w9(ctx):
    from .common import string_leaves, unwrap_await
    fi = ctx.func("xandikos.webdav.PostMethod.handle")
    cfg = ctx.cfg(fi)
    du = DefUse(cfg)
    obs = []
    found = 0
    for n in cfg.stmt_nodes():
        for e in n.exprs():
            for x in ast.walk(e):
                vals = []
                if isinstance(x, ast.Dict):
                    vals = [v for k, v in zip(x.keys, x.values) if isinstance(k, ast.Constant) and k.value == "Location"]
                elif isinstance(x, ast.Tuple) and len(x.elts) == 2 and isinstance(x.elts[0], ast.Constant) and x.elts[0].value == "Location":
                    vals = [x.elts[1]]
                for v in vals:
                    found += 1
                    leaves = string_leaves(du, n, v)

                    def is_call(o, attr, path):
                        l = unwrap_await(o.leaf) if o.leaf is not None else None
                        return o.kind == "expr" and isinstance(l, ast.Call) and isinstance(l.func, ast.Attribute) and l.func.attr == attr \
                            and tuple(o.path) == path
                    href = any(is_call(o, "_get_resource_from_environ", (0,)) for o in leaves)
                    path = any(is_call(o, "_get_resource_from_environ", (1,)) for o in leaves)
                    name = any(is_call(o, "create_member", (0,)) for o in leaves)
                    obs.append(ctx.ob(href and not path, fi.qualname, "%s:%d" % (fi.module.rel, n.lineno), "Location is based on the collection href",
                                      "Location <- href of _get_resource_from_environ()",
                                      "the Location of a POSTed member is built from %s: under a mount prefix (SCRIPT_NAME / --route-prefix) "
                                      "it names a URL that the listing does not contain and GET answers with 404"
                                      % ("the backend path (element 1 of _get_resource_from_environ)" if path else "something other than the collection href")))
                    obs.append(ctx.ob(name, fi.qualname, "%s:%d" % (fi.module.rel, n.lineno), "Location names the created member",
                                      "Location <- create_member()[0]",
                                      "the Location of a POSTed member does not contain the name create_member() returned"))
    if not found:
        raise AnalysisError("PostMethod.handle: Location header not found")
    return obs


ENTRY_LISTERS = LISTERS + [("xandikos.store.git.GitStore", "iter_with_etag")]


def _plain(e) -> bool:
    """A constant, a (module) name or attribute, or a display of those: not something computed from the entry."""
    if isinstance(e, (ast.Constant, ast.Name)) or (isinstance(e, ast.Attribute) and dotted(e) is not None):
        return True
    if isinstance(e, (ast.Tuple, ast.List, ast.Set)):
        return all(_plain(x) for x in e.elts)
    return False


def skip_obligations(ctx):
    """A lister leaves out an entry only by a test on its name (`name == CONST`, `name.endswith(CONST)`): those are
    the tests the writers can - and, by H3, must - refuse.  A decision to skip taken on anything else (the guessed
    content type, the mode, the size) hides members that the by-name paths (lookup, import, delete, If-None-Match)
    still see, so the existing resource looks absent to a conditional request and is overwritten."""
    from .common import loop_body_nodes
    obs = []
    for cq, nm in ENTRY_LISTERS:
        fi = ctx.home_method(cq, nm)
        cfg = ctx.cfg(fi)
        ys = _yield_nodes(cfg)
        if not ys:
            raise AnalysisError("%s.%s yields nothing" % (cq, nm))
        heads = [n for n in cfg.nodes if n.kind == "for" and any(y.id in loop_body_nodes(cfg, n) for y in ys)]
        n_skip = 0
        for head in heads:
            body = loop_body_nodes(cfg, head)
            inner_y = [y for y in ys if y.id in body]
            for t in cfg.nodes:
                if t.kind != "test" or t.id not in body:
                    continue
                for m, lab in t.succ:
                    if lab not in ("t", "f"):
                        continue
                    r = cfg.reachable([m], block_nodes=[head], follow_exc=False)
                    if any(y.id in r for y in inner_y):
                        continue      # this side can still list the entry
                    # does the other side list it?  (otherwise the test is not the one that decides)
                    others = [mm for mm, ll in t.succ if ll in ("t", "f") and ll != lab]
                    ro = cfg.reachable(others, block_nodes=[head], follow_exc=False)
                    if not any(y.id in ro for y in inner_y):
                        continue
                    # leaves the iteration by raising?  then it is a refusal, not a skip
                    back = any(mm is head for x in cfg.nodes if x.id in r for mm, _l in x.succ) or m is head
                    if not back:
                        continue
                    n_skip += 1
                    e = t.ast
                    if isinstance(e, ast.UnaryOp) and isinstance(e.op, ast.Not):
                        e = e.operand
                    by_name = False
                    if isinstance(e, ast.Compare) and len(e.ops) == 1 and isinstance(e.ops[0], (ast.Eq, ast.NotEq, ast.In, ast.NotIn)):
                        sides = [e.left, e.comparators[0]]
                        by_name = any(isinstance(a, ast.Name) and _plain(b) for a, b in (sides, sides[::-1]))
                    elif isinstance(e, ast.Call) and isinstance(e.func, ast.Attribute) and e.func.attr in ("endswith", "startswith") and e.args \
                            and isinstance(e.func.value, ast.Name) and _plain(e.args[0]):
                        by_name = True
                    obs.append(ctx.ob(by_name, fi.qualname, "%s:%d" % (fi.module.rel, t.lineno), "entry skipped by a test on its name: %s" % src(t.ast)[:50],
                                      "`%s` compares the name with a constant" % src(t.ast)[:50],
                                      "%s leaves out the entries for which `%s` is %s - not a test on the name that the writers refuse: such a "
                                      "member is still found by name (import_one, _get_etag, delete_one), but get_member()/the listing no longer "
                                      "show it, so `PUT If-None-Match: *` overwrites it and GET answers 404"
                                      % (fi.short, src(t.ast)[:60], "true" if lab == "t" else "false")))
        if n_skip == 0:
            obs.append(ctx.ok(fi.qualname, fi.where, "no entry is skipped", "every iteration of the listing loop reaches the yield"))
    return obs


@rule("C01", "H6", floor=4, kind="S",
      desc="listing and lookup agree on what exists: a lister skips an entry only by a test of its name against a "
           "constant (which H3 obliges the writers to refuse); no entry is left out for its guessed type, mode or size")
def h6(ctx):
    return skip_obligations(ctx)


@rule("C01", "H7", floor=2, kind="N",
      desc="a path that was never written answers 404: the metadata file is hidden by comparing the DECODED entry name "
           "with CONFIG_FILENAME in every branch of both _iterblobs (same obligations as C16/L2) - a bytes/str comparison "
           "is never true, and `.xandikos` is listed and served as a member")
def h7(ctx):
    from .c16 import l2
    return l2(ctx)
