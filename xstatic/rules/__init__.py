"""Rule modules; importing this package registers every rule."""
import importlib
import pkgutil

for _m in sorted(m.name for m in pkgutil.iter_modules(__path__)):
    if (_m.startswith("c") and _m[1:3].isdigit()) or _m == "traps":
        importlib.import_module(__name__ + "." + _m)
