"""Statement-level control-flow graph with separate exceptional edges.

Covers the statement kinds the repository uses (see DESIGN.md, Appendix A) plus
``try/finally`` and ``async with``.  ``match`` statements make a function
unanalysable (AnalysisError), they are never skipped silently.

Conditions are expanded for short-circuit evaluation, so every ``test`` node is
an atom (no ``and``/``or``/``not`` at the top).
"""

from __future__ import annotations

import ast
from typing import Dict, Iterable, List, Optional, Sequence, Set, Tuple

from .program import AnalysisError, FuncInfo, dotted, src

# -- exception hierarchy ------------------------------------------------------

BUILTIN_EXC_PARENT = {
    "Exception": "BaseException",
    "LookupError": "Exception", "KeyError": "LookupError", "IndexError": "LookupError",
    "OSError": "Exception", "IOError": "Exception", "FileNotFoundError": "OSError",
    "FileExistsError": "OSError", "IsADirectoryError": "OSError", "NotADirectoryError": "OSError",
    "PermissionError": "OSError",
    "ValueError": "Exception", "UnicodeError": "ValueError", "UnicodeDecodeError": "UnicodeError",
    "UnicodeEncodeError": "UnicodeError",
    "RuntimeError": "Exception", "NotImplementedError": "RuntimeError",
    "AssertionError": "Exception", "TypeError": "Exception", "AttributeError": "Exception",
    "ImportError": "Exception", "ModuleNotFoundError": "ImportError",
    "StopIteration": "Exception", "ArithmeticError": "Exception", "ZeroDivisionError": "ArithmeticError",
    "FileLocked": "Exception", "ParseError": "Exception", "NotGitRepository": "Exception",
    "DuplicateSectionError": "Exception",
}


class ExcHierarchy:
    def __init__(self, program=None):
        self.parent: Dict[str, str] = dict(BUILTIN_EXC_PARENT)
        if program is not None:
            changed = True
            while changed:
                changed = False
                for ci in program.classes.values():
                    if ci.name in self.parent:
                        continue
                    for b in ci.bases:
                        bn = b.name if hasattr(b, "name") else str(b).split(".")[-1]
                        if bn in self.parent or bn in ("Exception", "BaseException"):
                            self.parent[ci.name] = bn
                            changed = True
                            break

    def is_sub(self, a: str, b: str) -> bool:
        seen = set()
        while a is not None and a not in seen:
            if a == b:
                return True
            seen.add(a)
            a = self.parent.get(a)
        return b == "BaseException"

    def match(self, exc: Optional[str], types: Optional[List[Optional[str]]]) -> str:
        """'yes' (certainly caught), 'maybe', or 'no'."""
        if types is None:
            return "yes"
        if exc is None:
            for t in types:
                if t in ("BaseException", "Exception"):
                    return "yes"
            return "maybe"
        res = "no"
        for t in types:
            if t is None:
                res = "maybe"
                continue
            if self.is_sub(exc, t):
                return "yes"
            if self.is_sub(t, exc):
                res = "maybe"
        return res


# -- graph --------------------------------------------------------------------

class Node:
    __slots__ = ("id", "kind", "ast", "label", "succ", "pred", "ctx", "handler", "lineno", "extra")

    def __init__(self, id, kind, ast_node=None, label=""):
        self.id = id
        self.kind = kind
        self.ast = ast_node
        self.label = label
        self.succ: List[Tuple["Node", str]] = []
        self.pred: List[Tuple["Node", str]] = []
        self.ctx: tuple = ()
        self.handler = None  # innermost HandlerInfo whose body contains this node
        self.lineno = getattr(ast_node, "lineno", 0)
        self.extra = {}

    def exprs(self) -> List[ast.AST]:
        """The expressions / simple statement evaluated *at* this node."""
        a = self.ast
        if a is None:
            return []
        if self.kind in ("stmt", "return", "raise", "test"):
            return [a]
        if self.kind == "for":
            return [a.iter, a.target]
        if self.kind == "with_enter":
            out = []
            for it in a.items:
                out.append(it.context_expr)
                if it.optional_vars is not None:
                    out.append(it.optional_vars)
            return out
        if self.kind == "handler":
            return [a.type] if a.type is not None else []
        return []

    def calls(self) -> List[ast.Call]:
        out = []
        for e in self.exprs():
            todo = [e]
            while todo:
                n = todo.pop()
                if isinstance(n, ast.Call):
                    out.append(n)
                if isinstance(n, (ast.FunctionDef, ast.AsyncFunctionDef, ast.ClassDef, ast.Lambda)):
                    continue
                todo.extend(ast.iter_child_nodes(n))
        return out

    def text(self) -> str:
        if self.kind in ("entry", "exit", "raise_exit"):
            return self.kind
        if self.kind == "for":
            return "for %s in %s" % (src(self.ast.target), src(self.ast.iter))
        if self.kind == "with_enter":
            return "with " + ", ".join(src(i.context_expr) for i in self.ast.items)
        if self.kind in ("with_exit", "with_exc"):
            return "%s(%s)" % (self.kind, ", ".join(src(i.context_expr) for i in self.ast.items))
        if self.kind == "handler":
            return "except " + (src(self.ast.type) if self.ast.type is not None else "")
        if self.kind == "test":
            return "if " + src(self.ast)
        return src(self.ast).split("\n")[0] if self.ast is not None else self.kind

    def __repr__(self):
        return "<N%d %s L%d %s>" % (self.id, self.kind, self.lineno, self.text()[:60])


class HandlerInfo:
    def __init__(self, node: ast.ExceptHandler, types, entry: Node):
        self.ast = node
        self.types: Optional[List[Optional[str]]] = types
        self.entry = entry
        self.incoming: Set[Optional[str]] = set()


class TryCtx:
    def __init__(self, stmt, handlers):
        self.stmt = stmt
        self.handlers: List[HandlerInfo] = handlers


class WithCtx:
    def __init__(self, stmt):
        self.stmt = stmt
        self.exc_nodes: Dict[Optional[str], Node] = {}


class FinallyCtx:
    def __init__(self, stmt):
        self.stmt = stmt
        self.exc_copies: Dict[Optional[str], Node] = {}


class LoopCtx:
    def __init__(self, head: Node, depth: int):
        self.head = head
        self.depth = depth  # len(ctxs) at loop entry
        self.breaks: List[Tuple[Node, str]] = []


class Frag:
    __slots__ = ("entry", "outs")

    def __init__(self, entry: Optional[Node], outs: List[Tuple[Node, str]]):
        self.entry = entry
        self.outs = outs


def exc_name_of(e: Optional[ast.AST]) -> Optional[str]:
    if e is None:
        return None
    if isinstance(e, ast.Call):
        e = e.func
    d = dotted(e)
    if d is None:
        return None
    return d.split(".")[-1]


def handler_types(h: ast.ExceptHandler) -> Optional[List[Optional[str]]]:
    if h.type is None:
        return None
    if isinstance(h.type, ast.Tuple):
        return [exc_name_of(x) for x in h.type.elts]
    return [exc_name_of(h.type)]


_RAISING = (ast.Call, ast.Subscript, ast.Await, ast.Yield, ast.YieldFrom, ast.BinOp, ast.Starred)


def may_raise_expr(e: ast.AST) -> bool:
    todo = [e]
    while todo:
        n = todo.pop()
        if isinstance(n, _RAISING):
            return True
        if isinstance(n, (ast.FunctionDef, ast.AsyncFunctionDef, ast.ClassDef, ast.Lambda)):
            continue
        if isinstance(n, (ast.ListComp, ast.SetComp, ast.DictComp, ast.GeneratorExp)):
            return True
        todo.extend(ast.iter_child_nodes(n))
    return False


class CFG:
    def __init__(self, fi: FuncInfo, hier: ExcHierarchy):
        self.fi = fi
        self.hier = hier
        self.nodes: List[Node] = []
        self._cur_handler: Optional[HandlerInfo] = None
        self.entry = self._new("entry")
        self.exit = self._new("exit")
        self.raise_exit = self._new("raise_exit")
        self.handlers: List[HandlerInfo] = []
        self._loops: List[LoopCtx] = []
        body = fi.node.body
        frag = self._block(body, ())
        if frag.entry is None:
            self._edge(self.entry, self.exit, "n")
        else:
            self._edge(self.entry, frag.entry, "n")
            for n, l in frag.outs:
                self._edge(n, self.exit, l)

    # -- construction helpers
    def _new(self, kind, ast_node=None, ctxs=(), label="") -> Node:
        n = Node(len(self.nodes), kind, ast_node, label)
        n.ctx = tuple(ctxs)
        n.handler = self._cur_handler
        self.nodes.append(n)
        return n

    def _edge(self, a: Node, b: Node, label: str):
        for (x, l) in a.succ:
            if x is b and l == label:
                return
        a.succ.append((b, label))
        b.pred.append((a, label))

    def _connect(self, outs, target: Node):
        for n, l in outs:
            self._edge(n, target, l)

    def _seq(self, frags: Sequence[Frag]) -> Frag:
        entry = None
        outs: List[Tuple[Node, str]] = []
        first = True
        for f in frags:
            if f.entry is None:
                continue
            if first:
                entry = f.entry
                first = False
            else:
                self._connect(outs, f.entry)
            outs = f.outs
        if entry is None:
            return Frag(None, [])
        return Frag(entry, outs)

    def _block(self, stmts: List[ast.stmt], ctxs) -> Frag:
        return self._seq([self._stmt(s, ctxs) for s in stmts])

    # -- exception routing
    def _route(self, node: Node, exc: Optional[str], ctxs):
        for i in range(len(ctxs) - 1, -1, -1):
            c = ctxs[i]
            if isinstance(c, TryCtx):
                for h in c.handlers:
                    m = self.hier.match(exc, h.types)
                    if m != "no":
                        self._edge(node, h.entry, "exc")
                        h.incoming.add(exc)
                    if m == "yes":
                        return
            elif isinstance(c, WithCtx):
                wn = c.exc_nodes.get(exc)
                if wn is None:
                    wn = self._new("with_exc", c.stmt, ctxs[:i])
                    wn.extra["exc"] = exc
                    c.exc_nodes[exc] = wn
                    self._route(wn, exc, ctxs[:i])
                self._edge(node, wn, "exc")
                return
            elif isinstance(c, FinallyCtx):
                fn = c.exc_copies.get(exc)
                if fn is None:
                    saved = self._cur_handler
                    frag = self._block(c.stmt.finalbody, ctxs[:i])
                    self._cur_handler = saved
                    rr = self._new("stmt", None, ctxs[:i], label="reraise")
                    rr.extra["exc"] = exc
                    if frag.entry is None:
                        fn = rr
                    else:
                        fn = frag.entry
                        self._connect(frag.outs, rr)
                    c.exc_copies[exc] = fn
                    self._route(rr, exc, ctxs[:i])
                self._edge(node, fn, "exc")
                return
        self._edge(node, self.raise_exit, "exc")

    def _unwind(self, frm: Node, ctxs, down_to: int, label="n") -> List[Tuple[Node, str]]:
        """Run with-exits / finally bodies for a jump out of ctxs[down_to:].  Returns outs."""
        outs = [(frm, label)]
        for i in range(len(ctxs) - 1, down_to - 1, -1):
            c = ctxs[i]
            if isinstance(c, WithCtx):
                wx = self._new("with_exit", c.stmt, ctxs[:i])
                wx.extra["via"] = "jump"
                self._connect(outs, wx)
                self._route(wx, None, ctxs[:i])
                outs = [(wx, "n")]
            elif isinstance(c, FinallyCtx):
                frag = self._block(c.stmt.finalbody, ctxs[:i])
                if frag.entry is not None:
                    self._connect(outs, frag.entry)
                    outs = frag.outs
        return outs

    # -- conditions with short-circuit
    def _cond(self, e: ast.AST, ctxs) -> Tuple[Node, List[Tuple[Node, str]], List[Tuple[Node, str]]]:
        if isinstance(e, ast.BoolOp):
            entry = None
            t_outs: List[Tuple[Node, str]] = []
            f_outs: List[Tuple[Node, str]] = []
            pending: List[Tuple[Node, str]] = []
            for idx, v in enumerate(e.values):
                en, t, f = self._cond(v, ctxs)
                if entry is None:
                    entry = en
                else:
                    self._connect(pending, en)
                last = idx == len(e.values) - 1
                if isinstance(e.op, ast.And):
                    f_outs.extend(f)
                    if last:
                        t_outs.extend(t)
                    else:
                        pending = t
                else:
                    t_outs.extend(t)
                    if last:
                        f_outs.extend(f)
                    else:
                        pending = f
            return entry, t_outs, f_outs
        if isinstance(e, ast.UnaryOp) and isinstance(e.op, ast.Not):
            en, t, f = self._cond(e.operand, ctxs)
            return en, f, t
        n = self._new("test", e, ctxs)
        if may_raise_expr(e):
            self._route(n, None, ctxs)
        return n, [(n, "t")], [(n, "f")]

    # -- statements
    def _stmt(self, s: ast.stmt, ctxs) -> Frag:
        if isinstance(s, (ast.Assign, ast.AugAssign, ast.AnnAssign, ast.Expr, ast.Delete, ast.Pass,
                          ast.Import, ast.ImportFrom, ast.Global, ast.Nonlocal)):
            n = self._new("stmt", s, ctxs)
            if not isinstance(s, (ast.Pass, ast.Global, ast.Nonlocal)) and (
                    may_raise_expr(s) or isinstance(s, (ast.Delete, ast.Import, ast.ImportFrom))):
                self._route(n, None, ctxs)
            return Frag(n, [(n, "n")])
        if isinstance(s, (ast.FunctionDef, ast.AsyncFunctionDef, ast.ClassDef)):
            n = self._new("stmt", s, ctxs, label="def")
            return Frag(n, [(n, "n")])
        if isinstance(s, ast.Assert):
            n = self._new("stmt", s, ctxs)
            self._route(n, "AssertionError", ctxs)
            if may_raise_expr(s.test):
                self._route(n, None, ctxs)
            return Frag(n, [(n, "n")])
        if isinstance(s, ast.Return):
            n = self._new("return", s, ctxs)
            if s.value is not None and may_raise_expr(s.value):
                self._route(n, None, ctxs)
            outs = self._unwind(n, ctxs, 0)
            self._connect(outs, self.exit)
            return Frag(n, [])
        if isinstance(s, ast.Raise):
            n = self._new("raise", s, ctxs)
            if s.exc is None:
                h = self._cur_handler
                n.extra["reraise"] = True
                n.extra["exc"] = None
                self._route(n, None if h is None or h.types is None or len(h.types) != 1 else h.types[0], ctxs)
            else:
                en = exc_name_of(s.exc)
                n.extra["exc"] = en
                self._route(n, en, ctxs)
            return Frag(n, [])
        if isinstance(s, ast.If):
            en, t, f = self._cond(s.test, ctxs)
            body = self._block(s.body, ctxs)
            orelse = self._block(s.orelse, ctxs)
            outs: List[Tuple[Node, str]] = []
            if body.entry is None:
                outs.extend(t)
            else:
                self._connect(t, body.entry)
                outs.extend(body.outs)
            if orelse.entry is None:
                outs.extend(f)
            else:
                self._connect(f, orelse.entry)
                outs.extend(orelse.outs)
            return Frag(en, outs)
        if isinstance(s, ast.While):
            en, t, f = self._cond(s.test, ctxs)
            loop = LoopCtx(en, len(ctxs))
            self._loops.append(loop)
            body = self._block(s.body, ctxs)
            self._loops.pop()
            if body.entry is None:
                self._connect(t, en)
            else:
                self._connect(t, body.entry)
                self._connect(body.outs, en)
            orelse = self._block(s.orelse, ctxs)
            outs = list(loop.breaks)
            if orelse.entry is None:
                outs.extend(f)
            else:
                self._connect(f, orelse.entry)
                outs.extend(orelse.outs)
            return Frag(en, outs)
        if isinstance(s, (ast.For, ast.AsyncFor)):
            head = self._new("for", s, ctxs)
            self._route(head, None, ctxs)
            loop = LoopCtx(head, len(ctxs))
            self._loops.append(loop)
            body = self._block(s.body, ctxs)
            self._loops.pop()
            if body.entry is None:
                self._edge(head, head, "loop")
            else:
                self._edge(head, body.entry, "loop")
                self._connect(body.outs, head)
            orelse = self._block(s.orelse, ctxs)
            outs = list(loop.breaks)
            if orelse.entry is None:
                outs.append((head, "done"))
            else:
                self._edge(head, orelse.entry, "done")
                outs.extend(orelse.outs)
            return Frag(head, outs)
        if isinstance(s, ast.Break):
            n = self._new("stmt", s, ctxs)
            if not self._loops:
                raise AnalysisError("break outside loop in %s" % self.fi.qualname)
            loop = self._loops[-1]
            loop.breaks.extend(self._unwind(n, ctxs, loop.depth))
            return Frag(n, [])
        if isinstance(s, ast.Continue):
            n = self._new("stmt", s, ctxs)
            if not self._loops:
                raise AnalysisError("continue outside loop in %s" % self.fi.qualname)
            loop = self._loops[-1]
            self._connect(self._unwind(n, ctxs, loop.depth), loop.head)
            return Frag(n, [])
        if isinstance(s, (ast.With, ast.AsyncWith)):
            enter = self._new("with_enter", s, ctxs)
            self._route(enter, None, ctxs)
            wc = WithCtx(s)
            body = self._block(s.body, tuple(ctxs) + (wc,))
            wx = self._new("with_exit", s, ctxs)
            wx.extra["via"] = "fallthrough"
            self._route(wx, None, ctxs)
            if body.entry is None:
                self._edge(enter, wx, "n")
            else:
                self._edge(enter, body.entry, "n")
                self._connect(body.outs, wx)
            return Frag(enter, [(wx, "n")])
        if isinstance(s, ast.Try) or (hasattr(ast, "TryStar") and isinstance(s, getattr(ast, "TryStar"))):
            inner = tuple(ctxs)
            fin = None
            if s.finalbody:
                fin = FinallyCtx(s)
                inner = inner + (fin,)
            hinfos = []
            for h in s.handlers:
                hn = self._new("handler", h, inner)
                hi = HandlerInfo(h, handler_types(h), hn)
                hinfos.append(hi)
                self.handlers.append(hi)
            tctx = TryCtx(s, hinfos)
            body = self._block(s.body, inner + (tctx,) if hinfos else inner)
            orelse = self._block(s.orelse, inner)
            outs: List[Tuple[Node, str]] = []
            main = self._seq([body, orelse])
            entry = main.entry
            if entry is None:
                entry = self._new("stmt", None, ctxs, label="empty-try")
                outs.append((entry, "n"))
            else:
                outs.extend(main.outs)
            for hi in hinfos:
                saved = self._cur_handler
                self._cur_handler = hi
                hb = self._block(hi.ast.body, inner)
                self._cur_handler = saved
                if hb.entry is None:
                    outs.append((hi.entry, "n"))
                else:
                    self._edge(hi.entry, hb.entry, "n")
                    outs.extend(hb.outs)
            if fin is not None:
                fb = self._block(s.finalbody, ctxs)
                if fb.entry is not None:
                    self._connect(outs, fb.entry)
                    outs = fb.outs
            return Frag(entry, outs)
        raise AnalysisError("unmodelled statement %s in %s" % (type(s).__name__, self.fi.qualname))

    # -- queries
    def reachable(self, starts: Iterable[Node], *, block_nodes: Iterable[Node] = (),
                  block_edges: Iterable[Tuple[Node, Node, str]] = (), follow_exc: bool = True) -> Set[int]:
        blockn = {n.id for n in block_nodes}
        blocke = {(a.id, b.id, l) for a, b, l in block_edges}
        seen: Set[int] = set()
        todo = [n for n in starts]
        while todo:
            n = todo.pop()
            if n.id in seen or n.id in blockn:
                continue
            seen.add(n.id)
            for m, l in n.succ:
                if not follow_exc and l == "exc":
                    continue
                if (n.id, m.id, l) in blocke:
                    continue
                todo.append(m)
        return seen

    def after_normal(self, n: Node, follow_exc: bool = True) -> Set[int]:
        """Nodes reachable after *n* completed normally."""
        return self.reachable([m for m, l in n.succ if l != "exc"], follow_exc=follow_exc)

    def normal_completion_dominates(self, a_nodes: Iterable[Node], b: Node) -> bool:
        """True iff every path entry -> b passes the normal completion of one of a_nodes."""
        a_nodes = list(a_nodes)
        if any(a is b for a in a_nodes):
            return False
        blocked = []
        for a in a_nodes:
            for m, l in a.succ:
                if l != "exc":
                    blocked.append((a, m, l))
        r = self.reachable([self.entry], block_edges=blocked)
        return b.id not in r

    def node_dominates(self, a_nodes: Iterable[Node], b: Node) -> bool:
        r = self.reachable([self.entry], block_nodes=list(a_nodes))
        return b.id not in r

    def required_conditions(self, b: Node) -> List[Tuple[ast.AST, bool]]:
        """Atoms whose truth value is implied by reaching *b* (from entry)."""
        out = []
        for t in self.nodes:
            if t.kind != "test" or t is b:
                continue
            for pol, lab in ((True, "t"), (False, "f")):
                edges = [(t, m, l) for m, l in t.succ if l == lab]
                if not edges:
                    continue
                r = self.reachable([self.entry], block_edges=edges)
                if b.id not in r:
                    out.append((t.ast, pol))
        return out

    def stmt_nodes(self) -> List[Node]:
        return [n for n in self.nodes if n.kind not in ("entry", "exit", "raise_exit")]

    def find(self, pred) -> List[Node]:
        return [n for n in self.nodes if pred(n)]

    def dump(self) -> str:
        lines = []
        for n in self.nodes:
            lines.append("%3d %-10s L%-4d %-60s -> %s" % (
                n.id, n.kind, n.lineno, n.text()[:60],
                ", ".join("%d:%s" % (m.id, l) for m, l in n.succ)))
        return "\n".join(lines)


class CFGCache:
    def __init__(self, program):
        self.program = program
        self.hier = ExcHierarchy(program)
        self._cache: Dict[str, CFG] = {}

    def get(self, fi: FuncInfo) -> CFG:
        c = self._cache.get(fi.qualname)
        if c is None:
            c = CFG(fi, self.hier)
            self._cache[fi.qualname] = c
        return c
