"""Statement-level control-flow graph with separate exceptional edges.

Covers the statement kinds the repository uses (see DESIGN.md, Appendix A) plus
``try/finally`` and ``async with``.  ``match`` statements make a function
unanalysable (AnalysisError), they are never skipped silently.

Conditions are expanded for short-circuit evaluation, so every ``test`` node is
an atom (no ``and``/``or``/``not`` at the top).
"""

from __future__ import annotations

import ast
import copy
from typing import Dict, Iterable, List, Optional, Sequence, Set, Tuple

from .program import AnalysisError, FuncInfo, dotted, src

# -- exception hierarchy ------------------------------------------------------

BUILTIN_EXC_PARENT = {
    "Exception": "BaseException",
    "LookupError": "Exception", "KeyError": "LookupError", "IndexError": "LookupError",
    "OSError": "Exception", "IOError": "Exception", "FileNotFoundError": "OSError",
    "FileExistsError": "OSError", "IsADirectoryError": "OSError", "NotADirectoryError": "OSError",
    "PermissionError": "OSError",
    "ValueError": "Exception", "UnicodeError": "ValueError", "UnicodeDecodeError": "UnicodeError",
    "UnicodeEncodeError": "UnicodeError",
    "RuntimeError": "Exception", "NotImplementedError": "RuntimeError",
    "AssertionError": "Exception", "TypeError": "Exception", "AttributeError": "Exception",
    "ImportError": "Exception", "ModuleNotFoundError": "ImportError",
    "StopIteration": "Exception", "ArithmeticError": "Exception", "ZeroDivisionError": "ArithmeticError",
    "FileLocked": "Exception", "ParseError": "Exception", "NotGitRepository": "Exception",
    "DuplicateSectionError": "Exception",
}


class ExcHierarchy:
    def __init__(self, program=None):
        self.parent: Dict[str, str] = dict(BUILTIN_EXC_PARENT)
        if program is not None:
            changed = True
            while changed:
                changed = False
                for ci in program.classes.values():
                    if ci.name in self.parent:
                        continue
                    for b in ci.bases:
                        bn = b.name if hasattr(b, "name") else str(b).split(".")[-1]
                        if bn in self.parent or bn in ("Exception", "BaseException"):
                            self.parent[ci.name] = bn
                            changed = True
                            break

    def is_sub(self, a: str, b: str) -> bool:
        seen = set()
        while a is not None and a not in seen:
            if a == b:
                return True
            seen.add(a)
            a = self.parent.get(a)
        return b == "BaseException"

    def match(self, exc: Optional[str], types: Optional[List[Optional[str]]]) -> str:
        """'yes' (certainly caught), 'maybe', or 'no'."""
        if types is None:
            return "yes"
        if exc is None:
            for t in types:
                if t in ("BaseException", "Exception"):
                    return "yes"
            return "maybe"
        res = "no"
        for t in types:
            if t is None:
                res = "maybe"
                continue
            if self.is_sub(exc, t):
                return "yes"
            if self.is_sub(t, exc):
                res = "maybe"
        return res


# -- graph --------------------------------------------------------------------

_NEVER_NONE_EXTERNALS = {"posixpath.join", "posixpath.normpath", "os.path.join", "os.path.normpath", "os.path.abspath", "str", "repr", "bytes",
                         "urllib.parse.quote", "urllib.parse.unquote", "urllib.parse.urljoin", "list", "tuple", "dict", "set", "sorted"}


def _walk_own(fn):
    """Nodes of a function body, not descending into nested functions / classes / lambdas."""
    todo = list(fn.body) if hasattr(fn, "body") and isinstance(fn.body, list) else []
    while todo:
        x = todo.pop()
        yield x
        if isinstance(x, (ast.FunctionDef, ast.AsyncFunctionDef, ast.ClassDef, ast.Lambda)):
            continue
        todo.extend(ast.iter_child_nodes(x))


class Node:
    __slots__ = ("id", "kind", "ast", "label", "succ", "pred", "ctx", "handler", "lineno", "extra")

    def __init__(self, id, kind, ast_node=None, label=""):
        self.id = id
        self.kind = kind
        self.ast = ast_node
        self.label = label
        self.succ: List[Tuple["Node", str]] = []
        self.pred: List[Tuple["Node", str]] = []
        self.ctx: tuple = ()
        self.handler = None  # innermost HandlerInfo whose body contains this node
        self.lineno = getattr(ast_node, "lineno", 0)
        self.extra = {}

    def exprs(self) -> List[ast.AST]:
        """The expressions / simple statement evaluated *at* this node."""
        a = self.ast
        if a is None:
            return []
        if self.kind in ("stmt", "return", "raise", "test"):
            return [a]
        if self.kind == "for":
            return [a.iter, a.target]
        if self.kind == "with_enter":
            out = []
            for it in a.items:
                out.append(it.context_expr)
                if it.optional_vars is not None:
                    out.append(it.optional_vars)
            return out
        if self.kind == "handler":
            return [a.type] if a.type is not None else []
        return []

    def calls(self) -> List[ast.Call]:
        out = []
        for e in self.exprs():
            todo = [e]
            while todo:
                n = todo.pop()
                if isinstance(n, ast.Call):
                    out.append(n)
                if isinstance(n, (ast.FunctionDef, ast.AsyncFunctionDef, ast.ClassDef, ast.Lambda)):
                    continue
                todo.extend(ast.iter_child_nodes(n))
        return out

    def text(self) -> str:
        if self.kind in ("entry", "exit", "raise_exit"):
            return self.kind
        if self.kind == "for":
            return "for %s in %s" % (src(self.ast.target), src(self.ast.iter))
        if self.kind == "with_enter":
            return "with " + ", ".join(src(i.context_expr) for i in self.ast.items)
        if self.kind in ("with_exit", "with_exc"):
            return "%s(%s)" % (self.kind, ", ".join(src(i.context_expr) for i in self.ast.items))
        if self.kind == "handler":
            return "except " + (src(self.ast.type) if self.ast.type is not None else "")
        if self.kind == "test":
            return "if " + src(self.ast)
        return src(self.ast).split("\n")[0] if self.ast is not None else self.kind

    def __repr__(self):
        return "<N%d %s L%d %s>" % (self.id, self.kind, self.lineno, self.text()[:60])


class HandlerInfo:
    def __init__(self, node: ast.ExceptHandler, types, entry: Node):
        self.ast = node
        self.types: Optional[List[Optional[str]]] = types
        self.entry = entry
        self.incoming: Set[Optional[str]] = set()


class TryCtx:
    def __init__(self, stmt, handlers):
        self.stmt = stmt
        self.handlers: List[HandlerInfo] = handlers


class WithCtx:
    def __init__(self, stmt):
        self.stmt = stmt
        self.exc_nodes: Dict[Optional[str], Node] = {}


class FinallyCtx:
    def __init__(self, stmt):
        self.stmt = stmt
        self.exc_copies: Dict[Optional[str], Node] = {}


class LoopCtx:
    def __init__(self, head: Node, depth: int):
        self.head = head
        self.depth = depth  # len(ctxs) at loop entry
        self.breaks: List[Tuple[Node, str]] = []


class InlineCtx:
    """Body of an inlined helper: ``return`` jumps to the end of the block."""

    def __init__(self, ret: Optional[str], callee: str, cond: bool = False):
        self.ret = ret
        self.callee = callee
        self.cond = cond          # inlined in test position: `return E` branches on E
        self.t_rets: List[Tuple[Node, str]] = []
        self.f_rets: List[Tuple[Node, str]] = []
        self.rets: List[Tuple[Node, str]] = []
        self.breaks: List[Tuple[Node, str]] = []   # break out of a spliced for-body: leaves the whole block


class SpliceCtx:
    """Caller's statements placed at a ``yield`` of an inlined generator: ``return`` is the caller's again."""

    def __init__(self, ictx: InlineCtx):
        self.ictx = ictx


class Frag:
    __slots__ = ("entry", "outs")

    def __init__(self, entry: Optional[Node], outs: List[Tuple[Node, str]]):
        self.entry = entry
        self.outs = outs


def exc_name_of(e: Optional[ast.AST]) -> Optional[str]:
    if e is None:
        return None
    if isinstance(e, ast.Call):
        e = e.func
    d = dotted(e)
    if d is None:
        return None
    return d.split(".")[-1]


def handler_types(h: ast.ExceptHandler) -> Optional[List[Optional[str]]]:
    if h.type is None:
        return None
    if isinstance(h.type, ast.Tuple):
        return [exc_name_of(x) for x in h.type.elts]
    return [exc_name_of(h.type)]


_RAISING = (ast.Call, ast.Subscript, ast.Await, ast.Yield, ast.YieldFrom, ast.BinOp, ast.Starred)


def may_raise_expr(e: ast.AST) -> bool:
    todo = [e]
    while todo:
        n = todo.pop()
        if isinstance(n, _RAISING):
            return True
        if isinstance(n, (ast.FunctionDef, ast.AsyncFunctionDef, ast.ClassDef, ast.Lambda)):
            continue
        if isinstance(n, (ast.ListComp, ast.SetComp, ast.DictComp, ast.GeneratorExp)):
            return True
        todo.extend(ast.iter_child_nodes(n))
    return False


class CFG:
    def __init__(self, fi: FuncInfo, hier: ExcHierarchy, inliner=None):
        self.fi = fi
        self.hier = hier
        self.inliner = inliner
        self._inline_stack: List[str] = []
        self.inlined: List[str] = []          # qualified names of the helpers inlined into this graph
        self.inlined_bodies: List[List[ast.stmt]] = []   # instantiated (renamed) bodies, for syntax-directed rules
        self._used: Optional[Set[str]] = None
        self._flags: Dict[str, tuple] = {}
        self._decided = None
        self._table_alias: Dict[str, list] = {}
        self.nodes: List[Node] = []
        self._cur_handler: Optional[HandlerInfo] = None
        self.entry = self._new("entry")
        self.exit = self._new("exit")
        self.raise_exit = self._new("raise_exit")
        self.handlers: List[HandlerInfo] = []
        self._loops: List[LoopCtx] = []
        body = fi.node.body
        frag = self._block(body, ())
        if frag.entry is None:
            self._edge(self.entry, self.exit, "n")
        else:
            self._edge(self.entry, frag.entry, "n")
            for n, l in frag.outs:
                self._edge(n, self.exit, l)
        if self.inlined:
            self._prune_unreachable()

    def _prune_unreachable(self):
        """Inlining can leave nodes no path reaches (the fall-off return of a helper that always returns, the join
        after it): drop them, rules enumerate nodes."""
        seen = self.reachable([self.entry])
        keep = {self.entry.id, self.exit.id, self.raise_exit.id} | seen
        dead = [n for n in self.nodes if n.id not in keep]
        if not dead:
            return
        deadids = {n.id for n in dead}
        self.nodes = [n for n in self.nodes if n.id not in deadids]
        for n in self.nodes:
            n.pred = [(p_, l) for p_, l in n.pred if p_.id not in deadids]
            n.succ = [(m, l) for m, l in n.succ if m.id not in deadids]

    # -- construction helpers
    def _new(self, kind, ast_node=None, ctxs=(), label="") -> Node:
        n = Node(len(self.nodes), kind, ast_node, label)
        n.ctx = tuple(ctxs)
        n.handler = self._cur_handler
        if self._inline_stack:
            n.extra["inlined_from"] = self._inline_stack[-1]
        self.nodes.append(n)
        return n

    def _edge(self, a: Node, b: Node, label: str):
        for (x, l) in a.succ:
            if x is b and l == label:
                return
        a.succ.append((b, label))
        b.pred.append((a, label))

    def _connect(self, outs, target: Node):
        for n, l in outs:
            self._edge(n, target, l)

    def _seq(self, frags: Sequence[Frag]) -> Frag:
        entry = None
        outs: List[Tuple[Node, str]] = []
        first = True
        for f in frags:
            if f.entry is None:
                continue
            if first:
                entry = f.entry
                first = False
            else:
                self._connect(outs, f.entry)
            outs = f.outs
        if entry is None:
            return Frag(None, [])
        return Frag(entry, outs)

    def _block(self, stmts: List[ast.stmt], ctxs) -> Frag:
        frags = []
        i = 0
        while i < len(stmts):
            if self.inliner is not None and i + 1 < len(stmts) and isinstance(stmts[i + 1], ast.If) \
                    and isinstance(stmts[i], (ast.Assign, ast.AnnAssign)):
                fr = self._assign_then_if(stmts[i], stmts[i + 1], ctxs)
                if fr is not None:
                    frags.append(fr)
                    i += 2
                    continue
            frags.append(self._stmt(stmts[i], ctxs))
            i += 1
        return self._seq(frags)

    # -- `x = helper(...)` directly followed by `if <test on x>`: one continuation per return site of the helper
    @staticmethod
    def _value_class(v: Optional[ast.AST]):
        """What is statically known about a returned expression: ('const', value) | 'notnone' | None (unknown)."""
        if v is None:
            return ("const", None)
        if isinstance(v, ast.Constant):
            return ("const", v.value)
        if isinstance(v, (ast.Tuple, ast.List, ast.Dict, ast.Set, ast.JoinedStr, ast.ListComp, ast.DictComp, ast.SetComp, ast.GeneratorExp, ast.Lambda)):
            return "notnone"
        return None

    def _returns_class(self, fi, depth: int):
        """The program class every normal completion of *fi* returns a fresh instance of (None if not uniform)."""
        if depth > 3 or not self._never_none(fi, depth):
            return None
        found = None
        for x in _walk_own(fi.node):
            if isinstance(x, ast.Return):
                v = x.value.value if isinstance(x.value, ast.Await) else x.value
                if not (isinstance(v, ast.Call) and dotted(v.func)):
                    return None
                try:
                    k_, o_ = self.inliner.P.resolve_dotted(fi.module, dotted(v.func), fi)
                except Exception:
                    return None
                if k_ == "func":
                    o_ = self._returns_class(o_, depth + 1) if o_ is not fi else None
                    k_ = "class" if o_ is not None else None
                if k_ != "class":
                    return None
                if found is not None and found is not o_:
                    return None
                found = o_
        return found

    def _never_none(self, fi, depth: int) -> bool:
        """Every normal completion of program function *fi* returns a value that is visibly not None
        (a literal, a container display, an instance of a program class, or the result of such a function)."""
        if depth > 3 or fi is None or getattr(fi, "node", None) is None or isinstance(fi.node, ast.Lambda):
            return False
        if any(isinstance(x, (ast.Yield, ast.YieldFrom)) for x in _walk_own(fi.node)):
            return False

        def ends(stmts) -> bool:
            if not stmts:
                return False
            last = stmts[-1]
            if isinstance(last, (ast.Return, ast.Raise)):
                return True
            if isinstance(last, ast.If):
                return ends(last.body) and ends(last.orelse)
            if isinstance(last, (ast.With, ast.AsyncWith)):
                return ends(last.body)
            if isinstance(last, ast.Try):
                return (ends(last.finalbody) or ((ends(last.body) or ends(last.orelse)) and all(ends(h.body) for h in last.handlers)))
            return False

        if not ends(fi.node.body):
            return False
        for x in _walk_own(fi.node):
            if isinstance(x, ast.Return):
                v = x.value.value if isinstance(x.value, ast.Await) else x.value
                c = self._value_class(v)
                if c == "notnone" or (isinstance(c, tuple) and c[1] is not None):
                    continue
                if isinstance(v, ast.Call) and dotted(v.func):
                    try:
                        k_, o_ = self.inliner.P.resolve_dotted(fi.module, dotted(v.func), fi)
                    except Exception:
                        return False
                    if k_ == "class" or (k_ == "func" and o_ is not fi and self._never_none(o_, depth + 1)):
                        continue
                return False
        return True

    def _assign_then_if(self, a, ifs: ast.If, ctxs) -> Optional[Frag]:
        tgts = a.targets if isinstance(a, ast.Assign) else [a.target]
        if len(tgts) != 1 or a.value is None:
            return None
        tg = tgts[0]
        if isinstance(tg, ast.Name):
            names = [tg.id]
        elif isinstance(tg, ast.Tuple) and all(isinstance(e_, ast.Name) for e_ in tg.elts):
            names = [e_.id for e_ in tg.elts]
        else:
            return None
        tested = {x.id for x in ast.walk(ifs.test) if isinstance(x, ast.Name)}
        if not (set(names) & tested):
            return None
        site = a.value
        call = site.value if isinstance(site, ast.Await) else site
        if not isinstance(call, ast.Call):
            return None
        t = self.inliner.target(self._resolve_fi(), site, self._inline_stack, "value")
        if t is None:
            return None
        from .inline import InlineBlock
        pre_frag, site2 = self._hoist_args(site, ctxs)
        pre, body, _ret = self.inliner.instantiate(self.fi, t, site2, self._names_used(), want_ret=False)
        self.inlined_bodies.append(list(pre) + list(body))
        # flags: as for any statement that stores into these names / a compound statement
        saved_flags = dict(self._flags)
        stored = self._stores(a, deep=True) | self._stores(ifs, deep=True)
        ictx = InlineCtx(None, t.qualname)
        ictx.sites = []                 # [(assign node, outs)] one per return site
        ictx.site_stmt = a
        inner = tuple(ctxs) + (ictx,)
        frs = ([pre_frag] if pre_frag is not None else []) + [self._stmt_plain(p_, ctxs) for p_ in pre]
        start = self._new("stmt", None, ctxs, label="inline-begin")
        start.extra["inline_begin"] = t.qualname
        start.lineno = a.lineno
        self._inline_stack.append(t.qualname)
        if t.qualname not in self.inlined:
            self.inlined.append(t.qualname)
        saved_loops, self._loops = self._loops, []
        try:
            b = self._block(body, inner)
            if b.entry is None or b.outs:
                # falling off the end returns None
                tail = self._stmt(ast.Return(value=None, lineno=a.lineno, col_offset=0), inner)
                b = self._seq([b, tail]) if b.entry is not None else tail
        finally:
            self._loops = saved_loops
            self._inline_stack.pop()
        self._edge(start, b.entry, "n") if b.entry is not None else None
        if not ictx.sites:
            # the helper never returns normally
            self._flags = self._drop_flags(saved_flags, stored)
            return self._seq(frs + [Frag(start, [])])
        t_all: List[Tuple[Node, str]] = []
        f_all: List[Tuple[Node, str]] = []
        def vclass(v):
            c = self._value_class(v)
            if c is None and isinstance(v, ast.Call) and (dotted(v.func) or "") in _NEVER_NONE_EXTERNALS:
                return "notnone"
            if c is None and isinstance(v, ast.Call) and dotted(v.func):
                # an instance of a program class is never None
                try:
                    kind_, _obj = self.inliner.P.resolve_dotted(t.module, dotted(v.func))
                except Exception:
                    kind_ = None
                if kind_ == "class":
                    c = ("inst", _obj)
                elif kind_ == "func":
                    k = self._returns_class(_obj, 0)
                    if k is not None:
                        c = ("inst", k)
                    elif self._never_none(_obj, 0):
                        c = "notnone"
            return c

        for (anode, outs, vexpr) in ictx.sites:
            decided = {}
            if isinstance(tg, ast.Name):
                decided[tg.id] = vclass(vexpr)
            elif isinstance(vexpr, ast.Tuple) and len(vexpr.elts) == len(tg.elts) and not any(isinstance(x, ast.Starred) for x in vexpr.elts):
                for nm, ve in zip(names, vexpr.elts):
                    decided[nm] = vclass(ve)
            self._decided = {k: v for k, v in decided.items() if v is not None}
            self._flags = self._drop_flags(dict(saved_flags), stored)
            try:
                en, t_, f_ = self._cond(ifs.test, ctxs)
            finally:
                self._decided = None
            self._connect(outs, en)
            t_all.extend(t_)
            f_all.extend(f_)
        self._flags = self._drop_flags(dict(saved_flags), stored)
        bodyf = self._block(ifs.body, ctxs)
        self._flags = self._drop_flags(dict(saved_flags), stored)
        orelse = self._block(ifs.orelse, ctxs)
        self._flags = self._drop_flags(saved_flags, stored)
        outs2: List[Tuple[Node, str]] = []
        if bodyf.entry is None:
            outs2.extend(t_all)
        else:
            self._connect(t_all, bodyf.entry)
            outs2.extend(bodyf.outs)
        if orelse.entry is None:
            outs2.extend(f_all)
        else:
            self._connect(f_all, orelse.entry)
            outs2.extend(orelse.outs)
        head = self._seq(frs + [Frag(start, [])])
        return Frag(head.entry, outs2)

    # -- exception routing
    def _route(self, node: Node, exc: Optional[str], ctxs):
        for i in range(len(ctxs) - 1, -1, -1):
            c = ctxs[i]
            if isinstance(c, TryCtx):
                for h in c.handlers:
                    m = self.hier.match(exc, h.types)
                    if m != "no":
                        self._edge(node, h.entry, "exc")
                        h.incoming.add(exc)
                    if m == "yes":
                        return
            elif isinstance(c, WithCtx):
                wn = c.exc_nodes.get(exc)
                if wn is None:
                    wn = self._new("with_exc", c.stmt, ctxs[:i])
                    wn.extra["exc"] = exc
                    c.exc_nodes[exc] = wn
                    self._route(wn, exc, ctxs[:i])
                self._edge(node, wn, "exc")
                return
            elif isinstance(c, FinallyCtx):
                fn = c.exc_copies.get(exc)
                if fn is None:
                    saved = self._cur_handler
                    frag = self._block(c.stmt.finalbody, ctxs[:i])
                    self._cur_handler = saved
                    rr = self._new("stmt", None, ctxs[:i], label="reraise")
                    rr.extra["exc"] = exc
                    if frag.entry is None:
                        fn = rr
                    else:
                        fn = frag.entry
                        self._connect(frag.outs, rr)
                    c.exc_copies[exc] = fn
                    self._route(rr, exc, ctxs[:i])
                self._edge(node, fn, "exc")
                return
        self._edge(node, self.raise_exit, "exc")

    def _unwind(self, frm: Node, ctxs, down_to: int, label="n") -> List[Tuple[Node, str]]:
        """Run with-exits / finally bodies for a jump out of ctxs[down_to:].  Returns outs."""
        outs = [(frm, label)]
        for i in range(len(ctxs) - 1, down_to - 1, -1):
            c = ctxs[i]
            if isinstance(c, WithCtx):
                wx = self._new("with_exit", c.stmt, ctxs[:i])
                wx.extra["via"] = "jump"
                self._connect(outs, wx)
                self._route(wx, None, ctxs[:i])
                outs = [(wx, "n")]
            elif isinstance(c, FinallyCtx):
                frag = self._block(c.stmt.finalbody, ctxs[:i])
                if frag.entry is not None:
                    self._connect(outs, frag.entry)
                    outs = frag.outs
        return outs

    def _decide_atom(self, e: ast.AST) -> Optional[bool]:
        """Truth value of test atom *e* when it is about a name whose value class is known on this path
        (continuation of one return site of an inlined helper)."""
        d = getattr(self, "_decided", None)
        if not d:
            return None
        if isinstance(e, ast.Name) and e.id in d:
            c = d[e.id]
            if isinstance(c, tuple) and c[0] == "const":
                return bool(c[1])
            return None
        if isinstance(e, ast.Call) and isinstance(e.func, ast.Name) and e.func.id == "isinstance" and len(e.args) == 2 \
                and isinstance(e.args[0], ast.Name) and e.args[0].id in d and not e.keywords:
            c = d[e.args[0].id]
            if isinstance(c, tuple) and c[0] == "const":
                # None / str / int literals are instances of no program class
                return False if self._program_classes(e.args[1]) else None
            if isinstance(c, tuple) and c[0] == "inst":
                cls_ = self._program_classes(e.args[1])
                if cls_:
                    return any(k in c[1].mro for k in cls_)
            return None
        if isinstance(e, ast.Compare) and len(e.ops) == 1 and isinstance(e.left, ast.Name) and e.left.id in d \
                and isinstance(e.comparators[0], ast.Constant):
            c = d[e.left.id]
            k = e.comparators[0].value
            op = e.ops[0]
            if isinstance(op, (ast.Is, ast.IsNot)) and k is None:
                isnone = isinstance(c, tuple) and c[0] == "const" and c[1] is None
                return isnone if isinstance(op, ast.Is) else not isnone
            if isinstance(op, (ast.Eq, ast.NotEq)):
                if isinstance(c, tuple) and c[0] == "inst":
                    return isinstance(op, ast.NotEq) if k is None else None
                if isinstance(c, tuple):
                    try:
                        r = (c[1] == k)
                    except Exception:
                        return None
                    return r if isinstance(op, ast.Eq) else not r
                if k is None and c == "notnone":
                    return isinstance(op, ast.NotEq)
        return None

    def _program_classes(self, e: ast.AST):
        """The program classes named by the second argument of isinstance() (a name or a tuple of names); [] if any
        of them is not a class of the program."""
        elts = list(e.elts) if isinstance(e, ast.Tuple) else [e]
        out = []
        rfi = self._resolve_fi() if self.inliner is not None else self.fi
        for x in elts:
            d_ = dotted(x)
            if not d_ or self.inliner is None:
                return []
            try:
                k_, o_ = self.inliner.P.resolve_dotted(rfi.module, d_, rfi)
            except Exception:
                return []
            if k_ != "class":
                return []
            out.append(o_)
        return out

    # -- conditions with short-circuit
    def _cond(self, e: ast.AST, ctxs) -> Tuple[Node, List[Tuple[Node, str]], List[Tuple[Node, str]]]:
        if isinstance(e, ast.BoolOp):
            entry = None
            t_outs: List[Tuple[Node, str]] = []
            f_outs: List[Tuple[Node, str]] = []
            pending: List[Tuple[Node, str]] = []
            for idx, v in enumerate(e.values):
                en, t, f = self._cond(v, ctxs)
                if entry is None:
                    entry = en
                else:
                    self._connect(pending, en)
                last = idx == len(e.values) - 1
                if isinstance(e.op, ast.And):
                    f_outs.extend(f)
                    if last:
                        t_outs.extend(t)
                    else:
                        pending = t
                else:
                    t_outs.extend(t)
                    if last:
                        f_outs.extend(f)
                    else:
                        pending = f
            return entry, t_outs, f_outs
        if isinstance(e, ast.UnaryOp) and isinstance(e.op, ast.Not):
            en, t, f = self._cond(e.operand, ctxs)
            return en, f, t
        # `(x := E) is not None` as a test atom: the binding first, then the test on x
        walrus = [x for x in ast.walk(e) if isinstance(x, ast.NamedExpr) and isinstance(x.target, ast.Name)]
        if walrus and not any(isinstance(x, (ast.Lambda, ast.ListComp, ast.SetComp, ast.DictComp, ast.GeneratorExp, ast.IfExp, ast.BoolOp)) for x in ast.walk(e)):
            from .inline import replace_node
            frs = []
            e2 = e
            for w in walrus:
                asg = ast.Assign(targets=[ast.Name(id=w.target.id, ctx=ast.Store())], value=w.value, lineno=getattr(w, "lineno", 0), col_offset=0)
                frs.append(self._stmt(asg, ctxs))
                e2 = replace_node(e2, w, ast.copy_location(ast.Name(id=w.target.id, ctx=ast.Load()), w))
            en, t_, f_ = self._cond(e2, ctxs)
            pre = self._seq(frs)
            self._connect(pre.outs, en)
            return pre.entry, t_, f_
        dec = self._decide_atom(e)
        if dec is not None:
            n = self._new("test", e, ctxs)
            n.extra["decided"] = dec
            return (n, [(n, "t")], []) if dec else (n, [], [(n, "f")])
        if isinstance(e, ast.Name) and e.id in self._flags:
            return self._cond(self._flags[e.id][0], ctxs)
        if isinstance(e, ast.Call) and isinstance(e.func, ast.Name) and e.func.id == "bool" and len(e.args) == 1 and not e.keywords:
            return self._cond(e.args[0], ctxs)      # bool(X) in test position is X
        ci = self._cond_inline(e, ctxs)
        if ci is not None:
            return ci
        pre, e = self._hoist(e, ctxs)
        n = self._new("test", e, ctxs)
        if may_raise_expr(e):
            self._route(n, None, ctxs)
        if pre is not None and pre.entry is not None:
            self._connect(pre.outs, n)
            return pre.entry, [(n, "t")], [(n, "f")]
        return n, [(n, "t")], [(n, "f")]

    # -- statements
    # -- single-assignment boolean temporaries ("flags"): `f = a == b` ... `if f:` is built as `if a == b:`
    @staticmethod
    def _stores(node, deep: bool) -> Set[str]:
        out: Set[str] = set()
        todo = [node]
        first = True
        while todo:
            n = todo.pop()
            if isinstance(n, ast.Name) and isinstance(n.ctx, (ast.Store, ast.Del)):
                out.add(n.id)
            elif isinstance(n, ast.ExceptHandler) and n.name:
                out.add(n.name)
            elif isinstance(n, (ast.Import, ast.ImportFrom)):
                for a in n.names:
                    out.add((a.asname or a.name).split(".")[0])
            if isinstance(n, (ast.FunctionDef, ast.AsyncFunctionDef, ast.ClassDef, ast.Lambda)) and not first:
                if hasattr(n, "name"):
                    out.add(n.name)
                continue
            first = False
            if not deep and isinstance(n, ast.stmt) and n is not node:
                continue
            todo.extend(ast.iter_child_nodes(n))
        return out

    def _drop_flags(self, flags: dict, stored: Set[str]) -> dict:
        if not stored:
            return flags
        return {k: v for k, v in flags.items() if k not in stored and not (v[1] & stored)}

    def _stmt(self, s: ast.stmt, ctxs) -> Frag:
        from .inline import InlineBlock, SplicedBody
        compound = isinstance(s, (ast.If, ast.For, ast.AsyncFor, ast.While, ast.With, ast.AsyncWith, ast.Try, InlineBlock, SplicedBody)) \
            or (hasattr(ast, "TryStar") and isinstance(s, getattr(ast, "TryStar")))
        if compound:
            saved = dict(self._flags)
            stored = self._stores(s, deep=True)
            if isinstance(s, (ast.For, ast.AsyncFor, ast.While)):
                self._flags = self._drop_flags(self._flags, stored)
            try:
                return self._stmt_inner(s, ctxs)
            finally:
                self._flags = self._drop_flags(saved, stored)
        frag = self._stmt_inner(s, ctxs)
        self._flags = self._drop_flags(self._flags, self._stores(s, deep=True))
        for nm_ in self._stores(s, deep=True):
            self._table_alias.pop(nm_, None)
        if self.inliner is not None and isinstance(s, ast.Assign) and len(s.targets) == 1 and isinstance(s.targets[0], ast.Name):
            cands = self._table_functions(s.value)
            if cands:
                self._table_alias[s.targets[0].id] = cands
        if isinstance(s, ast.Assign) and len(s.targets) == 1 and isinstance(s.targets[0], ast.Name) \
                and isinstance(s.value, (ast.Compare, ast.BoolOp)) or (
                isinstance(s, ast.Assign) and len(s.targets) == 1 and isinstance(s.targets[0], ast.Name)
                and isinstance(s.value, ast.UnaryOp) and isinstance(s.value.op, ast.Not)):
            names = {x.id for x in ast.walk(s.value) if isinstance(x, ast.Name)}
            if s.targets[0].id not in names:
                self._flags[s.targets[0].id] = (s.value, frozenset(names))
        return frag

    def _stmt_inner(self, s: ast.stmt, ctxs) -> Frag:
        from .inline import InlineBlock, SplicedBody
        if isinstance(s, InlineBlock):
            return self._inline_block(s, ctxs)
        if isinstance(s, SplicedBody):
            return self._spliced_body(s, ctxs)
        if isinstance(s, (ast.Assign, ast.AnnAssign, ast.Return)) and isinstance(getattr(s, "value", None), ast.IfExp) \
                and not (isinstance(s, ast.Assign) and len(s.targets) != 1):
            # `x = A if C else B`  ->  `if C: x = A` / `else: x = B`  (same evaluation order)
            ie = s.value
            a_, b_ = copy.copy(s), copy.copy(s)
            a_.value, b_.value = ie.body, ie.orelse
            cond = ast.If(test=ie.test, body=[a_], orelse=[b_])
            ast.copy_location(cond, s)
            return self._stmt(cond, ctxs)
        if isinstance(s, ast.Expr) and isinstance(s.value, ast.YieldFrom):
            from .inline import desugar_yield_from
            ds = desugar_yield_from(s)
            if ds is not None:
                # comprehension variables are local to the comprehension: keep them apart from the function's names
                used = self._names_used()
                tg = {x.id for x in ast.walk(ds[0].target) if isinstance(x, ast.Name)}
                clash = {v: "%s__g%d" % (v, len(self.nodes)) for v in tg if v in used - tg or True}
                if clash:
                    from .inline import _Renamer
                    import copy as _copy
                    ds = [_Renamer(clash).visit(_copy.deepcopy(x)) for x in ds]
                    used |= set(clash.values())
                return self._block(ds, ctxs)
        if self.inliner is not None:
            if isinstance(s, (ast.For, ast.AsyncFor)) and isinstance(s.iter, (ast.GeneratorExp, ast.ListComp)) and len(s.iter.generators) == 1 \
                    and not s.orelse and not s.iter.generators[0].is_async:
                # `for T in (E for V in IT if C): body`  ==  `for V in IT: if C: T = E; body`  (V local to the comprehension)
                g = s.iter.generators[0]
                import copy as _copy
                from .inline import _Renamer
                used = self._names_used()
                vs = {x.id for x in ast.walk(g.target) if isinstance(x, ast.Name)}
                ren = {v: "%s__g%d" % (v, len(self.nodes)) for v in vs}
                used |= set(ren.values())
                R = _Renamer(ren)
                tgt = R.visit(_copy.deepcopy(g.target))
                elt = R.visit(_copy.deepcopy(s.iter.elt))
                conds = [R.visit(_copy.deepcopy(c_)) for c_ in g.ifs]
                asg = ast.copy_location(ast.Assign(targets=[_copy.deepcopy(s.target)], value=elt), s)
                inner_body = [asg] + list(s.body)
                for c_ in reversed(conds):
                    inner_body = [ast.copy_location(ast.If(test=c_, body=inner_body, orelse=[]), s)]
                loop = ast.copy_location(type(s)(target=tgt, iter=g.iter, body=inner_body, orelse=[]), s)
                for x in ast.walk(loop):
                    if isinstance(x, ast.Name) and isinstance(x.ctx, ast.Load) and False:
                        pass
                for x in ast.walk(tgt):
                    if isinstance(x, ast.Name):
                        x.ctx = ast.Store()
                ast.fix_missing_locations(loop)
                return self._stmt(loop, ctxs)
            if isinstance(s, ast.For):
                fr = self._try_unroll(s, ctxs)
                if fr is not None:
                    return fr
            if isinstance(s, (ast.With, ast.AsyncWith, ast.For, ast.AsyncFor)):
                fr = self._try_splice(s, ctxs)
                if fr is not None:
                    return fr
            if isinstance(s, ast.Return) and s.value is not None:
                ds = self._return_as_yield_from(s)
                if ds is not None:
                    return self._block(ds, ctxs)
                fr = self._tail_inline(s, ctxs)
                if fr is not None:
                    return fr
            if isinstance(s, (ast.Assign, ast.AugAssign, ast.AnnAssign, ast.Expr, ast.Return, ast.Raise, ast.Assert, ast.Delete)):
                exc_override = None
                if isinstance(s, ast.Raise) and isinstance(s.exc, ast.Call):
                    # `raise self._helper(...)`: the exception class is the one the helper constructs
                    t_ = self.inliner.target(self._resolve_fi(), s.exc, self._inline_stack, "value")
                    if t_ is not None and not getattr(t_, "pseudo", False):
                        from .program import walk_local as _wl
                        made = {exc_name_of(r_.value) for r_ in _wl(t_.node) if isinstance(r_, ast.Return) and r_.value is not None}
                        if len(made) == 1 and None not in made:
                            exc_override = made.pop()
                pre, s2 = self._hoist(s, ctxs)
                if pre is not None and exc_override is not None:
                    s2._exc_name = exc_override
                if pre is not None:
                    if isinstance(s2, ast.Expr) and isinstance(s2.value, ast.Name) and s2.value.id.startswith("__ret_"):
                        return pre
                    if isinstance(s2, ast.Expr) and isinstance(s2.value, ast.Constant):
                        return pre
                    return self._seq([pre, self._stmt_plain(s2, ctxs)])
            if isinstance(s, (ast.For, ast.AsyncFor)):
                pre, it = self._hoist(s.iter, ctxs)
                if pre is not None:
                    s2 = copy.copy(s)
                    s2.iter = it
                    return self._seq([pre, self._stmt_plain(s2, ctxs)])
        return self._stmt_plain(s, ctxs)

    def _stmt_plain(self, s: ast.stmt, ctxs) -> Frag:
        if isinstance(s, (ast.Assign, ast.AugAssign, ast.AnnAssign, ast.Expr, ast.Delete, ast.Pass,
                          ast.Import, ast.ImportFrom, ast.Global, ast.Nonlocal)):
            n = self._new("stmt", s, ctxs)
            if not isinstance(s, (ast.Pass, ast.Global, ast.Nonlocal)) and (
                    may_raise_expr(s) or isinstance(s, (ast.Delete, ast.Import, ast.ImportFrom))):
                self._route(n, None, ctxs)
            return Frag(n, [(n, "n")])
        if isinstance(s, (ast.FunctionDef, ast.AsyncFunctionDef, ast.ClassDef)):
            n = self._new("stmt", s, ctxs, label="def")
            return Frag(n, [(n, "n")])
        if isinstance(s, ast.Assert):
            n = self._new("stmt", s, ctxs)
            self._route(n, "AssertionError", ctxs)
            if may_raise_expr(s.test):
                self._route(n, None, ctxs)
            return Frag(n, [(n, "n")])
        if isinstance(s, ast.Return):
            idx = self._inline_index(ctxs)
            if idx is not None and getattr(ctxs[idx], "sites", None) is not None:
                ictx = ctxs[idx]
                a0 = ictx.site_stmt
                a2 = copy.copy(a0)
                a2.value = s.value if s.value is not None else ast.Constant(value=None)
                n = self._new("stmt", a2, ctxs)
                n.lineno = getattr(s, "lineno", n.lineno)
                n.extra["inline_return"] = ictx.callee
                if s.value is not None and may_raise_expr(s.value):
                    self._route(n, None, ctxs)
                ictx.sites.append((n, self._unwind(n, ctxs, idx + 1), s.value))
                return Frag(n, [])
            if idx is not None and ctxs[idx].cond:
                ictx = ctxs[idx]
                v = s.value
                if v is None or isinstance(v, ast.Constant):
                    n = self._new("stmt", ast.Pass(lineno=s.lineno, col_offset=0), ctxs)
                    n.extra["inline_return"] = ictx.callee
                    n.extra["returns_const"] = bool(v.value) if v is not None else False
                    (ictx.t_rets if (v is not None and v.value) else ictx.f_rets).extend(self._unwind(n, ctxs, idx + 1))
                    return Frag(n, [])
                en, t, f = self._cond(v, ctxs)
                for tn, tl in t:
                    ictx.t_rets.extend(self._unwind(tn, ctxs, idx + 1, tl))
                for fn_, fl in f:
                    ictx.f_rets.extend(self._unwind(fn_, ctxs, idx + 1, fl))
                return Frag(en, [])
            if idx is not None:
                ictx = ctxs[idx]
                if ictx.ret is not None:
                    a = ast.Assign(targets=[ast.Name(id=ictx.ret, ctx=ast.Store())],
                                   value=s.value if s.value is not None else ast.Constant(value=None),
                                   lineno=s.lineno, col_offset=0)
                elif s.value is not None and not isinstance(s.value, (ast.Constant, ast.Name)):
                    a = ast.Expr(value=s.value, lineno=s.lineno, col_offset=0)
                else:
                    a = ast.Pass(lineno=s.lineno, col_offset=0)
                n = self._new("stmt", a, ctxs)
                n.extra["inline_return"] = ictx.callee
                if s.value is not None and may_raise_expr(s.value):
                    self._route(n, None, ctxs)
                ictx.rets.extend(self._unwind(n, ctxs, idx + 1))
                return Frag(n, [])
            n = self._new("return", s, ctxs)
            if s.value is not None and may_raise_expr(s.value):
                self._route(n, None, ctxs)
            outs = self._unwind(n, ctxs, 0)
            self._connect(outs, self.exit)
            return Frag(n, [])
        if isinstance(s, ast.Raise):
            n = self._new("raise", s, ctxs)
            if s.exc is None:
                h = self._cur_handler
                n.extra["reraise"] = True
                n.extra["exc"] = None
                self._route(n, None if h is None or h.types is None or len(h.types) != 1 else h.types[0], ctxs)
            else:
                en = getattr(s, "_exc_name", None) or exc_name_of(s.exc)
                n.extra["exc"] = en
                self._route(n, en, ctxs)
            return Frag(n, [])
        if isinstance(s, ast.If):
            en, t, f = self._cond(s.test, ctxs)
            body = self._block(s.body, ctxs)
            orelse = self._block(s.orelse, ctxs)
            outs: List[Tuple[Node, str]] = []
            if body.entry is None:
                outs.extend(t)
            else:
                self._connect(t, body.entry)
                outs.extend(body.outs)
            if orelse.entry is None:
                outs.extend(f)
            else:
                self._connect(f, orelse.entry)
                outs.extend(orelse.outs)
            return Frag(en, outs)
        if isinstance(s, ast.While):
            en, t, f = self._cond(s.test, ctxs)
            loop = LoopCtx(en, len(ctxs))
            self._loops.append(loop)
            body = self._block(s.body, ctxs)
            self._loops.pop()
            if body.entry is None:
                self._connect(t, en)
            else:
                self._connect(t, body.entry)
                self._connect(body.outs, en)
            orelse = self._block(s.orelse, ctxs)
            outs = list(loop.breaks)
            if orelse.entry is None:
                outs.extend(f)
            else:
                self._connect(f, orelse.entry)
                outs.extend(orelse.outs)
            return Frag(en, outs)
        if isinstance(s, (ast.For, ast.AsyncFor)):
            head = self._new("for", s, ctxs)
            self._route(head, None, ctxs)
            loop = LoopCtx(head, len(ctxs))
            self._loops.append(loop)
            body = self._block(s.body, ctxs)
            self._loops.pop()
            if body.entry is None:
                self._edge(head, head, "loop")
            else:
                self._edge(head, body.entry, "loop")
                self._connect(body.outs, head)
            orelse = self._block(s.orelse, ctxs)
            outs = list(loop.breaks)
            if orelse.entry is None:
                outs.append((head, "done"))
            else:
                self._edge(head, orelse.entry, "done")
                outs.extend(orelse.outs)
            return Frag(head, outs)
        if isinstance(s, ast.Break):
            n = self._new("stmt", s, ctxs)
            if not self._loops:
                raise AnalysisError("break outside loop in %s" % self.fi.qualname)
            loop = self._loops[-1]
            loop.breaks.extend(self._unwind(n, ctxs, loop.depth))
            return Frag(n, [])
        if isinstance(s, ast.Continue):
            n = self._new("stmt", s, ctxs)
            if not self._loops:
                raise AnalysisError("continue outside loop in %s" % self.fi.qualname)
            loop = self._loops[-1]
            self._connect(self._unwind(n, ctxs, loop.depth), loop.head)
            return Frag(n, [])
        if isinstance(s, (ast.With, ast.AsyncWith)):
            enter = self._new("with_enter", s, ctxs)
            self._route(enter, None, ctxs)
            wc = WithCtx(s)
            body = self._block(s.body, tuple(ctxs) + (wc,))
            wx = self._new("with_exit", s, ctxs)
            wx.extra["via"] = "fallthrough"
            self._route(wx, None, ctxs)
            if body.entry is None:
                self._edge(enter, wx, "n")
            else:
                self._edge(enter, body.entry, "n")
                self._connect(body.outs, wx)
            return Frag(enter, [(wx, "n")])
        if isinstance(s, ast.Try) or (hasattr(ast, "TryStar") and isinstance(s, getattr(ast, "TryStar"))):
            inner = tuple(ctxs)
            fin = None
            if s.finalbody:
                fin = FinallyCtx(s)
                inner = inner + (fin,)
            hinfos = []
            for h in s.handlers:
                hn = self._new("handler", h, inner)
                hi = HandlerInfo(h, self._handler_types(h), hn)
                hinfos.append(hi)
                self.handlers.append(hi)
            tctx = TryCtx(s, hinfos)
            body = self._block(s.body, inner + (tctx,) if hinfos else inner)
            orelse = self._block(s.orelse, inner)
            outs: List[Tuple[Node, str]] = []
            main = self._seq([body, orelse])
            entry = main.entry
            if entry is None:
                entry = self._new("stmt", None, ctxs, label="empty-try")
                outs.append((entry, "n"))
            else:
                outs.extend(main.outs)
            for hi in hinfos:
                saved = self._cur_handler
                self._cur_handler = hi
                hb = self._block(hi.ast.body, inner)
                self._cur_handler = saved
                if hb.entry is None:
                    outs.append((hi.entry, "n"))
                else:
                    self._edge(hi.entry, hb.entry, "n")
                    outs.extend(hb.outs)
            if fin is not None:
                fb = self._block(s.finalbody, ctxs)
                if fb.entry is not None:
                    self._connect(outs, fb.entry)
                    outs = fb.outs
            return Frag(entry, outs)
        raise AnalysisError("unmodelled statement %s in %s" % (type(s).__name__, self.fi.qualname))

    def _const_expr(self, name: str) -> Optional[ast.AST]:
        """Module-level constant expression bound to *name* in the module whose code is being built."""
        mod = self._resolve_fi().module if self.inliner is not None else self.fi.module
        return mod.const_exprs.get(name) or self.fi.module.const_exprs.get(name)

    def _handler_types(self, h: ast.ExceptHandler):
        """handler_types() with constant tuples of exception classes expanded: module-level names (`except _REFUSALS`),
        class attributes (`except self.UPDATE_ERRORS` / `except Cls.ERRORS`) and concatenations of those."""
        t = h.type
        if t is None:
            return handler_types(h)
        out = self._exc_tuple(t, None, 0)
        if out is not None:
            return out
        return handler_types(h)

    def _exc_tuple(self, e: ast.AST, cls, depth: int):
        """Names of the exception classes a constant expression denotes, None if it is not understood."""
        if depth > 6:
            return None
        if isinstance(e, ast.Tuple):
            out = []
            for x in e.elts:
                sub = self._exc_tuple(x, cls, depth + 1)
                if sub is None:
                    return None
                out.extend(sub)
            return out
        if isinstance(e, ast.BinOp) and isinstance(e.op, ast.Add):
            l_ = self._exc_tuple(e.left, cls, depth + 1)
            r_ = self._exc_tuple(e.right, cls, depth + 1)
            return None if l_ is None or r_ is None else l_ + r_
        if isinstance(e, ast.Name):
            if cls is not None:
                for c in cls.mro:
                    if e.id in c.attrs:
                        return self._exc_tuple(c.attrs[e.id], cls, depth + 1)
            ce = self._const_expr(e.id)
            if isinstance(ce, (ast.Tuple, ast.BinOp)):
                return self._exc_tuple(ce, cls, depth + 1)
            return [exc_name_of(e)]
        if isinstance(e, ast.Attribute) and isinstance(e.value, ast.Name):
            owner = None
            if e.value.id in ("self", "cls"):
                owner = self.fi.cls
            elif self.inliner is not None:
                try:
                    k_, o_ = self.inliner.P.resolve_dotted(self._resolve_fi().module, e.value.id, self._resolve_fi())
                except Exception:
                    k_, o_ = None, None
                if k_ == "class":
                    owner = o_
            if owner is not None:
                for c in owner.mro:
                    if e.attr in c.attrs:
                        v = c.attrs[e.attr]
                        if isinstance(v, (ast.Tuple, ast.BinOp, ast.Name)):
                            return self._exc_tuple(v, owner, depth + 1)
                        return None
            return [exc_name_of(e)]
        return None

    def _table_functions(self, v: ast.AST) -> Optional[list]:
        """`TABLE[key]` / `TABLE.get(key)` where TABLE is a module- or class-level dict display whose values all name
        functions unknown to the reference tree: those functions (a call through the result is one of them)."""
        base = None
        if isinstance(v, ast.Subscript):
            base = v.value
        elif isinstance(v, ast.Call) and isinstance(v.func, ast.Attribute) and v.func.attr == "get" and v.args:
            base = v.func.value
        if base is None or self.inliner is None:
            return None
        rfi = self._resolve_fi()
        d = self.inliner.P.dict_literal(rfi, base)
        if d is None and isinstance(base, ast.Attribute) and isinstance(base.value, ast.Name):
            # attribute of a local helper object: look the class attribute up
            m = self.inliner._local_instance_method(rfi, ast.Attribute(value=base.value, attr="__init__", ctx=ast.Load()))
            ci = m.cls if m is not None else None
            if ci is not None:
                for c in ci.mro:
                    if isinstance(c.attrs.get(base.attr), ast.Dict):
                        d = c.attrs[base.attr]
                        rfi = m
                        break
        if d is None or not d.values or len(d.values) > 12:
            return None
        out = []
        for val in d.values:
            dn = dotted(val)
            if dn is None:
                return None
            f = None
            if rfi.cls is not None and "." not in dn and dn in rfi.cls.methods:
                f = rfi.cls.methods[dn]            # unbound method named in the class body
            else:
                kind, obj = self.inliner.P.resolve_dotted(rfi.module, dn, rfi)
                if kind == "func":
                    f = obj
            if f is None or not self.inliner.is_new(f):
                return None
            out.append(f)
        return out

    def _try_unroll(self, s, ctxs) -> Optional[Frag]:
        """`for K, V in TABLE.items(): BODY` over a small module-level constant dict / tuple / list display:
        BODY once per entry with the loop variables replaced by the entry's expressions (dispatch tables)."""
        if s.orelse or not isinstance(s, ast.For):
            return None
        it = s.iter
        how = "seq"
        base = it
        if isinstance(it, ast.Call) and isinstance(it.func, ast.Attribute) and it.func.attr in ("items", "keys", "values") and not it.args and not it.keywords:
            how, base = it.func.attr, it.func.value
        if not isinstance(base, ast.Name):
            return None
        ce = self._const_expr(base.id)
        if isinstance(ce, ast.Dict):
            if how == "seq":
                how = "keys"
            if any(k is None for k in ce.keys) or len(ce.keys) > 16:
                return None
            entries = [{"items": (k, v), "keys": (k,), "values": (v,)}[how] for k, v in zip(ce.keys, ce.values)]
        elif isinstance(ce, (ast.Tuple, ast.List)) and how == "seq" and len(ce.elts) <= 16 and not any(isinstance(x, ast.Starred) for x in ce.elts):
            entries = []
            for x in ce.elts:
                entries.append(tuple(x.elts) if isinstance(x, ast.Tuple) and isinstance(s.target, ast.Tuple) else (x,))
        else:
            return None
        # only dispatch tables (entries that name functions / classes / lambdas): a table of plain constants is an
        # ordinary data loop
        if not any(isinstance(x, (ast.Name, ast.Attribute, ast.Lambda)) for en in entries for e_ in en for x in ast.walk(e_)):
            return None
        tg = s.target
        names = [tg.id] if isinstance(tg, ast.Name) else [e_.id for e_ in tg.elts] if isinstance(tg, ast.Tuple) and all(isinstance(e_, ast.Name) for e_ in tg.elts) else None
        if names is None or any(len(en) != len(names) for en in entries):
            return None
        # the loop variables must not be rebound in the body, and the body must not break / continue
        for x in ast.walk(ast.Module(body=list(s.body), type_ignores=[])):
            if isinstance(x, (ast.Break, ast.Continue)):
                return None
            if isinstance(x, ast.Name) and isinstance(x.ctx, (ast.Store, ast.Del)) and x.id in names:
                return None
        # the entries must be built from names of the same module only (they are re-evaluated where they are used)
        import copy as _copy

        class Sub(ast.NodeTransformer):
            def __init__(self, m):
                self.m = m

            def visit_Name(self, n):
                if isinstance(n.ctx, ast.Load) and n.id in self.m:
                    return ast.copy_location(_copy.deepcopy(self.m[n.id]), n)
                return n

        stmts = []
        for en in entries:
            sub = Sub(dict(zip(names, en)))
            for b in s.body:
                stmts.append(ast.fix_missing_locations(sub.visit(_copy.deepcopy(b))))
        fr = self._block(stmts, ctxs)
        if fr.entry is None:
            n = self._new("stmt", None, ctxs, label="unrolled-empty")
            return Frag(n, [(n, "n")])
        return fr

    # -- inlining of helpers unknown to the rules (see inline.py)
    def _resolve_fi(self) -> FuncInfo:
        """The function in whose scope a call met right now is resolved: the function under construction, or - inside
        an inlined body - the helper it came from (its module's imports and globals), with `self` still an
        instance of the class of the function under construction."""
        if not self._inline_stack:
            return self.fi
        q = self._inline_stack[-1]
        prog = self.inliner.P if self.inliner is not None else None
        f = prog.functions.get(q) if prog is not None else None
        if f is None or f.module is self.fi.module:
            return self.fi
        cache = self.__dict__.setdefault("_rfi_cache", {})
        r = cache.get(q)
        if r is None:
            import copy as _copy
            r = _copy.copy(f)
            if self.fi.cls is not None:
                # in a spliced body `self` always denotes the object of the function under construction: the helper's own
                # `self` was renamed to its receiver (a local object, `self.<field>`, or that same `self`)
                r.cls = self.fi.cls
            r.qualname = self.fi.qualname         # recursion / identity checks are about the function under construction
            cache[q] = r
        return r

    @staticmethod
    def _inline_index(ctxs) -> Optional[int]:
        skip = 0
        for i in range(len(ctxs) - 1, -1, -1):
            c = ctxs[i]
            if isinstance(c, SpliceCtx):
                skip += 1
            elif isinstance(c, InlineCtx):
                if skip:
                    skip -= 1
                else:
                    return i
        return None

    def _names_used(self) -> Set[str]:
        if self._used is None:
            from .inline import _all_names
            self._used = _all_names(self.fi.node)
            f = self.fi.parent
            while f is not None:
                self._used |= _all_names(f.node)
                f = f.parent
        return self._used

    def _hoist(self, e: ast.AST, ctxs):
        """Inline the helpers called unconditionally inside statement/expression *e*.

        Returns (Frag of the inlined blocks or None, rewritten e)."""
        if self.inliner is None:
            return None, e
        from .inline import unconditional_calls, replace_node, InlineBlock
        frags: List[Frag] = []
        done: Set[int] = set()
        while True:
            sites = [c for c in unconditional_calls(e) if id(c) not in done]
            chosen = None
            # a call through a local that holds an entry of a dispatch table: one of the entries runs
            for site in sites:
                call_ = site.value if isinstance(site, (ast.Await, ast.YieldFrom)) else site
                if isinstance(call_, ast.Call) and isinstance(call_.func, ast.Name) and call_.func.id in self._table_alias \
                        and not isinstance(site, ast.YieldFrom) and len(self._inline_stack) < 4:
                    fr_, ret_ = self._dispatch_inline(site, call_, self._table_alias[call_.func.id], ctxs)
                    if fr_ is not None:
                        frags.append(fr_)
                        e = replace_node(e, site, ast.copy_location(ast.Name(id=ret_, ctx=ast.Load()), site))
                        chosen = "dispatched"
                        break
                    done.add(id(site))
            if chosen == "dispatched":
                continue
            for site in sites:
                usage = "yieldfrom" if isinstance(site, ast.YieldFrom) else "value"
                t = self.inliner.target(self._resolve_fi(), site, self._inline_stack, usage)
                if t is not None:
                    chosen = (site, t)
                    break
                done.add(id(site))
            if chosen is None:
                break
            site, t = chosen
            pre, body, ret = self.inliner.instantiate(self.fi, t, site, self._names_used(), want_ret=True)
            self.inlined_bodies.append(list(pre) + list(body))
            # an inlined constructor: the value of the call is the synthetic object, __init__ returns nothing
            blk = InlineBlock(body, None if ret in self.inliner.obj_class else ret, t.qualname, "call", getattr(site, "lineno", 0))
            frags.append(self._seq([self._stmt_plain(p_, ctxs) for p_ in pre] + [self._inline_block(blk, ctxs)]))
            new = ast.copy_location(ast.Name(id=ret, ctx=ast.Load()), site)
            e = replace_node(e, site, new)
        if not frags:
            return None, e
        return self._seq(frags), e

    def _cond_inline(self, e: ast.AST, ctxs):
        """A test that is exactly a call of an inlinable helper: branch inside the helper's body."""
        if self.inliner is None:
            return None
        site = e
        call = e.value if isinstance(e, ast.Await) else e
        if not isinstance(call, ast.Call):
            return None
        t = self.inliner.target(self._resolve_fi(), site, self._inline_stack, "value")
        if t is None:
            return None
        pre_frag, site2 = self._hoist_args(site, ctxs)
        pre, body, _ret = self.inliner.instantiate(self.fi, t, site2, self._names_used(), want_ret=False)
        self.inlined_bodies.append(list(pre) + list(body))
        ictx = InlineCtx(None, t.qualname, cond=True)
        inner = tuple(ctxs) + (ictx,)
        frs = ([pre_frag] if pre_frag is not None else []) + [self._stmt_plain(p_, ctxs) for p_ in pre]
        start = self._new("stmt", None, ctxs, label="inline-begin")
        start.extra["inline_begin"] = t.qualname
        start.lineno = getattr(e, "lineno", 0)
        self._inline_stack.append(t.qualname)
        if t.qualname not in self.inlined:
            self.inlined.append(t.qualname)
        saved_loops, self._loops = self._loops, []
        try:
            b = self._block(body, inner)
        finally:
            self._loops = saved_loops
            self._inline_stack.pop()
        t_end = self._new("stmt", None, ctxs, label="inline-end")
        f_end = self._new("stmt", None, ctxs, label="inline-end")
        for x in (t_end, f_end):
            x.extra["inline_end"] = t.qualname
            x.lineno = start.lineno
        if b.entry is None:
            self._edge(start, f_end, "n")
        else:
            self._edge(start, b.entry, "n")
            self._connect(b.outs, f_end)        # falling off the end returns None
        self._connect(ictx.t_rets, t_end)
        self._connect(ictx.f_rets, f_end)
        head = self._seq(frs + [Frag(start, [])])
        return head.entry, [(t_end, "n")], [(f_end, "n")]

    def _return_as_yield_from(self, s: ast.Return):
        """A function that used to be a generator and now hands out the generator of a helper unknown to the reference
        tree (`return _Scan(self, flt).naive()` / `return self._scan(flt)`): its callers iterate over the same items,
        so to the rules it is `yield from <that call>`."""
        call = s.value
        if self._inline_stack or not isinstance(call, ast.Call) or self.inliner is None or self.inliner.reference is None:
            return None
        if any(isinstance(x, (ast.Yield, ast.YieldFrom)) for x in _walk_own(self.fi.node)):
            return None
        P = self.inliner.P
        m = None
        f = call.func
        try:
            if isinstance(f, ast.Attribute) and isinstance(f.value, ast.Call) and dotted(f.value.func):
                k_, o_ = P.resolve_dotted(self.fi.module, dotted(f.value.func), self.fi)
                if k_ == "class" and o_.qualname not in self.inliner.reference:
                    m = P.lookup_method(o_, f.attr)
            else:
                yf = ast.copy_location(ast.YieldFrom(value=call), call)
                m = self.inliner.target(self._resolve_fi(), yf, self._inline_stack, "yieldfrom")
        except Exception:
            return None
        if m is None or isinstance(getattr(m, "node", None), ast.Lambda) or not self.inliner.is_new(m):
            return None
        if not any(isinstance(x, (ast.Yield, ast.YieldFrom)) for x in _walk_own(m.node)):
            return None
        yf = ast.copy_location(ast.Expr(value=ast.copy_location(ast.YieldFrom(value=call), call)), s)
        ret = ast.copy_location(ast.Return(value=None), s)
        return [yf, ret]

    def _tail_inline(self, s: ast.Return, ctxs) -> Optional[Frag]:
        """``return helper(...)``: the helper's own returns become returns of the caller."""
        site = s.value
        call = site.value if isinstance(site, ast.Await) else site
        if not isinstance(call, ast.Call):
            return None
        t = self.inliner.target(self._resolve_fi(), site, self._inline_stack, "value")
        if t is None:
            return None
        pre_frag, site2 = self._hoist_args(site, ctxs)
        pre, body, _ret = self.inliner.instantiate(self.fi, t, site2, self._names_used(), want_ret=False)
        self.inlined_bodies.append(list(pre) + list(body))
        frs = ([pre_frag] if pre_frag is not None else []) + [self._stmt_plain(p_, ctxs) for p_ in pre]
        start = self._new("stmt", None, ctxs, label="inline-begin")
        start.extra["inline_begin"] = t.qualname
        start.lineno = s.lineno
        self._inline_stack.append(t.qualname)
        if t.qualname not in self.inlined:
            self.inlined.append(t.qualname)
        saved_loops, self._loops = self._loops, []
        try:
            b = self._block(body, ctxs)
            if b.entry is None or b.outs:
                # the helper can fall off its end: that is `return None` of the caller
                b = self._seq([b, self._stmt_plain(ast.Return(value=None, lineno=s.lineno, col_offset=0), ctxs)])
        finally:
            self._loops = saved_loops
            self._inline_stack.pop()
        return self._seq(frs + [Frag(start, [(start, "n")]), b])

    def _hoist_args(self, site, ctxs):
        """Inline helpers called in the arguments of *site* (itself left alone)."""
        call = site.value if isinstance(site, (ast.Await, ast.YieldFrom)) else site
        frags = []
        new_call = call
        for a in list(call.args) + [k.value for k in call.keywords]:
            fr, a2 = self._hoist(a, ctxs)
            if fr is not None:
                frags.append(fr)
                from .inline import replace_node
                new_call = replace_node(new_call, a, a2)
        if not frags:
            return None, site
        if new_call is not call and site is not call:
            s2 = copy.copy(site)
            s2.value = new_call
            return self._seq(frags), s2
        return self._seq(frags), new_call

    def _dispatch_inline(self, site, call, cands, ctxs):
        """Alternatives for `f(args)` where f is one of *cands*: a choice node with one inlined body per candidate."""
        from .inline import InlineBlock
        import copy as _copy
        self.inliner.count += 1
        ret = "__ret_dispatch_%d" % self.inliner.count
        self._names_used().add(ret)
        choice = self._new("stmt", None, ctxs, label="dispatch")
        choice.lineno = getattr(site, "lineno", 0)
        join = self._new("stmt", None, ctxs, label="dispatch-end")
        join.lineno = choice.lineno
        built = 0
        for t in cands:
            if t.qualname in self._inline_stack:
                continue
            a = t.node.args
            if a.vararg or a.kwarg or t.is_async != isinstance(site, ast.Await):
                return None, None
            # the entries are plain functions (or unbound methods called with the object as first argument)
            c2 = _copy.copy(call)
            pseudo = _copy.copy(t)
            pseudo.cls = None                    # bind `self` like any other parameter
            pseudo.decorators = []
            pre, body, r_i = self.inliner.instantiate(self.fi, pseudo, c2, self._names_used(), want_ret=True)
            self.inlined_bodies.append(list(pre) + list(body))
            blk = InlineBlock(body, r_i, t.qualname, "call", choice.lineno)
            fr = self._seq([self._stmt_plain(p_, ctxs) for p_ in pre] + [self._inline_block(blk, ctxs)])
            asg = self._stmt_plain(ast.Assign(targets=[ast.Name(id=ret, ctx=ast.Store())], value=ast.Name(id=r_i, ctx=ast.Load()),
                                              lineno=choice.lineno, col_offset=0), ctxs)
            fr = self._seq([fr, asg])
            self._edge(choice, fr.entry, "n")
            self._connect(fr.outs, join)
            built += 1
        if not built:
            return None, None
        return Frag(choice, [(join, "n")]), ret

    def _inline_block(self, blk, ctxs) -> Frag:
        ictx = InlineCtx(blk.ret, blk.callee)
        inner = tuple(ctxs) + (ictx,)
        self._inline_stack.append(blk.callee)
        if blk.callee not in self.inlined:
            self.inlined.append(blk.callee)
        saved_loops, self._loops = self._loops, []
        start = self._new("stmt", None, ctxs, label="inline-begin")
        start.extra["inline_begin"] = blk.callee
        start.lineno = blk.lineno
        try:
            body = self._block(blk.body, inner)
        finally:
            self._loops = saved_loops
            self._inline_stack.pop()
        end = self._new("stmt", None, ctxs, label="inline-end")
        end.extra["inline_end"] = blk.callee
        end.lineno = blk.lineno
        if body.entry is None:
            self._edge(start, end, "n")
        else:
            self._edge(start, body.entry, "n")
            self._connect(body.outs, end)
        self._connect(ictx.rets, end)
        self._connect(ictx.breaks, end)
        return Frag(start, [(end, "n")])

    def _spliced_body(self, sb, ctxs) -> Frag:
        idx = self._inline_index(ctxs)
        if idx is None:
            raise AnalysisError("spliced body outside an inlined block in %s" % self.fi.qualname)
        ictx = ctxs[idx]
        inner = tuple(ctxs) + (SpliceCtx(ictx),)
        stack, self._inline_stack = self._inline_stack, self._inline_stack[:-1]
        join = self._new("stmt", None, ctxs, label="splice-end")
        try:
            if sb.kind == "for":
                loop = LoopCtx(join, len(ctxs))
                self._loops.append(loop)
                body = self._block(sb.body, inner)
                self._loops.pop()
                # break leaves the whole inlined generator
                for (bn, bl) in loop.breaks:
                    ictx.breaks.extend(self._unwind_from(bn, bl, ctxs, idx + 1))
            else:
                body = self._block(sb.body, inner)
        finally:
            self._inline_stack = stack
        if body.entry is None:
            return Frag(join, [(join, "n")])
        self._connect(body.outs, join)
        return Frag(body.entry, [(join, "n")])

    def _unwind_from(self, n: Node, label: str, ctxs, down_to: int):
        return self._unwind(n, ctxs, down_to, label)

    @staticmethod
    def _has_loop_exit(stmts) -> bool:
        """A `break` that belongs to the loop these statements are the body of."""
        def scan(ss):
            for x in ss:
                if isinstance(x, ast.Break):
                    return True
                if isinstance(x, (ast.For, ast.AsyncFor, ast.While, ast.FunctionDef, ast.AsyncFunctionDef, ast.ClassDef)):
                    continue
                for field in ("body", "orelse", "finalbody"):
                    sub = getattr(x, field, None)
                    if isinstance(sub, list) and sub and isinstance(sub[0], ast.stmt) and scan(sub):
                        return True
                for h in getattr(x, "handlers", []) or []:
                    if scan(h.body):
                        return True
            return False
        return scan(stmts)

    def _try_splice(self, s, ctxs) -> Optional[Frag]:
        from .inline import InlineBlock, has_jump, yield_is_tail
        if isinstance(s, (ast.With, ast.AsyncWith)):
            if len(s.items) != 1:
                return None
            item = s.items[0]
            site = item.context_expr
            t = self.inliner.target(self._resolve_fi(), site, self._inline_stack, "with")
            if t is None:
                return None
            if has_jump(s.body) and not yield_is_tail(t.node):
                # a return/break in the block would skip what the context manager does after its yield
                self.inliner.declined[t.qualname] = "block leaves through return/break and the context manager has code after its yield"
                self.inliner.declined_sites[t.qualname] = self.inliner.declined_sites.get(t.qualname, 0) + 1
                return None
            pre, body, _ret = self.inliner.instantiate(self.fi, t, site, self._names_used(), want_ret=False)
            body = self.inliner.splice_yields(body, item.optional_vars, list(s.body), "with")
            self.inlined_bodies.append(list(pre) + list(body))
            blk = InlineBlock(body, None, t.qualname, "with", s.lineno)
            return self._seq([self._stmt_plain(p_, ctxs) for p_ in pre] + [self._inline_block(blk, ctxs)])
        if isinstance(s, (ast.For, ast.AsyncFor)):
            if s.orelse:
                return None
            site = s.iter
            t = self.inliner.target(self._resolve_fi(), site, self._inline_stack, "for")
            if t is None:
                return None
            if any(isinstance(x, ast.YieldFrom) for x in _walk_own(t.node)) and self._has_loop_exit(s.body):
                # a `break` in the caller's body would have to leave the loop the `yield from` turns into and the rest of
                # the generator as well: not expressed here
                self.inliner.declined[t.qualname] = "generator with `yield from` iterated by a loop that breaks"
                self.inliner.declined_sites[t.qualname] = self.inliner.declined_sites.get(t.qualname, 0) + 1
                return None
            pre, body, _ret = self.inliner.instantiate(self.fi, t, site, self._names_used(), want_ret=False)
            body = self.inliner.splice_yields(body, s.target, list(s.body), "for")
            self.inlined_bodies.append(list(pre) + list(body))
            blk = InlineBlock(body, None, t.qualname, "for", s.lineno)
            return self._seq([self._stmt_plain(p_, ctxs) for p_ in pre] + [self._inline_block(blk, ctxs)])
        return None

    # -- queries
    def reachable(self, starts: Iterable[Node], *, block_nodes: Iterable[Node] = (),
                  block_edges: Iterable[Tuple[Node, Node, str]] = (), follow_exc: bool = True) -> Set[int]:
        blockn = {n.id for n in block_nodes}
        blocke = {(a.id, b.id, l) for a, b, l in block_edges}
        seen: Set[int] = set()
        todo = [n for n in starts]
        while todo:
            n = todo.pop()
            if n.id in seen or n.id in blockn:
                continue
            seen.add(n.id)
            for m, l in n.succ:
                if not follow_exc and l == "exc":
                    continue
                if (n.id, m.id, l) in blocke:
                    continue
                todo.append(m)
        return seen

    def after_normal(self, n: Node, follow_exc: bool = True) -> Set[int]:
        """Nodes reachable after *n* completed normally."""
        return self.reachable([m for m, l in n.succ if l != "exc"], follow_exc=follow_exc)

    def normal_completion_dominates(self, a_nodes: Iterable[Node], b: Node) -> bool:
        """True iff every path entry -> b passes the normal completion of one of a_nodes."""
        a_nodes = list(a_nodes)
        if any(a is b for a in a_nodes):
            return False
        blocked = []
        for a in a_nodes:
            for m, l in a.succ:
                if l != "exc":
                    blocked.append((a, m, l))
        r = self.reachable([self.entry], block_edges=blocked)
        return b.id not in r

    def node_dominates(self, a_nodes: Iterable[Node], b: Node) -> bool:
        r = self.reachable([self.entry], block_nodes=list(a_nodes))
        return b.id not in r

    def test_edges(self, t: Node, lab: str) -> List[Tuple[Node, Node, str]]:
        """The *lab* edges of test node *t* and of its copies (the same test built once per return site of an
        inlined helper, see _assign_then_if): they are one test of the program."""
        out = []
        for c in self.nodes:
            if c.kind == "test" and c.ast is t.ast:
                out.extend((c, m, l) for m, l in c.succ if l == lab)
        return out

    def required_conditions(self, b: Node) -> List[Tuple[ast.AST, bool]]:
        """Atoms whose truth value is implied by reaching *b* (from entry)."""
        out = []
        seen_ast = set()
        for t in self.nodes:
            if t.kind != "test" or t is b or id(t.ast) in seen_ast:
                continue
            seen_ast.add(id(t.ast))
            for pol, lab in ((True, "t"), (False, "f")):
                edges = self.test_edges(t, lab)
                if not edges:
                    continue
                r = self.reachable([self.entry], block_edges=edges)
                if b.id not in r:
                    out.append((t.ast, pol))
        return out

    def stmt_nodes(self) -> List[Node]:
        return [n for n in self.nodes if n.kind not in ("entry", "exit", "raise_exit")]

    def find(self, pred) -> List[Node]:
        return [n for n in self.nodes if pred(n)]

    def dump(self) -> str:
        lines = []
        for n in self.nodes:
            lines.append("%3d %-10s L%-4d %-60s -> %s" % (
                n.id, n.kind, n.lineno, n.text()[:60],
                ", ".join("%d:%s" % (m.id, l) for m, l in n.succ)))
        return "\n".join(lines)


class CFGCache:
    def __init__(self, program):
        self.program = program
        self.hier = ExcHierarchy(program)
        self._cache: Dict[str, CFG] = {}
        from .inline import Inliner, load_reference
        self.inliner = Inliner(program, load_reference())

    def get(self, fi: FuncInfo) -> CFG:
        c = self._cache.get(fi.qualname)
        if c is None:
            c = CFG(fi, self.hier, self.inliner)
            self._cache[fi.qualname] = c
        return c
