"""Abstract interpretation of comparison-only functions on all weak orderings.

The functions ``apply_time_range_*`` touch their arguments only through
presence tests, a DATE/DATE-TIME test and order comparisons.  For such a
function, agreement with a reference formula on every weak ordering of the
terms involved is agreement on all inputs.  The function's *AST* is
interpreted here over symbolic terms; nothing from the repository is imported
or executed.  Any construct outside the modelled fragment raises
AnalysisError (exit 2), never a verdict.
"""

from __future__ import annotations

import ast
import itertools
from typing import Dict, Iterable, Iterator, List, Optional, Sequence, Tuple

from .program import AnalysisError, dotted, src


class Term:
    __slots__ = ("name",)

    def __init__(self, name: str):
        self.name = name

    def __repr__(self):
        return "T(%s)" % self.name


class Prop:
    """A property object of the component (has .dt)."""
    __slots__ = ("name",)

    def __init__(self, name: str):
        self.name = name


class Delta:
    """timedelta-valued: either a literal (days) or the DURATION property's value."""
    __slots__ = ("name", "days")

    def __init__(self, name: str, days: Optional[int] = None):
        self.name = name
        self.days = days


class Period:
    __slots__ = ()


class DtValue:
    """The .dt of a property before tzify (has an optional .time attribute)."""
    __slots__ = ("name",)

    def __init__(self, name):
        self.name = name


class Returned(Exception):
    def __init__(self, value):
        self.value = value


class Raised(Exception):
    def __init__(self, exc):
        self.exc = exc


class Scenario:
    def __init__(self, present: Iterable[str], isdt: bool, durpos: bool, rank: Dict[str, int], has_period: bool = False):
        self.present = set(present)
        self.isdt = isdt
        self.durpos = durpos
        self.rank = rank
        self.has_period = has_period

    def describe(self) -> str:
        order = sorted(self.rank.items(), key=lambda kv: kv[1])
        groups: List[List[str]] = []
        last = None
        for k, v in order:
            if v != last:
                groups.append([])
                last = v
            groups[-1].append(k)
        return "present=%s DTSTART-is-%s DURATION%s order: %s" % (
            sorted(self.present), "DATE-TIME" if self.isdt else "DATE", ">0" if self.durpos else "=0",
            " < ".join("=".join(g) for g in groups))


class _Marker:
    def __init__(self, name):
        self.name = name

    def __repr__(self):
        return "<%s>" % self.name


_MISSING_ = object()
TZIFY = _Marker("tzify")
COMP = _Marker("component")


class Obj:
    """An instance of a helper class of the module under analysis (fields hold interpreter values)."""
    def __init__(self, cls: ast.ClassDef):
        self.cls = cls
        self.fields: Dict[str, object] = {}

    def __repr__(self):
        return "<%s object>" % self.cls.name


class Interp:
    def __init__(self, fn: ast.FunctionDef, sc: Scenario, where: str, resolver=None):
        self.fn = fn
        self.sc = sc
        self.where = where
        self.resolver = resolver      # dotted callee name -> FunctionDef of a helper in the same module (or None)
        self.depth = 0
        a = fn.args.args
        if len(a) != 4:
            raise AnalysisError("%s: expected (start, end, comp, tzify), got %d parameters" % (where, len(a)))
        self.p_start, self.p_end, self.p_comp, self.p_tzify = [x.arg for x in a]
        self.env: Dict[str, object] = {self.p_start: Term("start"), self.p_end: Term("end"), self.p_comp: COMP, self.p_tzify: TZIFY}

    def fail(self, node, why):
        raise AnalysisError("%s: unmodelled construct `%s` (%s)" % (self.where, src(node)[:60], why))

    def run(self) -> bool:
        try:
            self.block(self.fn.body)
        except Returned as r:
            v = self.as_bool(r.value, self.fn) if r.value is not None else None
            if not isinstance(v, bool):
                self.fail(self.fn, "non-boolean result %r" % (r.value,))
            return v
        except Raised as r:
            if r.exc == "MissingProperty":
                return False
            raise AnalysisError("%s: raises %s" % (self.where, r.exc))
        self.fail(self.fn, "falls off the end")

    def block(self, stmts):
        for s in stmts:
            self.stmt(s)

    def stmt(self, s):
        if isinstance(s, ast.Expr):
            if isinstance(s.value, ast.Constant):
                return
            if isinstance(s.value, ast.Call) and (dotted(s.value.func) or "").startswith(("logging.", "logger.")):
                return
            self.fail(s, "expression statement")
        if isinstance(s, (ast.Assign, ast.AnnAssign)):
            if isinstance(s, ast.AnnAssign):
                if s.value is None:
                    return
                tg = s.target
            else:
                if len(s.targets) != 1:
                    self.fail(s, "assignment target")
                tg = s.targets[0]
            self.assign(tg, self.ev(s.value), s)
            return
        if isinstance(s, ast.If):
            if self.truth(self.ev(s.test), s.test):
                self.block(s.body)
            else:
                self.block(s.orelse)
            return
        if isinstance(s, ast.Return):
            raise Returned(self.ev(s.value) if s.value is not None else None)
        if isinstance(s, ast.Raise):
            raise Raised((dotted(s.exc.func) if isinstance(s.exc, ast.Call) else dotted(s.exc)) or "?")
        if isinstance(s, ast.For):
            it = self.ev(s.iter)
            if not isinstance(it, list):
                self.fail(s, "loop over non-list")
            if not isinstance(s.target, ast.Name):
                self.fail(s, "loop target")
            for el in it:
                self.env[s.target.id] = el
                self.block(s.body)
            self.block(s.orelse)
            return
        if isinstance(s, ast.Pass):
            return
        self.fail(s, type(s).__name__)

    def assign(self, tg, v, s):
        if isinstance(tg, ast.Name):
            self.env[tg.id] = v
            return
        if isinstance(tg, ast.Attribute) and isinstance(tg.value, ast.Name) and isinstance(self.env.get(tg.value.id), Obj):
            self.env[tg.value.id].fields[tg.attr] = v
            return
        if isinstance(tg, (ast.Tuple, ast.List)) and isinstance(v, tuple) and len(v) == len(tg.elts):
            for t_, v_ in zip(tg.elts, v):
                self.assign(t_, v_, s)
            return
        self.fail(s, "assignment target")

    # -- helper classes of the module (a parameter object bundling start/end/tzify, a per-component tester ...) --
    def _methods(self, cls: ast.ClassDef, seen=None) -> Dict[str, ast.FunctionDef]:
        out: Dict[str, ast.FunctionDef] = {}
        seen = seen or set()
        if id(cls) in seen:
            return out
        seen.add(id(cls))
        for b in reversed(cls.bases):
            bn = dotted(b)
            bc = self.resolver(bn) if (bn and self.resolver is not None) else None
            if isinstance(bc, ast.ClassDef):
                out.update(self._methods(bc, seen))
        for st in cls.body:
            if isinstance(st, ast.FunctionDef):
                out[st.name] = st
        return out

    def _declared_fields(self, cls: ast.ClassDef) -> List[str]:
        return [st.target.id for st in cls.body if isinstance(st, ast.AnnAssign) and isinstance(st.target, ast.Name)]

    def call_function(self, fn: ast.FunctionDef, vals: list, kw: Dict[str, object], node, bound=None):
        a = fn.args
        params = list(a.posonlyargs) + list(a.args)
        if a.vararg or a.kwarg or a.kwonlyargs:
            self.fail(node, "helper call shape")
        if bound is not None:
            vals = [bound] + list(vals)
        if len(vals) > len(params):
            self.fail(node, "helper call shape")
        env: Dict[str, object] = {}
        for p_, v_ in zip(params, vals):
            env[p_.arg] = v_
        for k, v_ in kw.items():
            if k in env or k not in [p_.arg for p_ in params]:
                self.fail(node, "helper call shape")
            env[k] = v_
        saved = self.env
        for p_, dflt in zip(params[len(params) - len(a.defaults):], a.defaults):
            if p_.arg not in env:
                self.env = {}
                env[p_.arg] = self.ev(dflt)
                self.env = saved
        if any(p_.arg not in env for p_ in params):
            self.fail(node, "helper call shape")
        if self.depth >= 6:
            self.fail(node, "helper nesting")
        self.env = env
        self.depth += 1
        try:
            self.block(fn.body)
            return None
        except Returned as r:
            return r.value
        finally:
            self.depth -= 1
            self.env = saved

    def construct(self, cls: ast.ClassDef, vals: list, kw: Dict[str, object], node):
        o = Obj(cls)
        init = self._methods(cls).get("__init__")
        if init is not None:
            self.call_function(init, vals, kw, node, bound=o)
            return o
        names = self._declared_fields(cls)     # NamedTuple / dataclass: positional fields in declaration order
        if len(vals) > len(names) or any(k not in names for k in kw):
            self.fail(node, "constructor call shape")
        for n_, v_ in zip(names, vals):
            o.fields[n_] = v_
        o.fields.update(kw)
        if set(o.fields) != set(names):
            self.fail(node, "constructor call shape")
        return o

    def tzify(self, e):
        if len(e.args) != 1 or e.keywords:
            self.fail(e, "tzify call shape")
        v = self.ev(e.args[0])
        if isinstance(v, DtValue):
            return Term(v.name)
        if isinstance(v, Term):
            return v
        self.fail(e, "tzify of %r" % (v,))

    def _try_obj(self, x):
        """The helper object *x* denotes, or None (never fails: the caller falls back to the other call forms)."""
        if isinstance(x, ast.Name):
            v = self.env.get(x.id)
            return v if isinstance(v, Obj) else None
        if isinstance(x, ast.Attribute):
            b = self._try_obj(x.value)
            v = b.fields.get(x.attr) if b is not None else None
            return v if isinstance(v, Obj) else None
        if isinstance(x, ast.Call) and self.resolver is not None and isinstance(self.resolver(dotted(x.func) or ""), ast.ClassDef):
            return self.ev(x)
        return None

    def as_bool(self, v, node):
        if isinstance(v, bool):
            return v
        return self.truth(v, node)

    def truth(self, v, node) -> bool:
        if isinstance(v, bool):
            return v
        if v is None:
            return False
        if isinstance(v, (Prop, Term, Period, DtValue)):
            return True
        if isinstance(v, list):
            return bool(v)
        if isinstance(v, str) and v == "TIME-ATTR":
            return True
        self.fail(node, "truth value of %r" % (v,))

    def cmp(self, l, op, r, node) -> bool:
        # presence / None tests
        if isinstance(op, (ast.Is, ast.IsNot)):
            if r is None or l is None:
                res = (l is None and r is None)
                return res if isinstance(op, ast.Is) else not res
            self.fail(node, "is-comparison of non-None")
        # duration sign test
        if isinstance(l, Delta) and isinstance(r, Delta):
            if l.name == "DURATION" and r.days == 0:
                pos = self.sc.durpos
                return {ast.Gt: pos, ast.GtE: True, ast.Lt: False, ast.LtE: not pos, ast.Eq: not pos, ast.NotEq: pos}[type(op)]
            if r.name == "DURATION" and l.days == 0:
                pos = self.sc.durpos
                return {ast.Lt: pos, ast.LtE: True, ast.Gt: False, ast.GtE: not pos, ast.Eq: not pos, ast.NotEq: pos}[type(op)]
            self.fail(node, "timedelta comparison")
        if isinstance(l, Term) and isinstance(r, Term):
            a, b = self.sc.rank.get(l.name), self.sc.rank.get(r.name)
            if a is None or b is None:
                raise AnalysisError("%s: comparison `%s` involves term %s that the reference row does not mention"
                                    % (self.where, src(node), l.name if a is None else r.name))
            return {ast.Lt: a < b, ast.LtE: a <= b, ast.Gt: a > b, ast.GtE: a >= b, ast.Eq: a == b, ast.NotEq: a != b}[type(op)]
        self.fail(node, "comparison of %r and %r" % (l, r))

    def ev(self, e):
        if isinstance(e, ast.Constant):
            return e.value
        if isinstance(e, ast.Name):
            if e.id in self.env:
                return self.env[e.id]
            self.fail(e, "unknown name")
        if isinstance(e, ast.IfExp):
            return self.ev(e.body) if self.truth(self.ev(e.test), e.test) else self.ev(e.orelse)
        if isinstance(e, ast.NamedExpr):
            if not isinstance(e.target, ast.Name):
                self.fail(e, "walrus target")
            v = self.ev(e.value)
            self.env[e.target.id] = v
            return v
        if isinstance(e, ast.Call) and isinstance(e.func, ast.Name) and e.func.id in ("any", "all") and e.func.id not in self.env \
                and len(e.args) == 1 and not e.keywords and isinstance(e.args[0], (ast.GeneratorExp, ast.ListComp)) \
                and len(e.args[0].generators) == 1 and isinstance(e.args[0].generators[0].target, ast.Name) and not e.args[0].generators[0].is_async:
            g = e.args[0].generators[0]
            it = self.ev(g.iter)
            if not isinstance(it, list):
                self.fail(e, "any/all over non-list")
            want_any = e.func.id == "any"
            saved = self.env.get(g.target.id, _MISSING_)
            try:
                for el in it:
                    self.env[g.target.id] = el
                    if not all(self.truth(self.ev(c_), c_) for c_ in g.ifs):
                        continue
                    t_ = self.truth(self.ev(e.args[0].elt), e.args[0].elt)
                    if want_any and t_:
                        return True
                    if not want_any and not t_:
                        return False
                return not want_any
            finally:
                if saved is _MISSING_:
                    self.env.pop(g.target.id, None)
                else:
                    self.env[g.target.id] = saved
        if isinstance(e, ast.UnaryOp) and isinstance(e.op, ast.Not):
            return not self.truth(self.ev(e.operand), e)
        if isinstance(e, ast.BoolOp):
            if isinstance(e.op, ast.And):
                v = True
                for x in e.values:
                    v = self.ev(x)
                    if not self.truth(v, x):
                        return v if isinstance(v, bool) else False
                return v if isinstance(v, bool) else self.truth(v, e)
            v = False
            for x in e.values:
                v = self.ev(x)
                if self.truth(v, x):
                    return v if isinstance(v, bool) else True
            return v if isinstance(v, bool) else False
        if isinstance(e, ast.Compare):
            l = self.ev(e.left)
            res = True
            for op, rr in zip(e.ops, e.comparators):
                r = self.ev(rr)
                res = res and self.cmp(l, op, r, e)
                l = r
            return res
        if isinstance(e, ast.Attribute):
            base = self.ev(e.value)
            if isinstance(base, Obj):
                if e.attr in base.fields:
                    return base.fields[e.attr]
                self.fail(e, "unset field of %r" % (base,))
            if isinstance(base, Prop) and e.attr == "dt":
                if base.name == "DURATION":
                    return Delta("DURATION")
                return DtValue(base.name)
            if isinstance(base, Period) and e.attr in ("start", "end"):
                return Term("period." + e.attr)
            self.fail(e, "attribute of %r" % (base,))
        if isinstance(e, ast.BinOp) and isinstance(e.op, ast.Add):
            l, r = self.ev(e.left), self.ev(e.right)
            if isinstance(r, Term) and isinstance(l, Delta):
                l, r = r, l
            if isinstance(l, Term) and isinstance(r, Delta):
                if r.name == "DURATION":
                    return Term(l.name + "+DURATION")
                if r.days == 1:
                    return Term(l.name + "+P1D")
                if r.days == 0:
                    return l
            self.fail(e, "addition of %r and %r" % (l, r))
        if isinstance(e, ast.Call):
            d = dotted(e.func) or ""
            if isinstance(e.func, ast.Attribute) and e.func.attr == "get" and isinstance(e.func.value, ast.Name) \
                    and self.env.get(e.func.value.id) is COMP and e.args and isinstance(e.args[0], ast.Constant):
                name = e.args[0].value
                if name == "FREEBUSY":
                    if name in self.sc.present and self.sc.has_period:
                        return [Period()]
                    return self.ev(e.args[1]) if len(e.args) > 1 else None
                if name in self.sc.present:
                    return Prop(name)
                return self.ev(e.args[1]) if len(e.args) > 1 else None
            if isinstance(e.func, ast.Name) and self.env.get(e.func.id) is TZIFY and len(e.args) == 1:
                return self.tzify(e)
            if isinstance(e.func, ast.Attribute):
                o = self._try_obj(e.func.value)
                if o is not None:
                    if e.func.attr in o.fields:
                        if o.fields[e.func.attr] is TZIFY:
                            return self.tzify(e)
                        self.fail(e, "call of field %s" % e.func.attr)
                    m = self._methods(o.cls).get(e.func.attr)
                    if m is None:
                        self.fail(e, "unknown method")
                    decs = {(dotted(d_) or "") for d_ in m.decorator_list}
                    if decs - {"staticmethod"}:
                        self.fail(e, "decorated method")
                    return self.call_function(m, [self.ev(x) for x in e.args], {k.arg: self.ev(k.value) for k in e.keywords if k.arg},
                                              e, bound=None if "staticmethod" in decs else o)
            if d.split(".")[-1] == "timedelta":
                if len(e.args) == 1 and isinstance(e.args[0], ast.Constant) and not e.keywords:
                    return Delta("lit", int(e.args[0].value))
                if not e.args and not e.keywords:
                    return Delta("lit", 0)
                if not e.args and len(e.keywords) == 1 and e.keywords[0].arg == "days" and isinstance(e.keywords[0].value, ast.Constant):
                    return Delta("lit", int(e.keywords[0].value.value))
                self.fail(e, "timedelta literal")
            if d == "getattr" and len(e.args) == 3:
                base = self.ev(e.args[0])
                if isinstance(base, DtValue) and isinstance(e.args[1], ast.Constant) and e.args[1].value == "time":
                    if base.name == "DTSTART":
                        return "TIME-ATTR" if self.sc.isdt else self.ev(e.args[2])
                if isinstance(base, Term) and isinstance(e.args[1], ast.Constant) and e.args[1].value == "time":
                    # a value that went through tzify() is always a datetime (as_tz_aware_ts combines dates with
                    # midnight), so it has a .time attribute whatever the property's value type was
                    return "TIME-ATTR"
                self.fail(e, "getattr")
            if d == "isinstance" and len(e.args) == 2:
                base = self.ev(e.args[0])
                if isinstance(base, DtValue) and base.name == "DTSTART" and (dotted(e.args[1]) or "").split(".")[-1] == "datetime":
                    return self.sc.isdt
                if isinstance(base, DtValue) and (dotted(e.args[1]) or "").split(".")[-1] == "date":
                    return True       # datetime is a subclass of date: true for DATE and for DATE-TIME values
                self.fail(e, "isinstance")
            helper = self.resolver(d) if self.resolver is not None else None
            if isinstance(helper, ast.ClassDef):
                if any(k.arg is None for k in e.keywords):
                    self.fail(e, "constructor call shape")
                return self.construct(helper, [self.ev(x) for x in e.args], {k.arg: self.ev(k.value) for k in e.keywords}, e)
            if helper is not None and not e.keywords and self.depth < 4:
                a = helper.args
                if a.vararg or a.kwarg or a.kwonlyargs or len(a.args) < len(e.args) or len(a.args) - len(a.defaults) > len(e.args):
                    self.fail(e, "helper call shape")
                vals = [self.ev(x) for x in e.args]
                saved = self.env
                self.env = {}
                for p_, v_ in zip(a.args, vals):
                    self.env[p_.arg] = v_
                for p_, dflt in zip(a.args[len(a.args) - len(a.defaults):], a.defaults):
                    if p_.arg not in self.env:
                        self.env[p_.arg] = self.ev(dflt)
                self.depth += 1
                try:
                    self.block(helper.body)
                    return None
                except Returned as r:
                    return r.value
                finally:
                    self.depth -= 1
                    self.env = saved
            self.fail(e, "call")
        if isinstance(e, ast.List) and not e.elts:
            return []
        if isinstance(e, ast.Tuple) and not e.elts:
            return []
        if isinstance(e, ast.Tuple):
            return tuple(self.ev(x) for x in e.elts)
        self.fail(e, type(e).__name__)


def weak_orderings(terms: Sequence[str]) -> Iterator[Dict[str, int]]:
    """All weak orderings (ordered set partitions) of *terms* as rank maps."""
    terms = list(terms)
    n = len(terms)
    if n == 0:
        yield {}
        return

    # generate via assignments to ranks then canonicalise
    seen = set()
    for k in range(1, n + 1):
        for assign in itertools.product(range(k), repeat=n):
            if len(set(assign)) != k:
                continue
            if assign in seen:
                continue
            seen.add(assign)
            yield dict(zip(terms, assign))
