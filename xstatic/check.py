"""CLI: python3 -m xstatic.check --property Cxx --tier quick|thorough [--repo /repo]

exit 0  every obligation discharged (or listed as a known finding)
exit 1  VIOLATION property=<id> replay=<path>   (positively identified construct)
exit 2  ANALYSIS-ERROR (anchor vanished / unmodelled form / checker self-test broken)
"""

from __future__ import annotations

import argparse
import json
import os
import sys
import time
import traceback

HERE = os.path.dirname(os.path.abspath(__file__))
VERIF = os.path.dirname(HERE)
if VERIF not in sys.path:
    sys.path.insert(0, VERIF)

from xstatic import core  # noqa: E402
from xstatic.meta import META  # noqa: E402


def run(prop: str, tier: str, repo: str, seed: int, quiet: bool = False, evidence_dir=None,
        known_path=None, selftest: bool = True, jobs: int = 0) -> int:
    t0 = time.time()
    r = core.run_property(prop, repo, tier)
    known = core.load_known(known_path)
    new, kn, regress = core.classify(r, known)
    meta = dict(META.get(prop, {}))
    meta["cmd"] = "python3 -m xstatic.check --property %s --tier %s" % (prop, tier)
    st_broken = []
    if tier == "thorough" and selftest and not r.errors:
        from xstatic import selftest as st
        r.selftest = st.run_selftest(prop, repo, jobs=jobs or (os.cpu_count() or 4), seed=seed)
        st_broken = r.selftest.get("broken", [])
    r.wall = time.time() - t0
    out = []
    out.append("== %s (%s tier) on %s" % (prop, tier, repo))
    if r.ctx is not None:
        out.append("   analysed: %d modules, %d functions in program, %d functions consulted by this property's rules"
                   % (len(r.ctx.program.modules), len(r.ctx.program.functions), len(r.ctx.functions_analysed)))
    for rid, cnt in r.rule_instances.items():
        nbad = len([o for o in r.obligations if o.rule == rid and o.status == core.VIOLATED])
        out.append("   rule %s/%s: %d instance(s), %d violated   %s" % (prop, rid, cnt, nbad, r.rule_descs.get(rid, "")))
    if not quiet:
        for o in r.obligations:
            if o.status == core.DISCHARGED:
                out.append("   ok   %s/%s %s %s — %s" % (o.prop, o.rule, o.where, o.construct, o.message))
    for o, k in kn:
        out.append("KNOWN-FINDING: property=%s rule=%s %s [%s] %s" % (prop, o.rule, o.construct, o.where, o.message))
    for o, k in regress:
        out.append("REGRESSION of a finding recorded as fixed (%s): %s" % (k.get("commit", "?"), o.key))
    paths = core.write_replays(r, new) if new else []
    for o, p in zip(new, paths):
        out.append(o.line())
        out.append("VIOLATION property=%s replay=%s" % (prop, p))
    for e in r.errors:
        out.append("ANALYSIS-ERROR property=%s %s" % (prop, e))
    for b in st_broken:
        out.append("ANALYSIS-ERROR property=%s selftest: %s" % (prop, b))
    ev = core.write_evidence(r, new, kn, meta, seed, evidence_dir)
    out.append("   evidence: %s   (%.2fs)" % (ev, r.wall))
    if r.selftest is not None:
        s = r.selftest
        out.append("   selftest: %d mutants, %d caught, %d skipped; %d benign variants, %d silent"
                   % (s.get("mutants", 0), s.get("caught", 0), s.get("skipped", 0),
                      s.get("benign", 0), s.get("benign_silent", 0)))
    print("\n".join(out))
    if new:
        return 1
    if r.errors or st_broken:
        return 2
    return 0


def explain(path: str, repo: str) -> int:
    with open(path) as f:
        d = json.load(f)
    prop, rid, key = d["property"], d["rule"], d["key"]
    r = core.run_property(prop, repo, "quick", only_rule=rid)
    hits = [o for o in r.obligations if o.key == key]
    for e in r.errors:
        print("ANALYSIS-ERROR property=%s %s" % (prop, e))
    if not hits:
        print("rule instance %s no longer exists on this tree" % key)
        return 2 if r.errors else 0
    for o in hits:
        print(o.line())
    if any(o.status == core.VIOLATED for o in hits):
        print("VIOLATION property=%s replay=%s" % (prop, path))
        return 1
    return 0


def main(argv=None) -> int:
    ap = argparse.ArgumentParser()
    ap.add_argument("--property", "-p")
    ap.add_argument("--tier", default=os.environ.get("VERIF_TIER", "quick"), choices=["quick", "thorough"])
    ap.add_argument("--repo", default=os.environ.get("XSTATIC_REPO", "/repo"))
    ap.add_argument("--explain")
    ap.add_argument("--quiet", "-q", action="store_true")
    ap.add_argument("--evidence-dir")
    ap.add_argument("--known")
    ap.add_argument("--no-selftest", action="store_true")
    ap.add_argument("--jobs", type=int, default=0)
    ap.add_argument("--all", action="store_true")
    a = ap.parse_args(argv)
    try:
        seed = int(os.environ.get("VERIF_SEED", "0"))
    except ValueError:
        seed = 0
    try:
        if a.explain:
            return explain(a.explain, a.repo)
        if a.all:
            rc = 0
            for p in sorted(META):
                rc = max(rc, run(p, a.tier, a.repo, seed, True, a.evidence_dir, a.known, not a.no_selftest, a.jobs))
            return rc
        if not a.property:
            ap.error("--property required")
        return run(a.property, a.tier, a.repo, seed, a.quiet, a.evidence_dir, a.known, not a.no_selftest, a.jobs)
    except core.AnalysisError as e:
        print("ANALYSIS-ERROR property=%s %s" % (a.property, e))
        return 2
    except Exception:
        traceback.print_exc()
        print("ANALYSIS-ERROR property=%s internal error in the analyser (traceback above)" % a.property)
        return 2


if __name__ == "__main__":
    sys.exit(main())
