"""Interprocedural summaries: may-raise sets and transitive effects.

Both are least fixed points over the resolved call graph.  A call to a
generator function is treated as if its body ran at the call site (the
iteration is at, or directly after, the call everywhere in this code base).
"""

from __future__ import annotations

import ast
from typing import Callable, Dict, List, Optional, Set, Tuple

from .program import FuncInfo, dotted, walk_local
from .cfg import CFG, Node, TryCtx

# attribute names that are @property in exactly one project class hierarchy and
# whose getter has behaviour worth following (parsing, store access)
UNIQUE_PROPERTIES = {
    "calendar": "xandikos.icalendar.ICalendarFile",
    "addressbook": "xandikos.vcard.VCardFile",
    "config": "xandikos.store.git.GitStore",
}


class Summaries:
    def __init__(self, ctx):
        self.ctx = ctx
        self.P = ctx.program
        self._callinfo: Dict[str, List[Tuple[Node, ast.AST, List[FuncInfo], Optional[str]]]] = {}
        self._may_raise: Optional[Dict[str, Set[str]]] = None
        self._effects: Dict[str, Dict[str, Set[str]]] = {}

    # -- call sites per node
    def calls_of(self, fi: FuncInfo):
        """[(node, call_ast_or_attr, targets, external_name)] for every call (and project
        property read) evaluated at a CFG node of *fi*."""
        ci = self._callinfo.get(fi.qualname)
        if ci is not None:
            return ci
        cfg = self.ctx.cfgs.get(fi)
        out = []
        stats = self.P.stats
        for n in cfg.nodes:
            if n.kind == "stmt" and n.label == "def":
                continue
            rfi = fi
            src_q = n.extra.get("inlined_from")
            if src_q and src_q in self.P.functions and self.P.functions[src_q].module is not fi.module:
                rfi = self.P.functions[src_q]       # names inside an inlined body resolve in the helper's module
            for c in n.calls():
                r = self.P.resolve_call(rfi, c)
                if r.targets:
                    stats["calls_resolved"] += 1
                elif r.external:
                    stats["calls_external"] += 1
                else:
                    stats["calls_unresolved"] += 1
                out.append((n, c, r.targets, r.external))
            # property reads
            for e in n.exprs():
                todo = [e]
                while todo:
                    x = todo.pop()
                    if isinstance(x, (ast.FunctionDef, ast.AsyncFunctionDef, ast.ClassDef, ast.Lambda)):
                        continue
                    if isinstance(x, ast.Attribute) and isinstance(x.ctx, ast.Load):
                        tg = self._property_target(fi, x)
                        if tg:
                            out.append((n, x, tg, None))
                    todo.extend(ast.iter_child_nodes(x))
        self._callinfo[fi.qualname] = out
        return out

    def _property_target(self, fi: FuncInfo, x: ast.Attribute) -> List[FuncInfo]:
        rd = dotted(x.value)
        if rd == "self":
            owner = fi.cls
            f = fi
            while owner is None and f.parent is not None:
                f = f.parent
                owner = f.cls
            if owner is not None:
                ts = [t for t in self.P.dispatch_targets(owner, x.attr) if "property" in t.decorators]
                return ts
            return []
        if x.attr in UNIQUE_PROPERTIES:
            cq = UNIQUE_PROPERTIES[x.attr]
            ci = self.P.classes.get(cq)
            if ci is not None:
                return [t for t in self.P.dispatch_targets(ci, x.attr) if "property" in t.decorators]
        return []

    # -- may-raise
    def may_raise(self, fi: FuncInfo) -> Set[str]:
        if self._may_raise is None:
            self._compute_may_raise()
        return self._may_raise.get(fi.qualname, set())

    def node_raises(self, fi: FuncInfo, n: Node) -> Set[str]:
        """Exceptions that may be raised *at* node n (before handler filtering)."""
        if self._may_raise is None:
            self._compute_may_raise()
        return self._node_raises(fi, n, self._may_raise)

    def _node_raises(self, fi, n, table) -> Set[str]:
        out: Set[str] = set()
        if n.kind == "raise":
            if n.extra.get("reraise"):
                h = n.handler
                if h is not None:
                    out |= {e for e in h.incoming if e}
            elif n.extra.get("exc"):
                out.add(n.extra["exc"])
        for (m, c, targets, ext) in self.calls_of(fi):
            if m is n:
                for t in targets:
                    out |= table.get(t.qualname, set())
        return out

    def escapes(self, fi: FuncInfo, n: Node, exc: str, record: bool = True) -> bool:
        """Does exception *exc* raised at n leave the function?  Records handler incoming sets."""
        hier = self.ctx.cfgs.hier
        for c in reversed(n.ctx):
            if isinstance(c, TryCtx):
                for h in c.handlers:
                    m = hier.match(exc, h.types)
                    if m != "no" and record:
                        h.incoming.add(exc)
                    if m == "yes":
                        return False
        return True

    def _compute_may_raise(self):
        table: Dict[str, Set[str]] = {f.qualname: set() for f in self.P.all_funcs()}
        funcs = self.P.all_funcs()
        for f in funcs:
            self.calls_of(f)
        changed = True
        rounds = 0
        while changed:
            changed = False
            rounds += 1
            if rounds > 50:
                break
            for f in funcs:
                cfg = self.ctx.cfgs.get(f)
                cur = table[f.qualname]
                new = set(cur)
                for n in cfg.nodes:
                    if n.kind in ("entry", "exit", "raise_exit"):
                        continue
                    for e in self._node_raises(f, n, table):
                        if e not in new or True:
                            if self.escapes(f, n, e):
                                new.add(e)
                if new != cur:
                    table[f.qualname] = new
                    changed = True
        self._may_raise = table
        self.ctx.note("may-raise summaries: %d functions, %d rounds" % (len(funcs), rounds))

    # -- transitive effects
    def effects(self, name: str, local: Callable[[FuncInfo, Node, ast.AST, Optional[str]], Optional[str]],
                stop: Optional[Callable[[FuncInfo], bool]] = None) -> Dict[str, Set[str]]:
        """Least fixed point of: facts(f) = {local(f, n, call, external)} ∪ facts(callees).

        *local* is called for every call site (call, external-name) and may return a fact label.
        """
        if name in self._effects:
            return self._effects[name]
        funcs = self.P.all_funcs()
        table: Dict[str, Set[str]] = {f.qualname: set() for f in funcs}
        for f in funcs:
            if stop is not None and stop(f):
                continue
            for (n, c, targets, ext) in self.calls_of(f):
                lab = local(f, n, c, ext)
                if lab:
                    table[f.qualname].add(lab)
        changed = True
        while changed:
            changed = False
            for f in funcs:
                if stop is not None and stop(f):
                    continue
                cur = table[f.qualname]
                add = set()
                for (n, c, targets, ext) in self.calls_of(f):
                    for t in targets:
                        add |= table.get(t.qualname, set())
                if not add <= cur:
                    cur |= add
                    changed = True
        self._effects[name] = table
        return table

    def node_effects(self, fi: FuncInfo, n: Node, name: str, local, table=None) -> Set[str]:
        table = table or self._effects[name]
        out: Set[str] = set()
        for (m, c, targets, ext) in self.calls_of(fi):
            if m is not n:
                continue
            lab = local(fi, n, c, ext)
            if lab:
                out.add(lab)
            for t in targets:
                out |= table.get(t.qualname, set())
        return out

    # -- reachability in the call graph
    def callees(self, fi: FuncInfo) -> List[FuncInfo]:
        out = []
        for (n, c, targets, ext) in self.calls_of(fi):
            for t in targets:
                if t not in out:
                    out.append(t)
        return out

    def reachable_funcs(self, roots: List[FuncInfo], stop: Optional[Callable[[FuncInfo], bool]] = None
                        ) -> Dict[str, Optional[str]]:
        """qualname -> qualname of the caller through which it was first reached (None for roots)."""
        parent: Dict[str, Optional[str]] = {}
        todo = []
        for r in roots:
            parent[r.qualname] = None
            todo.append(r)
        while todo:
            f = todo.pop(0)
            if stop is not None and stop(f):
                continue
            for t in self.callees(f):
                if t.qualname not in parent:
                    parent[t.qualname] = f.qualname
                    todo.append(t)
        return parent

    @staticmethod
    def chain(parent: Dict[str, Optional[str]], q: str) -> List[str]:
        out = [q]
        while parent.get(q) is not None:
            q = parent[q]
            out.append(q)
        return list(reversed(out))
